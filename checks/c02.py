"""
C02 - Compression is transparent, lossless and atomically published (file-system protocol part).
Real Reader.__init__ (path resolution), _get_companion_file, Reader.open (branch), compress_file,
decompress_file, decompress_to_scratch on the symbolic file system with a fault injected at every
mutating operation.
"""
import numpy as np
import z3

from symex import arrays, core, fakefs, larr, np2env, sglx
from symex.core import SInt, all_, and_, implies, not_, or_
from symex.fakefs import FakePath, InjectedFault, InjectedInterrupt
from symex.harness import Case, Twin
from symex.larr import LArr
from symex.np2env import Cbin

PROPERTY = "C02"
FUNCTIONS = ["spikeglx.Reader.__init__", "spikeglx._get_companion_file", "Reader.open", "Reader.compress_file", "Reader.decompress_file", "Reader.decompress_to_scratch", "Reader.read (delegation)"]
ASSUMPTIONS = [
    "mtscomp is a stub: compress writes `out` chunk by chunk (2 chunks; a fault is possible before each write), then the .ch, then the optional check; "
    "decompress/Reader expose the source array with NumPy slicing; a partially written stream is 'incomplete' and cannot be opened",
    "every mutating file-system call (create, write chunk, rename, unlink, move, copy, mkdir) is a fault point; at most one fault per call; the fault index is enumerated, file existence is symbolic",
]
OUTSIDE = ["compress o decompress == identity on bytes and value equality through mtscomp.Reader.__getitem__ (zlib and third-party indexing code: not encodable; the stub makes them true by construction)",
           "more than one fault per call, power loss semantics below the file-system API"]
EXPLANATION = "directory state = symbolic existence flags; fault position = enumerated operation index; the final directory listing is inspected after normal and exceptional exits."
LEVEL_TEXT = ("For every combination of existing companion files and every entry point, z3 decides that the reader resolves to an existing data file of the same recording; for keep_original in {T,F} and a fault "
              "at every mutating operation of compress_file / decompress_to_scratch / decompress_file, the final directory never holds a file with the final name that is incomplete, the source is intact unless the call "
              "returned normally with keep_original=False, and removal of the source happens after its replacement is complete.")
LEVEL_NOTE = "Trusted: the fake file system and the mtscomp stub (chunked writes); z3 for the symbolic existence flags."

BASE = "/d/x.imec0.ap"


def bounds(tier):
    return {"faults": list(range(0, 9)) if tier == "quick" else list(range(0, 13)), "chunks": 2 if tier == "quick" else 5}


def setup():
    import os
    np2env.N_CHUNKS = 2 if os.environ.get("VERIF_TIER_ACTIVE", "quick") == "quick" else 5
    np2env.patch()


def _meta_txt(ns_tok="0.001"):
    return sglx.imec_meta_text("NP2.1", [(0, 0, 0), (0, 1, 0)], ns=ns_tok, fs_hz="30000", file_size=180)


NS, NC = 30, 3


def _install(bin_exists=True, cbin_exists=False, ch_exists=None, meta_exists=True):
    F = fakefs.install(fakefs.FakeFS())
    txt = _meta_txt()
    F.add(BASE + ".meta", meta_exists, len(txt), [{"pos": 0, "text": txt}])
    raw = np2env.raw_array(NS, NC)
    F.add(BASE + ".bin", bin_exists, NS * NC * 2, raw)
    F.add(BASE + ".cbin", cbin_exists, 17, Cbin(raw, True, (NS, NC)))
    F.add(BASE + ".ch", cbin_exists if ch_exists is None else ch_exists, 11, {"ch_for": BASE + ".cbin"})
    return F, raw


def case_entry_points(ctx):
    import spikeglx
    eb, ec = ctx.bool("bin_exists"), ctx.bool("cbin_exists")
    F, raw = _install(eb, ec, ec, True)
    have_bin, have_cbin = bool(eb), bool(ec)
    if not (have_bin or have_cbin):
        return
    res = {}
    for entry in (("bin",) if have_bin else ()) + (("cbin",) if have_cbin else ()) + ("meta",):
        sr = ctx.call(f"open_through_{entry}", spikeglx.Reader, FakePath(BASE + "." + entry))
        fb = sr.file_bin
        ok = ctx.oblige("resolves_to_an_existing_data_file", fb is not None and str(fb) in (BASE + ".bin", BASE + ".cbin") and bool(F.exists(str(fb))) if fb is not None else False,
                        detail={"entry": entry, "file_bin": str(fb)})
        ctx.oblige("metadata_is_the_recordings", str(sr.file_meta_data) == BASE + ".meta", detail={"entry": entry})
        if ok:
            ctx.oblige("reader_is_open", sr.is_open, detail={"entry": entry})
            ctx.oblige("same_shape_through_every_entry_point", and_(core.eq(sr.shape[0], NS), sr.shape[1] == NC), detail={"entry": entry, "shape": str(sr.shape)})
            p = ctx.int("p", 0, NS - 1)
            row = ctx.call("read", lambda: sr[p, :])
            s2v = sr.sample2volts
            order = [int(v) for v in sr.raw_channel_order]
            for j in range(NC):
                ctx.oblige("same_values_through_every_entry_point", core.eq(row[j], np2env.raw_elem(p, order[j]) * float(s2v[order[j]])), detail={"entry": entry, "j": j})
        res[entry] = str(fb)


def case_entry_points_header_elsewhere(ctx):
    """a compressed recording whose .ch header is kept elsewhere and named explicitly (ch_file=), through the .cbin and the .meta path"""
    import spikeglx
    eb = ctx.bool("bin_exists")
    F, raw = _install(eb, True, False, True)
    F.add("/e/h.ch", True, 11, {"ch_for": BASE + ".cbin"})
    have_bin = bool(eb)
    for entry in ("cbin", "meta"):
        sr = ctx.call(f"open_through_{entry}", lambda: spikeglx.Reader(FakePath(BASE + "." + entry), ch_file=FakePath("/e/h.ch")))
        fb = sr.file_bin
        want = (BASE + ".bin") if (have_bin and entry == "meta") else (BASE + ".cbin")
        ok = ctx.oblige("resolves_to_an_existing_data_file", fb is not None and str(fb) == want, detail={"entry": entry, "file_bin": str(fb)})
        if ok:
            ctx.oblige("reader_is_open", sr.is_open, detail={"entry": entry})
            ctx.oblige("same_shape_through_every_entry_point", and_(core.eq(sr.shape[0], NS), sr.shape[1] == NC), detail={"entry": entry})
            p = ctx.int("p", 0, NS - 1)
            row = ctx.call("read", lambda: sr[p, :])
            s2v = sr.sample2volts
            order = [int(v) for v in sr.raw_channel_order]
            for j in range(NC):
                ctx.oblige("same_values_through_every_entry_point", core.eq(row[j], np2env.raw_elem(p, order[j]) * float(s2v[order[j]])), detail={"entry": entry, "j": j})


def case_recompressed_then_reopened(ctx):
    """history in one process: compress, open, decompress in place, compress again (another chunk table), open again:
    the reader of the second compressed file reads the recording (nothing of the first header may be reused)"""
    import spikeglx
    F, raw = _install(True, False)
    sr = ctx.call("open_bin", spikeglx.Reader, FakePath(BASE + ".bin"))
    ctx.call("compress", lambda: sr.compress_file(keep_original=False, chunk_duration=0.02))
    sc = ctx.call("open_cbin", spikeglx.Reader, FakePath(BASE + ".cbin"))
    p = ctx.int("p", 0, NS - 1)

    def check(rd, what):
        row = ctx.call("read_" + what, lambda: rd[p, :])
        s2v = rd.sample2volts
        order = [int(v) for v in rd.raw_channel_order]
        for j in range(NC):
            ctx.oblige(what + "_reads_the_recording", core.eq(row[j], np2env.raw_elem(p, order[j]) * float(s2v[order[j]])), detail={"j": j})
    check(sc, "first_compressed_file")
    ctx.call("decompress", lambda: sc.decompress_file(keep_original=False))
    sb = ctx.call("open_bin_again", spikeglx.Reader, FakePath(BASE + ".bin"))
    ctx.call("compress_again", lambda: sb.compress_file(keep_original=False, chunk_duration=0.01))
    sc2 = ctx.call("open_second_cbin", spikeglx.Reader, FakePath(BASE + ".cbin"))
    ctx.oblige("second_compressed_file_opens_with_the_recordings_shape", and_(core.eq(sc2.shape[0], NS), sc2.shape[1] == NC), detail={"shape": str(sc2.shape)})
    check(sc2, "second_compressed_file")


def _final_state_ok(ctx, F, final_name, what):
    f = F.get(final_name)
    if f is None or not bool(f.exists):
        return
    c = f.content
    if final_name.endswith(".cbin"):
        ctx.oblige(f"{what}_final_name_only_when_complete", isinstance(c, Cbin) and c.complete, detail={"file": final_name, "content": repr(c)})
        # a compressed stream is only usable together with its header file
        ch = F.get(final_name[:-5] + ".ch")
        ctx.oblige(f"{what}_compressed_file_never_without_its_header", ch is not None and bool(ch.exists), detail={"file": final_name})
    else:
        ctx.oblige(f"{what}_final_name_only_when_complete", isinstance(c, LArr), detail={"file": final_name, "content": repr(c)[:80]})


def case_compress(ctx, fault):
    import spikeglx
    keep = bool(ctx.bool("keep_original"))
    stale_tmp = bool(ctx.bool("stale_tmp_exists"))
    earlier = bool(ctx.bool("earlier_compressed_copy_exists"))      # a complete .cbin + .ch from an earlier keep_original=True run
    F, raw = _install(True, earlier)
    if stale_tmp:
        F.add(BASE + ".cbin_tmp", True, 3, Cbin(raw, False, (NS, NC)))
    sr = ctx.call("open", spikeglx.Reader, FakePath(BASE + ".bin"))
    n0 = F.nops
    if fault is not None and bool(ctx.bool("interrupted_by_a_signal")):
        F.fault_exc = InjectedInterrupt       # Ctrl-C / SystemExit instead of an I/O error
    F.fault_at = None if fault is None else n0 + fault
    raised = None
    out = None
    try:
        out = sr.compress_file(keep_original=keep)
    except (InjectedFault, InjectedInterrupt) as e:
        raised = e
    except Exception as e:  # noqa
        ctx.oblige("compress_no_unexpected_exception", False, detail={"exception": repr(e)})
        return
    F.fault_at = None
    _final_state_ok(ctx, F, BASE + ".cbin", "compress")
    src = F.get(BASE + ".bin")
    if raised is not None or keep:
        ctx.oblige("source_untouched_unless_completed_without_keep", bool(src.exists) and src.content is raw, detail={"fault": fault, "keep": keep, "raised": repr(raised)})
    if raised is None:
        c = F.get(BASE + ".cbin")
        ctx.oblige("returns_path_of_complete_cbin", str(out) == BASE + ".cbin" and c is not None and bool(c.exists) and isinstance(c.content, Cbin) and c.content.complete)
        ctx.oblige("companion_ch_written", bool(F.get(BASE + ".ch").exists))
        ctx.oblige("no_tmp_left_behind", not bool(F.exists(BASE + ".cbin_tmp")))
        if not keep:
            ctx.oblige("source_removed_when_not_kept", not bool(src.exists))
            ctx.oblige("reader_points_to_replacement", str(sr.file_bin) == BASE + ".cbin", detail={"file_bin": str(sr.file_bin)})
    # ordering on the recorded trace: the source is unlinked only after the final name holds a complete stream
    ops = [(t[0], t[1], t[2]) for t in F.trace if len(t) == 4 and isinstance(t[0], int) and t[0] >= n0]
    for i, (k, op, p) in enumerate(ops):
        if op == "unlink" and p == BASE + ".bin":
            before = [(o, q) for (_, o, q) in ops[:i]]
            ctx.oblige("unlink_of_source_after_rename_to_final_name", ("rename", BASE + ".cbin_tmp") in before, detail={"trace": str(ops)[:300]})
    ctx.oblige("fault_was_exercised_or_beyond_last_op", raised is not None or fault is None or n0 + fault >= F.nops, detail={"fault": fault, "nops": F.nops - n0})


def case_decompress_scratch(ctx, fault, scratch):
    import spikeglx
    stale = bool(ctx.bool("stale_temp_exists"))
    F, raw = _install(False, True)
    scratch_dir = FakePath("/scratch/sub") if scratch else None
    final = ("/scratch/sub/x.imec0.ap.bin" if scratch else BASE + ".bin")
    if stale:
        F.add(final + "_temp", True, 5, {"partial_of": None})
    sr = ctx.call("open", spikeglx.Reader, FakePath(BASE + ".cbin"))
    n0 = F.nops
    if fault is not None and bool(ctx.bool("interrupted_by_a_signal")):
        F.fault_exc = InjectedInterrupt       # Ctrl-C / SystemExit instead of an I/O error
    F.fault_at = None if fault is None else n0 + fault
    raised = None
    try:
        out = sr.decompress_to_scratch(scratch_dir=scratch_dir)
    except (InjectedFault, InjectedInterrupt) as e:
        raised = e
    except Exception as e:  # noqa
        ctx.oblige("scratch_no_unexpected_exception", False, detail={"exception": repr(e)})
        return
    F.fault_at = None
    nops_after = F.nops
    _final_state_ok(ctx, F, final, "scratch")
    src = F.get(BASE + ".cbin")
    ctx.oblige("compressed_source_untouched", bool(src.exists) and isinstance(src.content, Cbin) and src.content.complete and bool(F.get(BASE + ".ch").exists))
    if raised is None:
        f = F.get(final)
        ctx.oblige("scratch_returns_complete_bin", str(out) == final and f is not None and bool(f.exists) and isinstance(f.content, LArr), detail={"out": str(out)})
        if scratch:
            ctx.oblige("scratch_has_metadata_copy", bool(F.exists("/scratch/sub/x.imec0.ap.meta")))
        # the scratch copy opens and reads the same values
        sr2 = ctx.call("open_scratch", spikeglx.Reader, FakePath(final))
        p = ctx.int("p", 0, NS - 1)
        r1 = ctx.call("read", lambda: sr[p, :])
        r2 = ctx.call("read", lambda: sr2[p, :])
        ctx.oblige("scratch_values_equal_compressed_values", all_([core.eq(r1[j], r2[j]) for j in range(NC)]))
    ctx.oblige("fault_was_exercised_or_beyond_last_op", raised is not None or fault is None or n0 + fault >= nops_after, detail={"fault": fault, "nops": nops_after - n0})


def case_decompress_inplace(ctx, fault):
    import spikeglx
    keep = bool(ctx.bool("keep_original"))
    F, raw = _install(False, True)
    sr = ctx.call("open", spikeglx.Reader, FakePath(BASE + ".cbin"))
    n0 = F.nops
    if fault is not None and bool(ctx.bool("interrupted_by_a_signal")):
        F.fault_exc = InjectedInterrupt       # Ctrl-C / SystemExit instead of an I/O error
    F.fault_at = None if fault is None else n0 + fault
    raised = None
    custom = bool(ctx.bool("output_path_given"))        # decompress_file(out=<another name>) instead of the default <name>.bin
    OUT = "/d/elsewhere.imec0.ap.bin" if custom else BASE + ".bin"
    try:
        out = sr.decompress_file(keep_original=keep, out=FakePath(OUT)) if custom else sr.decompress_file(keep_original=keep)
    except (InjectedFault, InjectedInterrupt) as e:
        raised = e
    except Exception as e:  # noqa
        ctx.oblige("decompress_no_unexpected_exception", False, detail={"exception": repr(e)})
        return
    F.fault_at = None
    src = F.get(BASE + ".cbin")
    dst = F.get(OUT)
    complete = dst is not None and bool(dst.exists) and isinstance(dst.content, LArr)
    # the source (cbin + ch) may only be gone once the replacement is complete
    src_gone = (not bool(src.exists)) or (not bool(F.get(BASE + ".ch").exists))
    ctx.oblige("compressed_source_removed_only_after_replacement_complete", (not src_gone) or complete, detail={"fault": fault, "keep": keep})
    if keep:
        ctx.oblige("compressed_source_kept_when_asked", bool(src.exists) and bool(F.get(BASE + ".ch").exists), detail={"fault": fault})
    if raised is None:
        ctx.oblige("decompress_returns_complete_bin", str(out) == OUT and complete, detail={"returned": str(out), "asked": OUT})
        if not keep:
            ctx.oblige("reader_points_to_bin", str(sr.file_bin) == OUT, detail={"file_bin": str(sr.file_bin), "asked": OUT})
        if not keep and not custom:
            # the object modified in place keeps working: re-opened, it reads the same recording
            ctx.call("reopen_same_object", sr.open)
            ctx.oblige("same_object_reopened_has_the_recordings_shape", tuple(sr.shape) == (NS, NC), detail={"shape": str(sr.shape)})
            if tuple(sr.shape) == (NS, NC):
                p = ctx.int("p", 0, NS - 1)
                fresh = ctx.call("open_fresh", spikeglx.Reader, FakePath(BASE + ".bin"))
                r1 = ctx.call("read", lambda: sr[p, :])
                r2 = ctx.call("read", lambda: fresh[p, :])
                ctx.oblige("same_object_reads_what_a_fresh_reader_reads", all_([core.eq(r1[j], r2[j]) for j in range(NC)]))


def case_decompress_inplace_retry(ctx, fault):
    """history: an in-place decompression is interrupted at operation `fault` (mtscomp writes straight under the final
    .bin name, so a partial .bin may stay behind), then the same call is retried from a fresh Reader"""
    import spikeglx
    keep = bool(ctx.bool("keep_original"))
    F, raw = _install(False, True)
    sr = ctx.call("open", spikeglx.Reader, FakePath(BASE + ".cbin"))
    n0 = F.nops
    F.fault_at = n0 + fault
    raised = None
    try:
        sr.decompress_file(keep_original=keep)
    except (InjectedFault, InjectedInterrupt) as e:
        raised = e
    except Exception as e:  # noqa
        ctx.oblige("decompress_no_unexpected_exception", False, detail={"exception": repr(e)})
        return
    F.fault_at = None
    if raised is None or not bool(F.get(BASE + ".cbin").exists):
        return              # the first call completed (the fault index lies beyond its last operation): single-call cases cover it
    try:
        sr.close()
    except Exception:  # noqa
        pass
    sr2 = ctx.call("reopen", spikeglx.Reader, FakePath(BASE + ".cbin"))
    retry_raised = None
    try:
        out = sr2.decompress_file(keep_original=keep)
    except Exception as e:  # noqa   (refusing to overwrite the partial output is a legitimate answer)
        retry_raised = e
    src = F.get(BASE + ".cbin")
    dst = F.get(BASE + ".bin")
    complete = dst is not None and bool(dst.exists) and isinstance(dst.content, LArr)
    src_gone = (not bool(src.exists)) or (not bool(F.get(BASE + ".ch").exists))
    ctx.oblige("retry_removes_compressed_source_only_after_replacement_complete", (not src_gone) or complete,
               detail={"fault": fault, "keep": keep, "retry_raised": repr(retry_raised)})
    if retry_raised is None:
        ctx.oblige("retry_returns_complete_bin", complete, detail={"fault": fault, "keep": keep})


def cases(tier):
    cs = [Case("entry_points", "case_entry_points", {}), Case("entry_points_header_elsewhere", "case_entry_points_header_elsewhere", {}),
          Case("recompressed_then_reopened", "case_recompressed_then_reopened", {})]
    for k in ([1, 2, 3] if tier == "quick" else [0, 1, 2, 3, 4, 5, 6]):
        cs.append(Case(f"inplace_retry_fault{k}", "case_decompress_inplace_retry", {"fault": k}))
    for k in [None] + bounds(tier)["faults"]:
        cs.append(Case(f"compress_fault{k}", "case_compress", {"fault": k}))
        cs.append(Case(f"scratch_fault{k}", "case_decompress_scratch", {"fault": k, "scratch": False}))
        cs.append(Case(f"scratchdir_fault{k}", "case_decompress_scratch", {"fault": k, "scratch": True}))
        if k is None or k < (6 if tier == "quick" else 10):
            cs.append(Case(f"inplace_fault{k}", "case_decompress_inplace", {"fault": k}))
    return cs


def twins(tier):
    m = "spikeglx"
    comp = [f"compress_fault{k}" for k in [None] + list(range(0, 9))]
    scr = [f"scratch_fault{k}" for k in [None] + list(range(0, 9))] + [f"scratchdir_fault{k}" for k in [None] + list(range(0, 9))]
    return [
        Twin("compress_straight_to_cbin", m, 'file_tmp = self.file_bin.with_suffix(".cbin_tmp")', 'file_tmp = self.file_bin.with_suffix(".cbin")', comp),
        Twin("unlink_before_compress", m, "        assert not self.is_mtscomp\n        mtscomp.compress(", "        assert not self.is_mtscomp\n        if not keep_original:\n            self.file_bin.unlink()\n        mtscomp.compress(", comp),
        Twin("scratch_writes_in_place", m, "out=bin_file.with_suffix('.bin_temp')", "out=bin_file", scr),
        Twin("inplace_unlink_first", m, "        assert self.is_mtscomp\n        r = mtscomp.decompress(", "        assert self.is_mtscomp\n        if not keep_original:\n            self.file_bin.with_suffix(\".ch\").unlink()\n        r = mtscomp.decompress(",
             [f"inplace_fault{k}" for k in [None, 0, 1, 2, 3, 4, 5]]),
        Twin("inplace_trusts_existing_output", m, "        assert self.is_mtscomp\n        r = mtscomp.decompress(\n            self.file_bin, self.file_bin.with_suffix(\".ch\"), **kwargs\n        )\n        r.close()",
             "        assert self.is_mtscomp\n        if not Path(kwargs[\"out\"]).exists():\n            r = mtscomp.decompress(\n                self.file_bin, self.file_bin.with_suffix(\".ch\"), **kwargs\n            )\n            r.close()",
             [f"inplace_retry_fault{k}" for k in range(0, 7)]),
        Twin("meta_entry_prefers_nothing", m, '                if sglx_file.with_suffix(".cbin").exists()', '                if sglx_file.with_suffix(".cbin_x").exists()', ["entry_points"]),
        Twin("rename_skipped_when_kept", m, "        file_tmp.rename(file_out)\n        if not keep_original:", "        if not keep_original:\n            file_tmp.rename(file_out)\n        if not keep_original:", comp),
    ]


def replay(case, params, cex):
    m = cex["model"]
    common = '''
import sys, tempfile, pathlib, shutil
sys.path.insert(0, '/verif')
from symex import sglx
import spikeglx, mtscomp
d = pathlib.Path(tempfile.mkdtemp())
ns, nc = 3000, 3
rs = np.random.default_rng(0); data = rs.integers(-3000, 3000, size=(ns, nc)).astype(np.int16)
txt = sglx.imec_meta_text('NP2.1', [(0, 0, 0), (0, 1, 0)], ns=format(ns / 30000.0, '.12f'), fs_hz='30000', file_size=ns * nc * 2)
base = d / 'x.imec0.ap'
def mk_bin():
    (d / 'x.imec0.ap.meta').write_text(txt); data.tofile(d / 'x.imec0.ap.bin')
def mk_cbin():
    mk_bin(); sr = spikeglx.Reader(d / 'x.imec0.ap.bin'); sr.compress_file(keep_original=False); sr.close()
class Boom(BASE_EXC): pass
'''.replace("BASE_EXC", "BaseException" if m.get("interrupted_by_a_signal") else "OSError")
    if case == "recompressed_then_reopened":
        return common + f"""
mk_bin()
ref = None
bad = []
def values(rd):
    return data[:, rd.raw_channel_order].astype(np.float32) * rd.sample2volts[rd.raw_channel_order]
try:
    sr = spikeglx.Reader(d / 'x.imec0.ap.bin'); sr.compress_file(keep_original=False, chunk_duration=0.02, n_threads=1); sr.close()
    sc = spikeglx.Reader(d / 'x.imec0.ap.cbin')
    if not np.array_equal(sc[:, :], values(sc)): bad.append('first compressed file reads other values')
    sc.decompress_file(keep_original=False); sc.close()
    sb = spikeglx.Reader(d / 'x.imec0.ap.bin'); sb.compress_file(keep_original=False, chunk_duration=0.01, n_threads=1); sb.close()
    sc2 = spikeglx.Reader(d / 'x.imec0.ap.cbin')
    if sc2.shape != (ns, nc): bad.append(('shape', sc2.shape))
    for sl in (slice(0, ns), slice(ns // 2, ns), slice(ns - 3, ns), slice(1, 5)):
        try:
            if not np.array_equal(sc2[sl, :], values(sc2)[sl]): bad.append(('second compressed file reads other values in', str(sl)))
        except Exception as e:
            bad.append(('read of the second compressed file raised', str(sl), repr(e)))
except Exception as e:
    bad.append(('raised', repr(e)))
print(bad)
if bad: reproduced(str(bad))
not_reproduced()
"""
    if case == "entry_points_header_elsewhere":
        return common + f"""
import shutil
mk_cbin()
(d / 'e').mkdir(); shutil.move(d / 'x.imec0.ap.ch', d / 'e' / 'h.ch')
be = {bool(m.get('bin_exists'))}
if be: data.tofile(d / 'x.imec0.ap.bin')
bad = []
for entry in ['cbin', 'meta']:
    try:
        sr = spikeglx.Reader(d / f'x.imec0.ap.{{entry}}', ch_file=d / 'e' / 'h.ch')
    except Exception as e:
        bad.append((entry, 'raised', repr(e))); continue
    if sr.file_bin is None or not pathlib.Path(sr.file_bin).exists(): bad.append((entry, 'file_bin', str(sr.file_bin))); continue
    if not sr.is_open or sr.shape != (ns, nc): bad.append((entry, 'shape', sr.shape if sr.is_open else None)); continue
    exp = data[:, sr.raw_channel_order].astype(np.float32) * sr.sample2volts[sr.raw_channel_order]
    if not np.array_equal(sr[:, :], exp): bad.append((entry, 'values'))
    sr.close()
print(bad)
if bad: reproduced(str(bad))
not_reproduced()
"""
    if case == "entry_points":
        return common + f"""
be, ce = {bool(m.get('bin_exists'))}, {bool(m.get('cbin_exists'))}
if ce: mk_cbin()
if be:
    if ce: data.tofile(d / 'x.imec0.ap.bin')
    else: mk_bin()
bad = []
for entry in (['bin'] if be else []) + (['cbin'] if ce else []) + ['meta']:
    try:
        sr = spikeglx.Reader(d / f'x.imec0.ap.{{entry}}')
    except Exception as e:
        bad.append((entry, 'raised', repr(e))); continue
    if sr.file_bin is None or not pathlib.Path(sr.file_bin).exists(): bad.append((entry, 'file_bin', str(sr.file_bin))); continue
    if not sr.is_open or sr.shape != (ns, nc): bad.append((entry, 'shape', sr.shape if sr.is_open else None)); continue
    exp = data[:, sr.raw_channel_order].astype(np.float32) * sr.sample2volts[sr.raw_channel_order]
    if not np.array_equal(sr[:, :], exp): bad.append((entry, 'values'))
    sr.close()
print(bad)
if bad: reproduced(str(bad))
not_reproduced()
"""
    fault = params.get("fault")
    if case.startswith("compress"):
        return common + f"""
keep, fault = {bool(m.get('keep_original'))}, {fault!r}
mk_bin()
if {bool(m.get('earlier_compressed_copy_exists'))}:        # a complete .cbin + .ch from an earlier keep_original=True run
    _s = spikeglx.Reader(d / 'x.imec0.ap.bin'); _s.compress_file(keep_original=True, chunk_duration=0.02, n_threads=1); _s.close()
if {bool(m.get('stale_tmp_exists'))}: (d / 'x.imec0.ap.cbin_tmp').write_bytes(b'junk')
sr = spikeglx.Reader(d / 'x.imec0.ap.bin')
# inject a failure inside mtscomp's writer at the chosen point (python-level)
import mtscomp as M
orig_write = M.Writer.compress_batch
state = dict(n=0)
def failing(self, *a, **k):
    state['n'] += 1
    if fault is not None and state['n'] == max(1, fault): raise Boom('injected')
    return orig_write(self, *a, **k)
if fault is not None and fault <= 4: M.Writer.compress_batch = failing
raised = None
try:
    out = sr.compress_file(keep_original=keep, chunk_duration=0.02, n_threads=1)
except Boom as e:
    raised = e
finally:
    M.Writer.compress_batch = orig_write
bad = []
cb = d / 'x.imec0.ap.cbin'
if cb.exists():
    try:
        r = mtscomp.Reader(); r.open(cb, d / 'x.imec0.ap.ch'); ok = r.shape == (ns, nc) and np.array_equal(r[:, :], data); r.close()
    except Exception as e:
        ok = False
    if not ok: bad.append('incomplete file carries the final .cbin name')
src = d / 'x.imec0.ap.bin'
if (raised is not None or keep) and not (src.exists() and np.array_equal(np.fromfile(src, dtype=np.int16).reshape(ns, nc), data)): bad.append('source damaged/removed')
if raised is None:
    if not cb.exists(): bad.append('no cbin after normal return')
    if not keep and (src.exists() or str(sr.file_bin) != str(cb)): bad.append('source kept / reader not repointed')
    if (d / 'x.imec0.ap.cbin_tmp').exists(): bad.append('temporary file left behind')
print('raised', raised, sorted(p.name for p in d.iterdir()), bad)
if bad: reproduced(str(bad))
not_reproduced()
"""
    if case.startswith("scratch"):
        return common + f"""
fault, scratch = {fault!r}, {params.get('scratch')}
mk_cbin()
sr = spikeglx.Reader(d / 'x.imec0.ap.cbin')
sd = (d / 'scratch' / 'sub') if scratch else None
final = (sd / 'x.imec0.ap.bin') if scratch else d / 'x.imec0.ap.bin'
import mtscomp as M
orig = M.Reader.tofile
def failing(self, out, overwrite=False):
    # emulate a failure after part of the output was written
    with open(out, 'wb') as f: f.write(b'partial')
    raise Boom('injected')
if fault is not None and fault <= 3: M.Reader.tofile = failing
raised = None
try:
    out = sr.decompress_to_scratch(scratch_dir=sd)
except Boom as e:
    raised = e
finally:
    M.Reader.tofile = orig
bad = []
if final.exists() and not (final.stat().st_size == data.nbytes and np.array_equal(np.fromfile(final, dtype=np.int16).reshape(ns, nc), data)): bad.append('incomplete file carries the final .bin name')
if not (d / 'x.imec0.ap.cbin').exists() or not (d / 'x.imec0.ap.ch').exists(): bad.append('compressed source removed')
if raised is None and not final.exists(): bad.append('no output after normal return')
print('raised', raised, bad)
if bad: reproduced(str(bad))
not_reproduced()
"""
    if case.startswith("inplace_retry"):
        return common + f"""
keep, fault = {bool(m.get('keep_original'))}, {fault!r}
mk_cbin()
sr = spikeglx.Reader(d / 'x.imec0.ap.cbin')
import mtscomp as M
orig = M.Reader.tofile
def failing(self, out, overwrite=False):
    if pathlib.Path(out).exists() and not overwrite: raise ValueError('exists')
    with open(out, 'wb') as f: f.write(b'partial')
    raise Boom('injected')
M.Reader.tofile = failing
try:
    sr.decompress_file(keep_original=keep)
except Boom as e:
    pass
finally:
    M.Reader.tofile = orig
try: sr.close()
except Exception: pass
retry = None
try:
    sr2 = spikeglx.Reader(d / 'x.imec0.ap.cbin'); sr2.decompress_file(keep_original=keep)
except Exception as e:
    retry = e
b = d / 'x.imec0.ap.bin'
complete = b.exists() and b.stat().st_size == data.nbytes and np.array_equal(np.fromfile(b, dtype=np.int16).reshape(ns, nc), data)
gone = not (d / 'x.imec0.ap.cbin').exists() or not (d / 'x.imec0.ap.ch').exists()
bad = []
if gone and not complete: bad.append('retry removed the compressed source although the replacement is incomplete')
if retry is None and not complete: bad.append('retry returned normally without a complete bin')
print('retry raised', repr(retry), bad)
if bad: reproduced(str(bad))
not_reproduced()
"""
    if case.startswith("inplace"):
        return common + f"""
keep, fault = {bool(m.get('keep_original'))}, {fault!r}
mk_cbin()
sr = spikeglx.Reader(d / 'x.imec0.ap.cbin')
import mtscomp as M
orig = M.Reader.tofile
def failing(self, out, overwrite=False):
    with open(out, 'wb') as f: f.write(b'partial')
    raise Boom('injected')
if fault is not None and fault <= 2: M.Reader.tofile = failing
raised = None
custom = {bool(m.get('output_path_given'))}
b = d / ('elsewhere.imec0.ap.bin' if custom else 'x.imec0.ap.bin')
try:
    out = sr.decompress_file(keep_original=keep, out=b) if custom else sr.decompress_file(keep_original=keep)
except Boom as e:
    raised = e
finally:
    M.Reader.tofile = orig
if raised is None and pathlib.Path(out) != b: reproduced(f'decompress_file returned {{out}} although the output was written to {{b}}')
if raised is None and not keep and pathlib.Path(sr.file_bin) != b: reproduced(f'after the in-place decompression the reader points to {{sr.file_bin}}, the data are in {{b}} (exists: {{pathlib.Path(sr.file_bin).exists()}})')
complete = b.exists() and b.stat().st_size == data.nbytes and np.array_equal(np.fromfile(b, dtype=np.int16).reshape(ns, nc), data)
gone = not (d / 'x.imec0.ap.cbin').exists() or not (d / 'x.imec0.ap.ch').exists()
bad = []
if gone and not complete: bad.append('compressed source removed before the replacement was complete')
if raised is None and not complete: bad.append('no complete bin after normal return')
if raised is None and not keep and not custom:
    sr.open()
    fresh = spikeglx.Reader(b)
    if sr.shape != (ns, nc): bad.append(f'the reader object decompressed in place re-opens with shape {{sr.shape}} instead of {{(ns, nc)}}')
    elif not np.array_equal(sr[:, :], fresh[:, :]): bad.append('the reader object decompressed in place reads other values than a fresh reader')
print('raised', raised, bad)
if bad: reproduced(str(bad))
not_reproduced()
"""
    return None

# level text addendum (cases added after the seeded-change rounds)
LEVEL_TEXT = LEVEL_TEXT + ' Also: retry after an interrupted in-place decompression, interruptions that are not Exceptions, an earlier compressed copy whose header must survive a failed re-compression, an explicit output path, the Reader object re-opened after being decompressed in place.'
LEVEL_TEXT = LEVEL_TEXT + ' Round 6: a .ch header kept elsewhere and named explicitly (through the .cbin and the .meta path), and a compress / open / decompress / compress / open history (the mtscomp stub ties every header to the compression run that wrote it).'
