"""
C07 - Fourier time shift is an exact, composable delay (exact small-n model) and parabolic peak interpolation.
Real ibldsp.fourier.fshift with scipy.fft.rfft/irfft replaced by the exact DFT over Q(i) for n in {2, 4};
real ibldsp.utils.parabolic_max on symbolic parabolas.
"""
import math
from fractions import Fraction

import numpy as np
import scipy
import scipy.fft
import z3

from symex import arrays, core, stubs
from symex.core import SCx, SInt, SReal, all_, and_, any_, implies, ite, not_, or_
from symex.harness import Case, Twin

PROPERTY = "C07"
FUNCTIONS = ["ibldsp.fourier.fshift", "ibldsp.utils.parabolic_max", "ibldsp.waveforms.wave_shift_corrmax"]
ASSUMPTIONS = [
    "scipy.fft.rfft / irfft are replaced by the exact DFT / inverse DFT for lengths 2 and 4 (twiddles 1, -i, -1, i); np.exp(1j * theta * s) is evaluated exactly when theta*s is a multiple of pi/2 (integer shifts), "
    "both validated against the real SciPy on random data on every run; signal samples are free reals",
    "parabolic_max: x[i] = a - b (i - p)^2 with b > 0 and |p - imax| < 1/2 (symbolic a, b, p), non-linear real arithmetic",
    "wave_shift_corrmax: scipy.signal.correlate(mode='same') is replaced by the exact direct-sum cross-correlation (validated against SciPy on every run), fshift by a probe recording the requested shift; "
    "waveform = three free real samples (middle one >= 1) on a zero baseline of length n in 7..15, copy delayed by a whole number of samples that keeps it inside the window",
]
OUTSIDE = ["all other lengths, fractional shifts vs the analytic delay (FFT numerics) except the length-3 composition case", "wave_shift_corrmax on fractional delays / arbitrary waveforms and shift_waveform accuracy (cross-correlation + FFT numerics)"]
EXPLANATION = "signal samples symbolic, shifts are enumerated integers; the whole fshift body runs on exact complex pairs."
LEVEL_TEXT = ("For ALL real signals of length 2 and 4 (1-D, and 2-D along either axis), every integer shift in (-n, n), scalar and per-trace, z3 decides: fshift == circular roll, zero shift == identity, successive shifts add, per-trace shifts equal stacked 1-D calls, "
              "shape preserved, real input left untouched (dtype preservation is only checked by the replays: the symbolic arrays are dtype-less); parabolic_max returns the vertex of every sampled parabola (1-D and 2-D) and the sample itself at the two edges; wave_shift_corrmax returns exactly the applied whole-sample delay and asks fshift for its opposite (all three-sample waveforms, n in 7..15).")
LEVEL_NOTE = "Trusted: z3 (LRA/NRA), the exact small-n DFT stub, SymArray model."

_EXACT = {0: (1, 0), 1: (0, 1), 2: (-1, 0), 3: (0, -1)}
_APPROX = [False]            # set by the length-3 case: twiddles that are not fourth roots of unity are taken as the rational value of their double
_R3 = Fraction(math.sqrt(3) / 2)


def _exact_exp(z):
    """np.exp for purely imaginary arguments that are multiples of i*pi/2 (exact); anything else is outside the model"""
    Z = np.asarray(z)
    out = np.empty(Z.shape, dtype=object)
    for pos in np.ndindex(*Z.shape) if Z.shape else [()]:
        v = complex(Z[pos])
        if abs(v.real) > 1e-12:
            raise core.Unsupported("exp of a non-imaginary argument in the exact DFT model")
        q = v.imag / (math.pi / 2)
        k = round(q)
        if abs(q - k) > 1e-9:
            if not _APPROX[0]:
                raise core.Unsupported("phase is not a multiple of pi/2: fractional shifts are outside the exact model")
            # length-3 model: the twiddle as the exact rational value of its double (error ~1e-16, obligations carry a tolerance)
            out[pos] = SCx(Fraction(math.cos(v.imag)), Fraction(math.sin(v.imag)))
            continue
        re, im = _EXACT[k % 4]
        out[pos] = SCx(re, im) if im != 0 else re
    return arrays.wrap(out) if out.shape else out[()]


def _dft_lane(x):
    n = len(x)
    if n == 1:
        return [SCx.of(x[0])]
    if n == 2:
        return [SCx.of(x[0] + x[1]), SCx.of(x[0] - x[1])]
    if n == 4:
        return [SCx.of(x[0] + x[1] + x[2] + x[3]), SCx(x[0] - x[2], x[3] - x[1]), SCx.of(x[0] - x[1] + x[2] - x[3])]
    if n == 3 and _APPROX[0]:
        return [SCx.of(x[0] + x[1] + x[2]), SCx(x[0] - (x[1] + x[2]) / 2, (x[2] - x[1]) * _R3)]
    raise core.Unsupported(f"exact rfft for n={n}")


def _idft_lane(X, n):
    X = [SCx.of(v) for v in X]
    if n == 1:
        return [X[0].re]
    if n == 2:
        return [(X[0].re + X[1].re) / 2, (X[0].re - X[1].re) / 2]
    if n == 4:
        a, b, c = X[0].re, X[1], X[2].re
        return [(a + 2 * b.re + c) / 4, (a - 2 * b.im - c) / 4, (a - 2 * b.re + c) / 4, (a + 2 * b.im - c) / 4]
    if n == 3 and _APPROX[0]:
        a, b = X[0].re, X[1]
        return [(a + 2 * b.re) / 3, (a - b.re - 2 * _R3 * b.im) / 3, (a - b.re + 2 * _R3 * b.im) / 3]
    raise core.Unsupported(f"exact irfft for n={n}")


def _along(a, axis, fn, out_len):
    A = np.asarray(arrays._plain(a), dtype=object)
    axis = axis % A.ndim
    B = np.moveaxis(A, axis, -1)
    out = np.empty(B.shape[:-1] + (out_len,), dtype=object)
    for pos in np.ndindex(*B.shape[:-1]) if B.ndim > 1 else [()]:
        r = fn(B[pos].tolist())
        for i, v in enumerate(r):
            out[pos + (i,)] = v
    return arrays.wrap(np.moveaxis(out, -1, axis))


def rfft_stub(x, n=None, axis=-1, **k):
    if not arrays.has_sym(x):
        return scipy.fft.rfft(np.asarray(arrays.demote(arrays._plain(x)) if isinstance(x, np.ndarray) else x, dtype=float), n=n, axis=axis)
    nn = np.shape(x)[axis]
    return _along(x, axis, _dft_lane, nn // 2 + 1)


def irfft_stub(X, n=None, axis=-1, **k):
    if not arrays.has_sym(X):
        return scipy.fft.irfft(np.asarray(arrays._plain(X)), n=n, axis=axis)
    return _along(X, axis, lambda lane: _idft_lane(lane, n), n)


def _validate():
    rng = np.random.default_rng(0)
    _APPROX[0] = True
    try:
        x = rng.normal(size=3)
        got = np.array([complex(float(v.re), float(v.im)) for v in _dft_lane(list(x))])
        back = np.array([float(v) for v in _idft_lane(list(scipy.fft.rfft(x)), 3)])
        if not np.allclose(got, scipy.fft.rfft(x), atol=1e-13) or not np.allclose(back, x, atol=1e-13):
            raise core.Unsupported("length-3 DFT stub disagrees with SciPy")
    finally:
        _APPROX[0] = False
    for n in (2, 4):
        x = rng.normal(size=n)
        got = np.array([complex(float(v.re), float(v.im)) for v in _dft_lane(list(x))])
        if not np.allclose(got, scipy.fft.rfft(x)):
            raise core.Unsupported("exact rfft stub disagrees with SciPy")
        back = np.array([float(v) for v in _idft_lane(list(scipy.fft.rfft(x)), n)])
        if not np.allclose(back, x):
            raise core.Unsupported("exact irfft stub disagrees with SciPy")


def setup():
    import ibldsp.fourier as f
    import ibldsp.utils as u
    _validate()
    arrays.patch_module(f)
    arrays.patch_module(u)
    f.scipy = stubs.Namespace(scipy, fft=stubs.Namespace(scipy.fft, rfft=rfft_stub, irfft=irfft_stub))

    import ibldsp.waveforms as w
    arrays.patch_module(w)
    w.scipy = stubs.Namespace(scipy, signal=stubs.Namespace(scipy.signal, correlate=_correlate_same))
    w.parabolic_max = u.parabolic_max
    w.np = _NPw()        # np.fft on 1-D real signals: the spectrum algebra above (only reached by code that correlates through FFTs)
    rng = np.random.default_rng(int(__import__("os").environ.get("VERIF_SEED", "0") or 0))
    for n in range(3, 14):
        a, b = rng.normal(size=n), rng.normal(size=n)
        if not np.allclose(np.array(_correlate_same(a, b, mode="same"), dtype=float), scipy.signal.correlate(a, b, mode="same")):
            raise core.Unsupported("exact cross-correlation stub disagrees with SciPy")

    class _NPf:
        exp = staticmethod(_exact_exp)

        def __getattr__(self, n):
            return getattr(arrays.NP, n)
    f.np = _NPf()


def _sig(ctx, shape, prefix="w"):
    n = int(np.prod(shape))
    vals = [ctx.real(f"{prefix}{i}", -100, 100) for i in range(n)]
    return vals, arrays.mk(list(vals), shape=shape, tag=np.dtype(np.float32))


def _roll(vals, shape, s, axis):
    A = np.array(vals, dtype=object).reshape(shape)
    return np.roll(A, s, axis=axis)


def case_shift_1d(ctx, n):
    import ibldsp.fourier as f
    vals, w = _sig(ctx, (n,))
    before = [v for v in vals]
    for s in range(-(n - 1), n):
        out = ctx.call("fshift", f.fshift, w, s)
        if not ctx.oblige("shape_preserved", tuple(out.shape) == (n,), detail={"s": s}):
            continue
        exp = _roll(vals, (n,), s, 0)
        ctx.oblige("integer_shift_is_a_circular_roll", all_([core.eq(out[i], exp[i]) for i in range(n)]), detail={"s": s, "n": n})
        for s2 in (-1, 1, 2):
            two = ctx.call("fshift", f.fshift, out, s2)
            one = ctx.call("fshift", f.fshift, w, s + s2)
            ctx.oblige("successive_shifts_add_up", all_([core.eq(two[i], one[i]) for i in range(n)]), detail={"s": s, "s2": s2})
    ctx.oblige("real_input_left_untouched", all(w[i] is before[i] for i in range(n)))
    z = ctx.call("fshift", f.fshift, w, 0)
    ctx.oblige("zero_shift_is_identity", all_([core.eq(z[i], vals[i]) for i in range(n)]))


def case_shift_nan_input(ctx, n):
    """an input holding missing samples (NaN): whatever comes out, the caller's array must be left as it was"""
    import ibldsp.fourier as f
    vals = [ctx.real(f"w{i}", -100, 100) for i in range(n)]
    miss = [ctx.bool(f"m{i}") for i in range(n)]
    ctx.assume(core.any_(miss))
    data = [core.SReal(vals[i].t, nan=miss[i].t) for i in range(n)]
    w = arrays.mk(list(data), tag=np.dtype(np.float32))
    for s in (0, 1):
        try:
            f.fshift(w, s)
        except Exception:  # noqa  (a refusal of NaN input would be legitimate: only the caller's array matters here)
            pass
        now = np.asarray(arrays._plain(w), dtype=object).ravel().tolist()
        same = all_([and_(core.eq(arrays.s_isnan(now[i]) if isinstance(arrays.s_isnan(now[i]), core.Sym) else bool(arrays.s_isnan(now[i])), miss[i]),
                          or_(miss[i], core.eq(core.SReal(now[i].t) if isinstance(now[i], core.SReal) else now[i], vals[i]))) for i in range(n)])
        ctx.oblige("input_with_missing_samples_left_untouched", same, detail={"s": s, "n": n})


def case_shift_2d(ctx, rows, cols, axis):
    import ibldsp.fourier as f
    vals, w = _sig(ctx, (rows, cols))
    n = (rows, cols)[axis % 2]
    m = (rows, cols)[(axis + 1) % 2]
    before = list(vals)
    # scalar shifts
    for s in range(-(n - 1), n):
        out = ctx.call("fshift", f.fshift, w, s, axis=axis)
        if not ctx.oblige("shape_preserved", tuple(out.shape) == (rows, cols), detail={"s": s, "axis": axis}):
            continue
        exp = _roll(vals, (rows, cols), s, axis % 2)
        ctx.oblige("integer_shift_is_a_circular_roll", all_([core.eq(out[i, j], exp[i, j]) for i in range(rows) for j in range(cols)]), detail={"s": s, "axis": axis})
    # one shift per trace
    import itertools
    for shifts in itertools.product(range(-1, 2), repeat=m):
        sv = np.array(shifts, dtype=float)
        out = ctx.call("fshift", f.fshift, w, sv, axis=axis)
        if not ctx.oblige("shape_preserved", tuple(out.shape) == (rows, cols), detail={"shifts": shifts, "axis": axis}):
            continue
        A = np.array(vals, dtype=object).reshape(rows, cols)
        for t in range(m):
            lane = A[t, :] if axis % 2 == 1 else A[:, t]
            single = ctx.call("fshift", f.fshift, arrays.mk(lane.tolist(), tag=np.dtype(np.float32)), int(shifts[t]))
            got = out[t, :] if axis % 2 == 1 else out[:, t]
            ctx.oblige("per_trace_shift_equals_stacked_1d_calls", all_([core.eq(got[i], single[i]) for i in range(n)]), detail={"shifts": shifts, "trace": t, "axis": axis})
            ctx.oblige("per_trace_shift_is_a_roll_of_that_trace", all_([core.eq(got[i], np.roll(lane, int(shifts[t]))[i]) for i in range(n)]), detail={"shifts": shifts, "trace": t, "axis": axis})
    ctx.oblige("real_input_left_untouched", all(np.asarray(arrays._plain(w), dtype=object).ravel()[i] is before[i] for i in range(rows * cols)))


def case_shift_near_integer(ctx, k):
    """successive shifts add, also when the total is a hair away from a whole number of samples (accumulated float round-off,
    or a large delay with a small fractional part): two shifts by h = k/2 + 2^-21 equal one shift by 2h = k + 2^-20.
    Length 3 (no Nyquist bin), twiddles as the rational values of their doubles, tolerance 1e-9 for samples in [-1, 1]"""
    import ibldsp.fourier as f
    _APPROX[0] = True
    try:
        vals = [ctx.real(f"w{i}", -1, 1) for i in range(3)]
        h = k / 2 + 2.0 ** -21
        w1 = ctx.call("fshift", f.fshift, arrays.mk(list(vals), tag=np.dtype(float)), h)
        a = ctx.call("fshift", f.fshift, w1, h)
        b = ctx.call("fshift", f.fshift, arrays.mk(list(vals), tag=np.dtype(float)), 2 * h)
        if not ctx.oblige("shape_preserved", tuple(np.shape(a)) == (3,) and tuple(np.shape(b)) == (3,)):
            return
        tol = Fraction(1, 10 ** 9)
        for i in range(3):
            d = a[i] - b[i]
            ctx.oblige("successive_shifts_add_near_a_whole_number_of_samples", and_(d <= tol, d >= -tol), detail={"i": i, "h": h, "twice": a[i], "once": b[i]})
    finally:
        _APPROX[0] = False


def case_shift_per_trace_nearly_equal(ctx, k):
    """each trace receives ITS OWN shift, also when the shifts differ by a hair (k + 2^-20 and k): every trace of the 2-D call equals
    the 1-D call with that trace's shift.  Length 3, twiddles as the rational values of their doubles, tolerance 1e-9, samples in [-1, 1]"""
    import ibldsp.fourier as f
    _APPROX[0] = True
    try:
        vals = [ctx.real(f"w{i}", -1, 1) for i in range(6)]
        shifts = [k + 2.0 ** -20, float(k)]
        out = ctx.call("fshift", f.fshift, arrays.mk(list(vals), shape=(2, 3), tag=np.dtype(float)), np.array(shifts), axis=-1)
        if not ctx.oblige("shape_preserved", tuple(np.shape(out)) == (2, 3), detail={"shape": str(np.shape(out))}):
            return
        tol = Fraction(1, 10 ** 9)
        for t in range(2):
            single = ctx.call("fshift", f.fshift, arrays.mk(vals[3 * t:3 * t + 3], tag=np.dtype(float)), shifts[t])
            for i in range(3):
                d = out[t, i] - single[i]
                ctx.oblige("per_trace_shift_equals_stacked_1d_calls_for_nearly_equal_shifts", and_(d <= tol, d >= -tol), detail={"trace": t, "i": i, "shifts": shifts})
    finally:
        _APPROX[0] = False


def case_parabola_1d(ctx, n, imax):
    import ibldsp.utils as u
    a = ctx.real("a", -100, 100)
    b = ctx.real("b", Fraction(1, 10 ** 12), 100)      # any positive curvature, however flat the maximum
    p = ctx.real("p")
    interior = 0 < imax < n - 1
    if interior:
        ctx.assume(and_(p > imax - 0.5, p < imax + 0.5))
    else:
        # maximum sample on an edge: vertex at or beyond the edge
        ctx.assume(p <= 0.49 if imax == 0 else p >= n - 1 - 0.49)
        ctx.assume(and_(p > -50, p < 50 + n))
    xs = [a - b * (i - p) * (i - p) for i in range(n)]
    res = ctx.call("parabolic_max", u.parabolic_max, arrays.mk(xs, tag=np.dtype(float)))
    ipeak, maxi = res
    if interior:
        ctx.oblige("parabola_vertex_position_recovered", core.eq(ipeak, p), detail={"ipeak": ipeak})
        ctx.oblige("parabola_vertex_value_recovered", core.eq(maxi, a), detail={"maxi": maxi})
    else:
        ctx.oblige("edge_returns_the_edge_sample_index", core.eq(ipeak, imax), detail={"ipeak": ipeak})
        ctx.oblige("edge_returns_the_edge_sample_value", core.eq(maxi, xs[imax]), detail={"maxi": maxi})


def case_parabola_2d(ctx, n):
    import ibldsp.utils as u
    rows = []
    ps, as_ = [], []
    for r, imax in enumerate((1, n - 2)):
        a = ctx.real(f"a{r}", -100, 100)
        b = ctx.real(f"b{r}", Fraction(1, 10 ** 12), 100)
        p = ctx.real(f"p{r}")
        ctx.assume(and_(p > imax - 0.5, p < imax + 0.5))
        rows.append([a - b * (i - p) * (i - p) for i in range(n)])
        ps.append(p)
        as_.append(a)
    res = ctx.call("parabolic_max", u.parabolic_max, arrays.mk([e for r in rows for e in r], shape=(2, n), tag=np.dtype(float)))
    ipeak, maxi = res
    for r in range(2):
        ctx.oblige("parabola_vertex_position_recovered", core.eq(ipeak[r], ps[r]), detail={"row": r})
        ctx.oblige("parabola_vertex_value_recovered", core.eq(maxi[r], as_[r]), detail={"row": r})


def _correlate_same(a, b, mode="full", method="auto"):
    """exact model of scipy.signal.correlate(a, b, mode='same') for real 1-D inputs (direct sums), validated in setup()"""
    if mode != "same":
        raise core.Unsupported("correlate mode")
    A = list(np.asarray(arrays._plain(a), dtype=object).tolist())
    B = list(np.asarray(arrays._plain(b), dtype=object).tolist())
    na, nb = len(A), len(B)
    full = []
    for m in range(na + nb - 1):
        acc = 0
        for i in range(na):
            j = i - m + (nb - 1)
            if 0 <= j < nb:
                pa, pb = A[i], B[j]
                if (not isinstance(pa, core.Sym) and pa == 0) or (not isinstance(pb, core.Sym) and pb == 0):
                    continue
                acc = acc + pa * pb
        full.append(acc)
    start = (len(full) - na) // 2
    return arrays.mk(full[start:start + na], tag=np.dtype(float))


class _Spec:
    """half spectrum of a real 1-D signal, kept as the signal itself (length n): products of spectra are circular convolutions
    of the signals, conjugation is circular time reversal (convolution theorem - exact); irfft back to n samples returns the
    signal, irfft to another length is an unknown resampling (fresh reals)"""
    _k = [0]

    def __init__(self, t):
        self.t = list(t)

    def conj(self):
        n = len(self.t)
        return _Spec([self.t[(-k) % n] for k in range(n)])

    conjugate = conj

    def __mul__(self, o):
        if not isinstance(o, _Spec) or len(o.t) != len(self.t):
            raise core.Unsupported("spectrum product outside the model")
        n = len(self.t)
        out = []
        for m in range(n):
            acc = 0
            for i in range(n):
                pa, pb = self.t[i], o.t[(m - i) % n]
                if (not isinstance(pa, core.Sym) and pa == 0) or (not isinstance(pb, core.Sym) and pb == 0):
                    continue
                acc = acc + pa * pb
            out.append(acc)
        return _Spec(out)

    __rmul__ = __mul__


class _FFTw:
    @staticmethod
    def rfft(x, n=None, axis=-1, **k):
        a = np.asarray(arrays._plain(x), dtype=object)
        if a.ndim != 1 or n is not None:
            raise core.Unsupported("rfft outside the 1-D spectrum model")
        return _Spec(a.tolist())

    @staticmethod
    def irfft(X, n=None, axis=-1, **k):
        if not isinstance(X, _Spec):
            raise core.Unsupported("irfft outside the 1-D spectrum model")
        n0 = len(X.t)
        m = n0 // 2 + 1
        nout = 2 * (m - 1) if n is None else int(n)
        if nout == n0:
            return arrays.mk(list(X.t), tag=np.dtype(float))
        base = len(core.cur().inputs)
        return arrays.mk([core.cur().real(f"resampled{base}_{i}") for i in range(nout)], tag=np.dtype(float))

    @staticmethod
    def fftshift(x, axes=None):
        a = np.asarray(arrays._plain(x), dtype=object)
        return arrays.mk(np.roll(a, a.shape[0] // 2).tolist(), tag=np.dtype(float))


class _NPw:
    fft = _FFTw

    @staticmethod
    def conj(x):
        return x.conj() if isinstance(x, _Spec) else arrays.NP.conj(x)

    def __getattr__(self, n):
        return getattr(arrays.NP, n)


def case_corrmax(ctx, n):
    """delay estimate between a waveform (three free samples on a silent baseline) and its copy delayed by a whole
    number of samples s: the cross-correlation peaks at lag s exactly, so the estimate must be s and the re-alignment must
    ask fshift for -s"""
    import ibldsp.waveforms as w
    c = n // 2
    v = [ctx.real("v0", -10, 10), ctx.real("v1", 1, 10), ctx.real("v2", -10, 10)]
    smax = (n - 3) // 2 - (1 if n % 2 == 0 else 0)
    s = ctx.concretize(core._it(ctx.int("s", -smax, smax)))
    spike = [0.0] * n
    for k in range(3):
        spike[c - 1 + k] = v[k]
    spike2 = [0.0] * n
    for k in range(3):
        spike2[c - 1 + k + s] = v[k]
    calls = []

    def fshift_probe(x, sh, **kw):
        calls.append((x, sh))
        return x
    saved = w.fshift
    w.fshift = fshift_probe
    try:
        res = ctx.call("wave_shift_corrmax", w.wave_shift_corrmax, arrays.mk(spike, tag=np.dtype(float)), arrays.mk(spike2, tag=np.dtype(float)))
    finally:
        w.fshift = saved
    _, shift = res
    ctx.oblige("delay_estimate_is_the_applied_integer_delay", core.eq(shift, s), detail={"n": n, "s": s, "estimate": shift})
    ok = len(calls) == 1
    ctx.oblige("realignment_shifts_the_copy_back_by_the_estimate", ok and core.eq(calls[0][1], -s), detail={"n": n, "s": s, "calls": len(calls)})


def cases(tier):
    cs = [Case("shift_1d_n2", "case_shift_1d", {"n": 2}), Case("shift_1d_n4", "case_shift_1d", {"n": 4}, timeout_s=2400)]
    for (r, c, ax) in ((2, 4, 1), (4, 2, 0), (2, 4, -1), (2, 2, 0), (4, 2, -2), (4, 3, -2)) if tier == "quick" else ((2, 4, 1), (4, 2, 0), (2, 4, -1), (2, 2, 0), (4, 2, -2), (4, 3, -2), (2, 2, 1), (3, 4, 1), (4, 3, 0), (4, 4, 0), (4, 4, 1), (1, 4, 1), (4, 1, 0)):
        cs.append(Case(f"shift_2d_{r}x{c}_axis{ax}", "case_shift_2d", {"rows": r, "cols": c, "axis": ax}, timeout_s=2400))
    for n in (2, 4):
        cs.append(Case(f"shift_nan_input_n{n}", "case_shift_nan_input", {"n": n}))
    for n, imax in ((5, 1), (5, 2), (5, 3), (4, 0), (4, 3)):
        cs.append(Case(f"parabola_1d_n{n}_imax{imax}", "case_parabola_1d", {"n": n, "imax": imax}, timeout_s=1500))
    cs.append(Case("parabola_2d_n5", "case_parabola_2d", {"n": 5}, timeout_s=1500))
    for n in ((7, 8, 9, 10) if tier == "quick" else (7, 8, 9, 10, 11, 12, 13, 14, 15)):
        cs.append(Case(f"corrmax_integer_delay_n{n}", "case_corrmax", {"n": n}, timeout_s=1500))
    for k in (1, 2, -1):
        cs.append(Case(f"shift_near_integer_total_{k}", "case_shift_near_integer", {"k": k}, timeout_s=1500))
    for k in (1, -2):
        cs.append(Case(f"shift_per_trace_nearly_equal_{k}", "case_shift_per_trace_nearly_equal", {"k": k}, timeout_s=1500))
    return cs


def twins(tier):
    m = "ibldsp.fourier"
    return [
        Twin("one_sample_delay_at_index_0", m, "    np.put(dephas, 1, 1)", "    np.put(dephas, 0, 1)", ["shift_1d_n4", "shift_1d_n2"]),
        Twin("negated_shift", m, "    W *= np.exp(1j * np.angle(dephas) * s)", "    W *= np.exp(-1j * np.angle(dephas) * s)", ["shift_1d_n4"]),
        Twin("shape_on_wrong_axis", m, "        s_shape[axis] = 1\n", "        s_shape[0] = 1\n", ["shift_2d_2x4_axis1", "shift_2d_2x4_axis-1"]),
        Twin("in_place_on_input", m, "        W = scipy.fft.rfft(w, axis=axis)\n", "        W = scipy.fft.rfft(w, axis=axis)\n        w *= 1\n        w[...] = 0\n", ["shift_1d_n2"]),
        Twin("corrmax_centre_rounded", "ibldsp.waveforms", "shift_computed = (ipeak - np.floor(sig_len / 2)) * -1", "shift_computed = (ipeak - np.ceil(sig_len / 2)) * -1", ["corrmax_integer_delay_n7", "corrmax_integer_delay_n9"]),
        Twin("corrmax_resync_wrong_sign", "ibldsp.waveforms", "spike_resync = fshift(spike2, -shift_computed)", "spike_resync = fshift(spike2, shift_computed)", ["corrmax_integer_delay_n7", "corrmax_integer_delay_n8"]),
        Twin("parabola_wrong_matrix", "ibldsp.utils", "np.array([[1, -2, 1], [-1, 0, 1], [0, 2, 0]])", "np.array([[1, -2, 1], [-1, 0, 1], [0, 1, 0]])", ["parabola_1d_n5_imax2"]),
        Twin("parabola_edges_ignored", "ibldsp.utils", "    iedges = np.logical_or(imax == 0, imax == ns - 1)", "    iedges = np.logical_or(imax < 0, imax == ns - 1)", ["parabola_1d_n4_imax0"]),
    ]


def replay(case, params, cex):
    m = cex["model"]
    from fractions import Fraction
    F = lambda v: float(Fraction(str(v)))
    if case.startswith("shift_nan_input"):
        n = params["n"]
        vals = ["float('nan')" if m.get(f"m{i}") else repr(F(m[f"w{i}"])) for i in range(n)]
        return f"""
import ibldsp.fourier as f
w = np.array([{', '.join(vals)}], dtype=np.float32); keep = w.copy()
for s in (0, 1):
    try: f.fshift(w, s)
    except Exception as e: print('raised', repr(e))
    if not np.array_equal(w, keep, equal_nan=True): reproduced(f'fshift(w, {{s}}) changed the input array from {{keep.tolist()}} to {{w.tolist()}}')
not_reproduced()
"""
    if case.startswith("corrmax"):
        n = params["n"]
        return f"""
import ibldsp.waveforms as w
n, s = {n}, {int(str(m['s']))}
v = [{F(m['v0'])}, {F(m['v1'])}, {F(m['v2'])}]
c = n // 2
spike = np.zeros(n); spike[c - 1:c + 2] = v
spike2 = np.zeros(n); spike2[c - 1 + s:c + 2 + s] = v
resync, shift = w.wave_shift_corrmax(spike, spike2)
print(n, s, v, shift, np.abs(resync - spike).max())
if abs(shift - s) > 0.05: reproduced(f'delay estimate {{shift}} for a copy delayed by {{s}} samples (n={{n}})')
if np.abs(resync - spike).max() > 0.05 * np.abs(spike).max(): reproduced(f'the re-aligned copy differs from the waveform by {{np.abs(resync - spike).max()}}')
# the witness is a 3-sample waveform in a short window; the same situation (same parity of the window length, delay scaled) on a
# spike-like waveform of realistic length
n2 = 121 if n % 2 else 120
t = np.arange(n2) - n2 // 2
wv = (1 - (t / 4.0) ** 2) * np.exp(-(t / 4.0) ** 2 / 2)
for s2 in sorted({{8 * s, 12 * s, -8 * s}} - {{0}}):
    resync2, shift2 = w.wave_shift_corrmax(wv, np.roll(wv, s2))
    print(n2, s2, shift2)
    if abs(shift2 - s2) > 0.05: reproduced(f'delay estimate {{shift2}} for a spike waveform of {{n2}} samples delayed by {{s2}} samples')
not_reproduced()
"""
    if case.startswith("shift_per_trace_nearly_equal"):
        vals = [F(m.get(f"w{i}", 0)) for i in range(6)]
        return f"""
import ibldsp.fourier as f
k = {params['k']}
bad = []
# the witness (2 traces of 3 samples), and the same situation at a realistic size: 3 traces of 2048 samples, shifts 1500k, 1500k + 0.012, 1500k
for w, sh in ((np.array({vals}, dtype=float).reshape(2, 3), np.array([k + 2.0 ** -20, float(k)])),
              (np.sin(np.arange(3 * 2048).reshape(3, 2048) / 7.0) * np.hanning(2048), np.array([1500.0 * k, 1500.0 * k + 0.012, 1500.0 * k]))):
    out = f.fshift(w.copy(), sh, axis=-1)
    for t in range(w.shape[0]):
        err = np.max(np.abs(out[t] - f.fshift(w[t].copy(), float(sh[t]))))
        print(w.shape, t, err)
        if err > 1e-8: bad.append((w.shape, t, float(err)))
if bad: reproduced(f'a trace shifted inside a 2-D call differs from the 1-D call with its own shift (shape, trace, error): {{bad}}')
not_reproduced()
"""
    if case.startswith("shift_near_integer"):
        vals = [F(m.get(f"w{i}", 0)) for i in range(3)]
        return f"""
import ibldsp.fourier as f
k = {params['k']}; h = k / 2 + 2.0 ** -21
bad = []
for w in (np.array({vals}, dtype=float), np.sin(np.arange(301) / 3.0) * np.hanning(301)):        # the witness, and a smooth 301-sample signal
    a = f.fshift(f.fshift(w.copy(), h), h); b = f.fshift(w.copy(), 2 * h)
    err = np.max(np.abs(a - b))
    print(len(w), err)
    if err > 1e-8 * max(1.0, np.max(np.abs(w))): bad.append((len(w), float(err)))
if bad: reproduced(f'two shifts by {{h!r}} differ from one shift by {{2 * h!r}} by {{bad}}')
not_reproduced()
"""
    if case.startswith("shift"):
        if case.startswith("shift_1d"):
            n = params["n"]
            shape, axis = (n,), -1
        else:
            shape, axis = (params["rows"], params["cols"]), params["axis"]
        nv = int(np.prod(shape))
        vals = [F(m.get(f"w{i}", 0)) for i in range(nv)]
        return f"""
import ibldsp.fourier as f, itertools
w = np.array({vals}, dtype=np.float32).reshape({shape}); axis = {axis}
n = w.shape[axis]; bad = []
w0 = w.copy()
for s in range(-(n - 1), n):
    out = f.fshift(w, s, axis=axis)
    if out.shape != w.shape or out.dtype != w.dtype or not np.allclose(out, np.roll(w0, s, axis=axis), atol=1e-4): bad.append(('roll', s))
    if not np.allclose(f.fshift(out, 1, axis=axis), f.fshift(w, s + 1, axis=axis), atol=1e-4): bad.append(('compose', s))
if not np.array_equal(w, w0): bad.append('input modified')
if w.ndim == 2:
    m_ = w.shape[1 - (axis % 2)]
    for shifts in itertools.product(range(-1, 2), repeat=m_):
        out = f.fshift(w, np.array(shifts, dtype=float), axis=axis)
        for t in range(m_):
            lane = w0[t, :] if axis % 2 == 1 else w0[:, t]; got = out[t, :] if axis % 2 == 1 else out[:, t]
            if not np.allclose(got, np.roll(lane, shifts[t]), atol=1e-4): bad.append(('per trace', shifts, t))
            try:
                single = f.fshift(lane.copy(), int(shifts[t]))          # the same trace on its own (1-D call after the 2-D ones)
                if single.shape != lane.shape or not np.allclose(single, got, atol=1e-4): bad.append(('trace alone differs', shifts, t))
            except Exception as e:
                reproduced(f'fshift of a 1-D trace of {{lane.shape[0]}} samples after a 2-D call raised {{type(e).__name__}}: {{e}}')
print(bad[:5])
if bad: reproduced(str(bad[:5]))
not_reproduced()
"""
    if case.startswith("parabola_1d"):
        n, imax = params["n"], params["imax"]
        a, b, p = F(m["a"]), F(m["b"]), F(m["p"])
        return f"""
import ibldsp.utils as u
n, imax, a, b, p = {n}, {imax}, {a!r}, {b!r}, {p!r}
x = a - b * (np.arange(n) - p) ** 2
ipeak, maxi = u.parabolic_max(x)
print(x, ipeak, maxi)
if 0 < imax < n - 1:
    if abs(ipeak - p) > 1e-6 or abs(maxi - a) > 1e-6 * max(1, abs(a)): reproduced(f'vertex ({{p}}, {{a}}) not recovered: ({{ipeak}}, {{maxi}})')
else:
    if ipeak != np.argmax(x) or maxi != x.max(): reproduced('edge case does not return the edge sample')
not_reproduced()
"""
    if case.startswith("parabola_2d"):
        n = params["n"]
        A = [F(m["a0"]), F(m["a1"])]
        B = [F(m["b0"]), F(m["b1"])]
        P = [F(m["p0"]), F(m["p1"])]
        return f"""
import ibldsp.utils as u
n = {n}; A, B, P = {A}, {B}, {P}
x = np.array([A[r] - B[r] * (np.arange(n) - P[r]) ** 2 for r in range(2)])
ipeak, maxi = u.parabolic_max(x)
print(ipeak, maxi)
if not np.allclose(ipeak, P, atol=1e-6) or not np.allclose(maxi, A, atol=1e-6): reproduced('2-D parabolic_max does not recover the vertices')
not_reproduced()
"""
    return None

# level text addendum (round 6)
ASSUMPTIONS = ASSUMPTIONS + [
    "length-3 model (case shift_near_integer_*): DFT twiddles and phase factors are the exact rational values of their IEEE doubles (error ~1e-16); the obligation carries a tolerance of 1e-9 for samples in [-1, 1]; validated against SciPy on every run",
    "np.fft.rfft / irfft / fftshift / np.conj inside ibldsp.waveforms: a spectrum algebra on 1-D real signals (product of spectra = circular convolution, conjugate = circular time reversal, irfft to the original length = the signal, irfft to any other length = fresh unknown reals); only reached by code that correlates through FFTs",
]
LEVEL_TEXT = LEVEL_TEXT + " Round 6: two shifts by k/2 + 2^-21 equal one shift by k + 2^-20 (length 3, tolerance 1e-9) - totals a hair away from a whole number of samples; FFT-based correlation is modelled by the convolution theorem."
LEVEL_TEXT = LEVEL_TEXT + ' Round 7: per-trace shifts that differ by 2^-20 each reach their own trace (length-3 model, tolerance 1e-9).'
