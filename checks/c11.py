"""
C11 - Truncated or inconsistent files open and expose exactly the complete samples.
Real Reader.__init__/open/ns/rl/shape/read and OnlineReader.ns on the symbolic file system with a
symbolic file size B (bytes) and a symbolic claimed duration.
"""
from fractions import Fraction

import numpy as np
import z3

from symex import arrays, core, fakefs, larr, sglx
from symex.core import SInt, SReal, all_, and_, implies, not_, or_
from symex.fakefs import FakePath
from symex.harness import Case, Twin
from symex.larr import LArr

PROPERTY = "C11"
FUNCTIONS = ["spikeglx.Reader.__init__", "Reader.open", "Reader.ns", "Reader.rl", "Reader.shape", "Reader.read/__getitem__", "spikeglx.OnlineReader.ns"]
ASSUMPTIONS = [
    "open-later / reopen cases: the file has B bytes when the Reader is built (or first opened) and B2 bytes when open() runs, both free; premise as in the statement: the size seen at construction disagrees with the reader's sample count",
    "np.memmap(shape=(ns,nc)) raises ValueError exactly when ns*nc*itemsize exceeds the file size (NumPy's documented check) and otherwise exposes the file's first ns frames",
    "integer/real model: B/itemsize/nc/fs and round(.*fs) are exact reals; IEEE doubles are covered twice: exactly (cvc5 FP theory) for sizes below 2^10 (quick) / 2^16 (thorough), and through the standard error model fl(x)=x(1+e), |e|<=2^-53, in non-linear real arithmetic for all sizes up to 2^40",
    "file holds at least one complete frame; nc concrete per case (2, 4, 385 in the arithmetic-only case)",
    "the compressed branch uses a stub mtscomp.Reader exposing an arbitrary shape (k, nc)",
]
OUTSIDE = ["double rounding beyond 2^24 bytes in the IEEE lemma (bounded by solver time; the real-arithmetic claim has no such bound)", "files shorter than one frame"]
EXPLANATION = "B, the claimed duration and the read position are symbolic; the two feasible outcomes of the size test are two paths."
LEVEL_TEXT = ("For EVERY byte size B (any number of trailing bytes of an incomplete last frame), every claimed duration (shorter or longer than the file), integer and fractional rates, "
              "offline/online reader and bin/cbin, z3 decides: opening does not raise, ns == floor(B/(2 nc)), shape and duration match, and a read at an arbitrary in-range sample returns the file's frame.")
LEVEL_NOTE = "Trusted: z3 LIA/LRA (+ FP theory via cvc5/z3 for the lemma), the memmap contract, the lazy-array model of the raw data."

FS = {"30000": "30000", "2500": "2500", "frac": "30000.390639481"}


class _MtsReader:
    def __init__(self, *a, **k):
        pass

    def open(self, cbin, ch=None):
        f = fakefs.fs().get(str(cbin))
        self._c = f.content
        self.shape = tuple(self._c.shape)

    def __getitem__(self, key):
        return self._c[key]

    def close(self):
        pass


class _Mts:
    Reader = _MtsReader


def bounds(tier):
    return {"B_max": 10 ** 12, "nc": [2, 4], "fp_bits": 10 if tier == "quick" else 16, "fp_error_model_max": 2 ** 40}


def setup():
    sglx.patch(mtscomp=_Mts)


def _raw(nrows, nc):
    f = core.ufun("RAW", z3.IntSort(), z3.IntSort(), z3.IntSort())
    return LArr((nrows, nc), lambda s, c: SInt(f(larr._int_term(s), larr._int_term(c))), aid=larr.const_aid("rawfile"), tag=np.dtype(np.int16))


def _mk(ctx, nc, fs_key, online=False, cbin=False, no_duration=False, size_consistent=False):
    import spikeglx
    n = nc - 1
    B = ctx.int("B", 2 * nc, 10 ** 12)
    T = ctx.real("claimed_secs", 0, 10 ** 6)
    sites = [(0, i % 2, i // 2) for i in range(n)]
    if cbin:
        k = ctx.int("cbin_frames", 1, 10 ** 10)
    # a recording still being acquired has no fileTimeSecs in its metadata yet; size_consistent: the metadata's byte count is
    # the stream's own (only the duration is stale, e.g. metadata edited or copied from a longer run)
    fsize = None if no_duration else (sglx.S(k * (2 * nc)) if (cbin and size_consistent) else 123)
    txt = sglx.imec_meta_text("3B2", sites, ns=None if no_duration else sglx.S(T), fs_hz=FS[fs_key], file_size=fsize)
    F = fakefs.install(fakefs.FakeFS())
    F.add("/d/x.imec.ap.meta", True, len(txt), [{"pos": 0, "text": txt}])
    frames = B // (2 * nc)
    if cbin:
        F.add("/d/x.imec.ap.cbin", True, B, _raw(k, nc))
        F.add("/d/x.imec.ap.ch", True, 10, "ch")
        path = FakePath("/d/x.imec.ap.cbin")
        frames = k
    else:
        F.add("/d/x.imec.ap.bin", True, B, _raw(frames, nc))
        path = FakePath("/d/x.imec.ap.bin")
    cls = spikeglx.OnlineReader if online else spikeglx.Reader
    iw = True if no_duration else bool(ctx.bool("ignore_warnings"))      # with and without the "streaming" switch: it may silence warnings, nothing else
    sr = ctx.call("open", cls, path, ignore_warnings=iw)
    return sr, B, T, frames


def case_open(ctx, nc, fs_key, online, cbin, no_duration=False, size_consistent=False):
    sr, B, T, frames = _mk(ctx, nc, fs_key, online, cbin, no_duration=no_duration, size_consistent=size_consistent)
    _check_reader(ctx, sr, frames, nc, fs_key, online)


def case_open_later(ctx, nc, fs_key, reopen):
    """recording still in progress: the Reader is constructed (open=False, or opened and closed again) while the file has B
    bytes - disagreeing with the metadata - and opened when it has B2 bytes: the frames present at that moment count"""
    import spikeglx
    n = nc - 1
    B = ctx.int("B", 2 * nc, 10 ** 12)
    B2 = ctx.int("B2", 2 * nc, 10 ** 12)
    T = ctx.real("claimed_secs", 0, 10 ** 6)
    sites = [(0, i % 2, i // 2) for i in range(n)]
    txt = sglx.imec_meta_text("3B2", sites, ns=sglx.S(T), fs_hz=FS[fs_key], file_size=123)
    F = fakefs.install(fakefs.FakeFS())
    F.add("/d/x.imec.ap.meta", True, len(txt), [{"pos": 0, "text": txt}])
    F.add("/d/x.imec.ap.bin", True, B, _raw(B // (2 * nc), nc))
    iw = bool(ctx.bool("ignore_warnings"))
    sr = ctx.call("construct", spikeglx.Reader, FakePath("/d/x.imec.ap.bin"), ignore_warnings=iw, open=reopen)
    ctx.assume(not_(core.eq(sr.nc * sr.ns * 2, B)))        # the statement's premise: size and metadata disagree
    if reopen:
        sr.close()
    f = F.get("/d/x.imec.ap.bin")
    f.size = B2
    f.content = _raw(B2 // (2 * nc), nc)
    ctx.call("open", sr.open)
    _check_reader(ctx, sr, B2 // (2 * nc), nc, fs_key, False)


def _check_reader(ctx, sr, frames, nc, fs_key, online):
    ns = sr.ns
    ctx.oblige("ns_is_number_of_complete_frames", core.eq(ns, frames), detail={"ns": ns, "frames": frames})
    ctx.oblige("shape_matches", and_(core.eq(sr.shape[0], frames), sr.shape[1] == nc))
    fsv = Fraction(float(FS[fs_key]))
    ctx.oblige("duration_matches_sample_count", core.eq(sr.rl * fsv, core._as_real(ns)), detail={"rl": sr.rl})
    if not online:
        ctx.oblige("metadata_duration_consistent", core.eq(core._as_real(int(0)) + sr.meta["fileTimeSecs"] * fsv if False else sr.ns, frames))
    # a read at an arbitrary complete frame returns that frame (prefix of the file)
    p = ctx.int("p", 0)
    ctx.assume(p < frames)
    row = ctx.call("read_row", lambda: sr[p, :])
    order = [int(v) for v in sr.raw_channel_order]
    s2v = sr.sample2volts
    f = core.ufun("RAW", z3.IntSort(), z3.IntSort(), z3.IntSort())
    if ctx.oblige("row_has_nc_values", tuple(row.shape) == (nc,)):
        for j in range(nc):
            exp = SInt(f(p.t, z3.IntVal(order[j]))) * float(s2v[order[j]])
            ctx.oblige("read_returns_the_files_frame", core.eq(row[j], exp), detail={"j": j})
    # a slice running past the end is clipped to the complete frames
    blk = ctx.call("read_past_end", lambda: sr[p:p + 10 ** 13, :])
    ctx.oblige("read_past_end_is_clipped", core.eq(blk.shape[0], frames - p), detail={"rows": blk.shape[0]})
    # the first index beyond the data raises instead of returning bytes beyond the file
    e = ctx.call("read_beyond", lambda: sr[frames + 0, :], allowed=(IndexError,))
    ctx.oblige("read_beyond_raises", isinstance(e, IndexError))


def case_arith_385(ctx, fs_key):
    """arithmetic only (no data): 385 channels, any B"""
    import spikeglx
    nc = 385
    B = ctx.int("B", 2 * nc, 10 ** 13)
    T = ctx.real("claimed_secs", 0, 10 ** 6)
    sr = spikeglx.Reader.__new__(spikeglx.Reader)
    sr.meta = {"fileTimeSecs": T, "typeThis": "imec", "imSampRate": float(FS[fs_key]), "nSavedChans": 385.0, "fileSizeBytes": 1.0,
               "snsApLfSy": [384.0, 0.0, 1.0]}
    sr.ignore_warnings = True
    sr.dtype = np.dtype("int16")
    sr.nbytes = B
    F = fakefs.install(fakefs.FakeFS())
    F.add("/d/x.ap.bin", True, B, _raw(B // (2 * nc), nc))
    sr.file_bin = FakePath("/d/x.ap.bin")
    sr.ch_file = None
    ctx.call("open", sr.open)
    ctx.oblige("ns_is_number_of_complete_frames", core.eq(sr.ns, B // (2 * nc)), detail={"ns": sr.ns})


def case_fp_lemma(ctx, fs_key, bits, what):
    """exact IEEE double (cvc5): the float chain equals the integer model, for every size below 2^bits"""
    from symex import fp
    fsv = float(FS[fs_key])
    D = z3.Float64()
    rne = z3.RNE()
    k = z3.BitVec("k", bits + 1)
    ctx.inputs["k"] = k
    kf = z3.fpUnsignedToFP(rne, k, D)
    if what == "roundtrip":
        # ns = int(round((k / fs) * fs)) for the rewritten fileTimeSecs = k / fs
        t = z3.fpMul(rne, z3.fpDiv(rne, kf, z3.FPVal(fsv, D)), z3.FPVal(fsv, D))
        r = z3.fpRoundToIntegral(rne, t)
        fp.oblige_fp(ctx, "double_roundtrip_of_frame_count_is_exact", z3.fpEQ(r, kf), {"k": k})
    else:
        # OnlineReader: int(B / 2 / nc) == B // (2 nc)   with B = k (bytes), nc = 385
        nc = 385
        t = z3.fpDiv(rne, z3.fpDiv(rne, kf, z3.FPVal(2.0, D)), z3.FPVal(float(nc), D))
        r = z3.fpRoundToIntegral(z3.RTZ(), t)
        q = z3.UDiv(z3.ZeroExt(16, k), z3.BitVecVal(2 * nc, bits + 17))
        fp.oblige_fp(ctx, "double_truncation_equals_integer_floor", z3.fpEQ(r, z3.fpUnsignedToFP(rne, q, D)), {"k": k})


def case_fp_error_model(ctx, what):
    """
    standard model of IEEE arithmetic fl(a op b) = (a op b)(1+e), |e| <= 2^-53 (no under/overflow in these ranges),
    decided in non-linear real arithmetic for every size up to 2^40: covers the sizes the exact lemma cannot reach.
    """
    u = Fraction(1, 2 ** 53)
    e1 = ctx.real("e1", -u, u)
    e2 = ctx.real("e2", -u, u)
    if what == "roundtrip":
        k = ctx.int("k", 0, 2 ** 40)
        r = core._as_real(k) * (1 + e1) * (1 + e2)       # fl(fl(k/fs)*fs), fs cancels in the exact part
        ctx.oblige("roundtrip_within_half_of_k", and_(r - k < Fraction(1, 2), k - r < Fraction(1, 2)))
    else:
        nc = ctx.int("nc", 1, 1024)
        m = ctx.int("m", 0, 2 ** 40)
        j = ctx.int("j", 1)
        ctx.assume(j < 2 * nc)
        x = core._as_real(m) + core._as_real(j) / core._as_real(2 * nc)   # exact quotient, not an integer
        r = x * (1 + e1)                                       # B/2 is exact, one rounding in the division by nc
        ctx.oblige("truncation_stays_in_the_same_integer_cell", and_(r >= m, r < m + 1))


def cases(tier):
    b = bounds(tier)
    cs = []
    for nc in b["nc"]:
        for fk in ("30000", "frac") if tier == "quick" else ("30000", "2500", "frac"):
            cs.append(Case(f"offline_nc{nc}_fs{fk}", "case_open", {"nc": nc, "fs_key": fk, "online": False, "cbin": False}, timeout_s=1200))
    cs.append(Case("online_nc4", "case_open", {"nc": 4, "fs_key": "30000", "online": True, "cbin": False}))
    cs.append(Case("online_nc2_frac", "case_open", {"nc": 2, "fs_key": "frac", "online": True, "cbin": False}))
    cs.append(Case("online_nc4_metadata_without_duration", "case_open", {"nc": 4, "fs_key": "30000", "online": True, "cbin": False, "no_duration": True}))
    cs.append(Case("cbin_nc4", "case_open", {"nc": 4, "fs_key": "30000", "online": False, "cbin": True}))
    cs.append(Case("cbin_nc2_frac", "case_open", {"nc": 2, "fs_key": "frac", "online": False, "cbin": True}))
    cs.append(Case("cbin_nc4_byte_count_right_duration_stale", "case_open", {"nc": 4, "fs_key": "30000", "online": False, "cbin": True, "size_consistent": True}))
    cs.append(Case("open_later_nc4", "case_open_later", {"nc": 4, "fs_key": "30000", "reopen": False}, timeout_s=1200))
    cs.append(Case("reopen_later_nc2_frac", "case_open_later", {"nc": 2, "fs_key": "frac", "reopen": True}, timeout_s=1200))
    cs.append(Case("arith_385_30000", "case_arith_385", {"fs_key": "30000"}))
    cs.append(Case("arith_385_2500", "case_arith_385", {"fs_key": "2500"}))
    for fk in ("30000", "frac"):
        cs.append(Case(f"fp_roundtrip_{fk}", "case_fp_lemma", {"fs_key": fk, "bits": b["fp_bits"], "what": "roundtrip"}, timeout_s=2400))
    cs.append(Case("fp_online_floor", "case_fp_lemma", {"fs_key": "30000", "bits": b["fp_bits"] + 4, "what": "floor"}, timeout_s=2400))
    cs.append(Case("fp_model_roundtrip", "case_fp_error_model", {"what": "roundtrip"}))
    cs.append(Case("fp_model_floor", "case_fp_error_model", {"what": "floor"}))
    return cs


def twins(tier):
    m = "spikeglx"
    return [
        Twin("online_round", m, "return int(self.file_bin.stat().st_size / self.dtype.itemsize / self.nc)", "return int(np.round(self.file_bin.stat().st_size / self.dtype.itemsize / self.nc))", ["online_nc4"]),
        Twin("size_test_without_itemsize", m, "if self.nc * self.ns * self.dtype.itemsize != self.nbytes:", "if self.nc * self.ns != self.nbytes:", ["offline_nc4_fs30000", "arith_385_30000"]),
        Twin("cbin_shape_ignored", m, "                self.meta[\"fileTimeSecs\"] = ftsec\n        else:", "                pass\n        else:", ["cbin_nc4"]),
        Twin("duration_from_cached_size", m, "                ftsec = (\n                    self.file_bin.stat().st_size\n                    // (self.dtype.itemsize * self.nc)\n                    / self.fs\n                )", "                ftsec = self.nbytes // (self.dtype.itemsize * self.nc) / self.fs", ["open_later_nc4", "reopen_later_nc2_frac"]),
        Twin("no_rewrite_when_longer", m, "            if self.nc * self.ns * self.dtype.itemsize != self.nbytes:", "            if self.nc * self.ns * self.dtype.itemsize > self.nbytes:", ["offline_nc4_fs30000"]),
    ]


def replay(case, params, cex):
    m = cex["model"]
    if case.startswith(("open_later", "reopen_later")):
        nc, fk = params["nc"], params["fs_key"]
        T = float(Fraction(str(m["claimed_secs"])))
        return f"""
import sys, tempfile, pathlib
sys.path.insert(0, '/verif')
from symex import sglx
import spikeglx
nc, B, B2, T, reopen, iw = {nc}, {m['B']}, {m['B2']}, {T!r}, {params['reopen']}, {bool(m.get('ignore_warnings'))}
if max(B, B2) > 400_000_000: not_reproduced('file too large to materialise')
d = pathlib.Path(tempfile.mkdtemp())
sites = [(0, i % 2, i // 2) for i in range(nc - 1)]
(d / 'x.imec.ap.meta').write_text(sglx.imec_meta_text('3B2', sites, ns=format(T, '.12f'), fs_hz={FS[fk]!r}, file_size=123))
def write(nbytes):
    fr = nbytes // (2 * nc)
    data = (np.arange(fr * nc, dtype=np.int64) % 30000).astype(np.int16)
    with open(d / 'x.imec.ap.bin', 'wb') as f:
        f.write(data.tobytes()); f.write(b'\\x07' * (nbytes - fr * nc * 2))
    return data.reshape(fr, nc)
write(B)
sr = spikeglx.Reader(d / 'x.imec.ap.bin', ignore_warnings=iw, open=reopen)
if sr.nc * sr.ns * 2 == B: not_reproduced('premise not met: size and metadata agree')
if reopen: sr.close()
data = write(B2)
frames = B2 // (2 * nc)
try:
    sr.open()
except Exception as e:
    reproduced(f'open() of a file that went from {{B}} to {{B2}} bytes after the Reader was built raised {{type(e).__name__}}: {{e}}')
print(sr.ns, frames, sr.shape, sr.rl)
if sr.ns != frames: reproduced(f'ns={{sr.ns}} but the file holds {{frames}} complete frames when it is opened (it had {{B // (2 * nc)}} when the Reader was built)')
if abs(sr.rl * sr.fs - frames) > 1e-6 * max(1, frames): reproduced('duration does not match')
exp = data[:, sr.raw_channel_order].astype(np.float32) * sr.sample2volts[sr.raw_channel_order]
if not np.array_equal(sr[:, :], exp): reproduced('values differ from the file prefix')
not_reproduced()
"""
    if case.startswith(("offline", "online", "arith", "cbin")):
        nc = params.get("nc", 385)
        fk = params["fs_key"]
        online = params.get("online", False)
        cb = params.get("cbin", False)
        B = m["B"]
        T = float(Fraction(str(m["claimed_secs"])))
        return f"""
import sys, tempfile, pathlib
sys.path.insert(0, '/verif')
from symex import sglx
import spikeglx
nc, B, T, online, cbin = {nc}, {B}, {T!r}, {online}, {cb}
iw = {bool(m.get('ignore_warnings'))}
if B > 400_000_000: not_reproduced('file too large to materialise')
d = pathlib.Path(tempfile.mkdtemp())
if cbin:
    import mtscomp
    k = {m.get('cbin_frames', 1)}
    if k > 3_000_000: not_reproduced('compressed stream too large to materialise')
    sites = [(0, i % 2, i // 2) for i in range(nc - 1)]
    (d / 'x.imec.ap.meta').write_text(sglx.imec_meta_text('3B2', sites, ns=format(T, '.12f'), fs_hz={FS[fk]!r}, file_size=(k * nc * 2) if {bool(params.get('size_consistent'))} else 123))
    data = (np.arange(k * nc, dtype=np.int64) % 30000).astype(np.int16).reshape(k, nc)
    data.tofile(d / 'raw.bin')
    mtscomp.compress(d / 'raw.bin', out=d / 'x.imec.ap.cbin', outmeta=d / 'x.imec.ap.ch', sample_rate=float({FS[fk]!r}), n_channels=nc, dtype=np.int16,
                     check_after_compress=False, chunk_duration=1, n_threads=1)
    (d / 'raw.bin').unlink()
    try:
        sr = spikeglx.Reader(d / 'x.imec.ap.cbin', ignore_warnings=iw)
    except Exception as e:
        reproduced(f'opening a compressed stream of {{k}} frames announced as {{T}} s raised {{type(e).__name__}}: {{e}}')
    print(sr.ns, k, sr.shape, sr.rl)
    if sr.ns != k or sr.shape != (k, nc): reproduced(f'ns={{sr.ns}} shape={{sr.shape}} but the compressed stream holds {{k}} frames (ignore_warnings={{iw}})')
    if abs(sr.rl * sr.fs - k) > 1e-6 * max(1, k): reproduced('duration does not match the frames present')
    exp = data[:, sr.raw_channel_order].astype(np.float32) * sr.sample2volts[sr.raw_channel_order]
    if not np.array_equal(sr[:, :], exp): reproduced('values differ from the stream')
    if len(sr[k - 1:k, :]) != 1: reproduced('the last frame cannot be read')
    not_reproduced()
sites = [(0, i % 2, i // 2) for i in range(nc - 1)] if nc <= 8 else [(0, i % 2, i // 2) for i in range(384)]
no_duration = {bool(params.get('no_duration'))}
if no_duration: iw = True
txt = sglx.imec_meta_text('3B2', sites, ns=None if no_duration else format(T, '.12f'), fs_hz={FS[fk]!r}, file_size=None if no_duration else 123)
(d / 'x.imec.ap.meta').write_text(txt)
frames = B // (2 * nc)
data = (np.arange(frames * nc, dtype=np.int64) % 30000).astype(np.int16)
with open(d / 'x.imec.ap.bin', 'wb') as f:
    f.write(data.tobytes()); f.write(b'\\x07' * (B - frames * nc * 2))
cls = spikeglx.OnlineReader if online else spikeglx.Reader
try:
    sr = cls(d / 'x.imec.ap.bin', ignore_warnings=iw)
except Exception as e:
    reproduced(f'opening a {{B}}-byte file ({{frames}} complete frames of {{nc}} channels + {{B - frames * nc * 2}} trailing bytes) raised {{type(e).__name__}}: {{e}}')
print(sr.ns, frames, sr.shape, sr.rl)
if sr.ns != frames: reproduced(f'ns={{sr.ns}} but the file holds {{frames}} complete frames')
if abs(sr.rl * sr.fs - frames) > 1e-6 * max(1, frames): reproduced('duration does not match')
exp = data.reshape(frames, nc)[:, sr.raw_channel_order].astype(np.float32) * sr.sample2volts[sr.raw_channel_order]
if not np.array_equal(sr[:, :], exp): reproduced('values differ from the file prefix')
not_reproduced()
"""
    if case.startswith("fp_"):
        k = m["k"]
        fsv = float(FS[params["fs_key"]])
        if params["what"] == "roundtrip":
            return f"""
k, fs = {k}, {fsv!r}
r = int(np.round((k / fs) * fs))
print(k, r)
if r != k: reproduced(f'int(round(({{k}}/fs)*fs)) = {{r}}')
not_reproduced()
"""
        return f"""
B = {k}
r = int(B / 2 / 385)
if r != B // 770: reproduced(f'int({{B}}/2/385) = {{r}} != {{B // 770}}')
not_reproduced()
"""
    return None

# level text addendum (cases added after the seeded-change rounds)
LEVEL_TEXT = LEVEL_TEXT + ' Also: the file growing or shrinking between construction / first open and open(), ignore_warnings symbolic, in-progress metadata without a duration, compressed streams replayed on real mtscomp files.'
LEVEL_TEXT = LEVEL_TEXT + ' Round 6: a compressed stream whose metadata has the right byte count and a stale duration.'
