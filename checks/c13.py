"""
C13 - Extracted waveforms equal the source data; each unit gets the right number of distinct valid spikes;
chunk-local offsets put every waveform in its own row.
"""
import numpy as np
import z3

from symex import arrays, core, fakefs, larr, np2env, pdfacade, sglx, stubs
from symex.core import SInt, SReal, all_, and_, any_, implies, ite, not_, or_
from symex.fakefs import FakePath
from symex.harness import Case, Twin
from symex.larr import LArr
from symex.pdfacade import FakeDF

PROPERTY = "C13"
FUNCTIONS = ["ibldsp.waveform_extraction.extract_wfs_cbin (table / traces / channel map / templates)", "ibldsp.waveform_extraction.aggregate_by_clusters", "ibldsp.waveform_extraction.extract_wfs_array", "ibldsp.waveform_extraction._make_wfs_table", "ibldsp.waveform_extraction.write_wfs_chunk", "ibldsp.utils.make_channel_index"]
ASSUMPTIONS = [
    "pandas is replaced by a thin dict-of-columns stand-in (symex/pdfacade.py) implementing the operations the three functions use",
    "rng.choice(a, m, replace=False) returns ARBITRARY m distinct members of a (every choice is explored by forking)",
    "spike times sorted ascending (the documented input of the extractor); recording and waveform sizes are small concrete numbers per case, spike times / clusters / peak channels symbolic",
    "extract_wfs_cbin: open_memmap / np.save / np.savez / DataFrame.to_parquet record their argument on the fake file system; joblib.Parallel runs the chunks one after the other; the neighbourhood radius is set to 35 um so that a 3-site excerpt has NaN padding; recording length symbolic in (chunk, 3*chunk], 2 (quick) or 3 (thorough) spikes with free times, units in {0,1} and peak channels",
    "write_wfs_chunk: the reader is the real spikeglx.Reader on a lazy raw array RAW(sample, channel), no preprocessing step selected; floats as reals",
]
OUTSIDE = ["the byte formats of parquet / npz / npy and WaveformsLoader (pandas/pyarrow I/O)", "real joblib scheduling", "the preprocessing filters (C05/C07)", "more than 3 spikes / 2 units in the whole-function case", "a spike list without any spike inside the margins (extract_wfs_cbin then stops with an IndexError on the empty table: observed, not claimed)"]
EXPLANATION = "peak channels and unit membership fork the path; cut-outs are ITE gathers over symbolic sample indices."
LEVEL_TEXT = ("For every spike position and peak channel (cut-out), every assignment of spikes to units and every random choice (selection), and every spike/chunk-size relation (chunk writer), z3 decides: each waveform equals the source traces on "
              "the ascending neighbourhood of its peak channel over [sample-offset, sample-offset+length) with NaN on the padding; each unit gets min(max_wf, #valid spikes) distinct valid spikes with a cluster-contiguous bijective row index; "
              "a chunk writes each waveform to its own row with content independent of the chunk size; for the whole extract_wfs_cbin: table row r, trace r and channel-map row r describe the same spike (waveform_index == r, sorted by cluster, index within cluster from 0), every trace cell is written, and template i is the NaN-aware median of the traces of the i-th cluster present.")
LEVEL_NOTE = "Trusted: z3, SymArray / lazy array models, the pandas stand-in, the arbitrary-choice model of the random generator."


def bounds(tier):
    return {"nspikes": 4 if tier == "quick" else 5, "max_wf": [1, 2] if tier == "quick" else [1, 2, 3]}


class _Rng:
    def choice(self, a, size=None, replace=True, **k):
        a = np.asarray(a)
        n = a.shape[0]
        m = int(size)
        if replace:
            raise core.Unsupported("rng.choice with replacement")
        if m > n:
            raise ValueError("Cannot take a larger sample than population when 'replace=False'")
        ctx = core.cur()
        picks = []
        for j in range(m):
            k_ = SInt(ctx.fresh_int("pick"))
            ctx.assume(and_(k_ >= 0, k_ < n))
            for p in picks:
                ctx.assume(not_(core.eq(k_, p)))
            picks.append(int(k_))
        return a[picks]


class _Random:
    @staticmethod
    def default_rng(seed=None):
        return _Rng()


def setup():
    import ibldsp.waveform_extraction as we
    import ibldsp.utils as u
    np2env.patch()
    larr.patch_module(we, pd=pdfacade.PD)

    class _NPwe:
        random = _Random

        @staticmethod
        def argsort(a, axis=-1, kind=None, order=None, stable=None):
            """np.argsort: only kind='stable' / 'mergesort' (or stable=True) promises to keep equal keys in their original order;
            otherwise equal keys may come out in ANY order (NumPy's default sort happens to be stable below 17 elements only)"""
            base = np.asarray(arrays.sym_argsort(a) if arrays.has_sym(np.asarray(arrays._plain(a), dtype=object)) else np.argsort(np.asarray(a), kind="stable"), dtype=int)
            if kind in ("stable", "mergesort") or stable:
                return base
            A = np.asarray(arrays._plain(a), dtype=object)
            keys = [A[i] for i in base.tolist()]
            ctx = core.cur()
            out, i = [], 0
            while i < len(base):
                j = i + 1
                while j < len(base) and bool(core.eq(keys[j], keys[i])):
                    j += 1
                run = base[i:j].tolist()
                if len(run) > 1:
                    if len(run) > 3:
                        raise core.Unsupported("argsort with more than three equal keys in the unstable-order model")
                    picks = []
                    for _ in run:
                        k_ = SInt(ctx.fresh_int("tie"))
                        ctx.assume(and_(k_ >= 0, k_ < len(run)))
                        for q in picks:
                            ctx.assume(not_(core.eq(k_, q)))
                        picks.append(int(k_))
                    run = [run[q] for q in picks]
                out.extend(run)
                i = j
            return np.array(out, dtype=np.int64)

        @staticmethod
        def save(file, arr, **k):
            F = fakefs.fs()
            f = F.files.setdefault(str(file), fakefs.File(False))
            F.mutate("np.save", str(file))
            f.exists, f.size, f.content = True, 128, {"npy": arr}

        @staticmethod
        def savez(file, *a, **named):
            F = fakefs.fs()
            f = F.files.setdefault(str(file), fakefs.File(False))
            F.mutate("np.savez", str(file))
            f.exists, f.size, f.content = True, 128, {"npz": dict(named)}

        def __getattr__(self, n):
            return getattr(larr.NPL, n)
    we.np = _NPwe()
    we.open_memmap = _open_memmap
    we.Parallel = _Par
    we.delayed = lambda fn: (lambda *a, **k: (fn, a, k))
    we.cpu_count = lambda: 2


# ------------------------------------------------------------------------------------------ cut-out
GEOMS = {
    "np1_6": (np.array([[43.0, 20], [11, 20], [59, 40], [27, 40], [43, 60], [11, 60]]), 45.0),
    "np2_6": (np.array([[27.0, 20], [59, 20], [27, 35], [59, 35], [27, 50], [59, 50]]), 20.0),
    "col_5": (np.array([[0.0, 0], [0, 20], [0, 40], [0, 60], [0, 80]]), 20.0),   # radius equal to the pitch: "within" is inclusive
}


def _symtable(t):
    """the neighbour table as an array that accepts symbolic row indices (a plain ndarray does not)"""
    return arrays.wrap(np.asarray(t)) if type(t) is np.ndarray else t


def case_cutout(ctx, geom, ns, length, offset, nwf, add_nan, int_traces=False):
    import ibldsp.waveform_extraction as we
    import ibldsp.utils as u
    xy, radius = GEOMS[geom]
    nc = xy.shape[0]
    nbr = _symtable(u.make_channel_index(xy, radius=radius))
    # neighbour table: ascending, within the radius, padded with nc
    for c in range(nc):
        want = [j for j in range(nc) if np.hypot(*(xy[j] - xy[c])) <= radius]
        row = [int(v) for v in nbr[c]]
        ctx.oblige("neighbours_are_the_sites_within_radius_ascending_then_padding", row == want + [nc] * (nbr.shape[1] - len(want)), detail={"channel": c, "row": row, "want": want})
    # an explicit pad value only changes the pads
    for pv in (-1, nc + 7):
        t = ctx.call("make_channel_index_pad", u.make_channel_index, xy, radius=radius, pad_val=pv)
        exp = np.where(np.asarray(nbr.view(np.ndarray) if isinstance(nbr, np.ndarray) else nbr, dtype=int) == nc, pv, np.asarray(nbr.view(np.ndarray) if isinstance(nbr, np.ndarray) else nbr, dtype=int))
        ctx.oblige("explicit_pad_value_only_replaces_the_pads", np.shape(t) == np.shape(exp) and bool(np.array_equal(np.asarray(t, dtype=int), exp)), detail={"pad_val": pv, "got": np.asarray(t).tolist()})
    # the table does not depend on how the coordinates are stored (float64 / float32 / integer micrometres of a full probe)
    import neuropixel
    h = neuropixel.trace_header(version=1)
    full = np.c_[h["x"], h["y"]].astype(np.float64)
    ref = u.make_channel_index(full, radius=200.0)
    for dt in (np.float32, np.int64, np.int32, np.int16, np.uint16):
        other = ctx.call("make_channel_index_" + np.dtype(dt).name, u.make_channel_index, full.astype(dt), radius=200.0)
        ctx.oblige("neighbour_table_does_not_depend_on_the_coordinate_dtype", np.shape(other) == np.shape(ref) and bool(np.array_equal(np.asarray(other), ref)),
                   detail={"dtype": np.dtype(dt).name, "shape": str(np.shape(other)), "expected_shape": str(np.shape(ref))})
    vals = [[ctx.real(f"a{c}_{t}") if not int_traces else ctx.int(f"a{c}_{t}", -32768, 32767) for t in range(ns)] for c in range(nc)]
    flat = [e for r in vals for e in r]
    if add_nan:
        # raw int16 counts (int_traces) or calibrated float32 volts: the NaN row is added by the function either way
        arr = arrays.mk(flat, shape=(nc, ns), tag=np.dtype(np.int16 if int_traces else np.float32))
    else:
        arr = arrays.mk(flat + [float("nan")] * ns, shape=(nc + 1, ns), tag=np.dtype(np.float32))
    samples = [ctx.int(f"s{i}", offset, ns) for i in range(nwf)]
    for i in range(nwf - 1):
        ctx.assume(samples[i] <= samples[i + 1])
    peaks = [ctx.int(f"p{i}", 0, nc - 1) for i in range(nwf)]
    # precondition of the extractor (documented, asserted by the code on the last spike): the window fits in the recording
    for s in samples:
        ctx.assume(s + (length - offset) < ns)
    df = FakeDF({"sample": arrays.mk(list(samples), tag=np.dtype(np.int64)), "peak_channel": arrays.mk(list(peaks), tag=np.dtype(np.int64))})
    res = ctx.call("extract_wfs_array", we.extract_wfs_array, arr, df, nbr, trough_offset=offset, spike_length_samples=length, add_nan_trace=add_nan)
    wfs, cind, off = res
    nn = nbr.shape[1]
    if not ctx.oblige("waveform_stack_shape", tuple(wfs.shape) == (nwf, nn, length), detail={"shape": str(wfs.shape)}):
        return
    for i in range(nwf):
        pk = int(peaks[i])
        ctx.oblige("returned_channel_map_is_the_peaks_neighbourhood", [int(v) for v in cind[i]] == [int(v) for v in nbr[pk]], detail={"i": i})
        for k in range(nn):
            ch = int(nbr[pk, k])
            for t in range(length):
                got = wfs[i, k, t]
                if ch == nc:
                    ctx.oblige("padding_channels_are_nan", arrays.s_isnan(got), detail={"i": i, "k": k})
                else:
                    idx = samples[i] - offset + t
                    exp = vals[ch][ns - 1]
                    for tt in range(ns - 2, -1, -1):
                        exp = ite(core.eq(idx, tt), vals[ch][tt], exp)
                    ctx.oblige("waveform_sample_equals_source_trace", core.eq(got, exp), detail={"i": i, "k": k, "t": t, "channel": ch})


# ------------------------------------------------------------------------------------------ selection
class _SR:
    def __init__(self, ns):
        self.ns = ns


class _UInt64(arrays.SymArray):
    """spike times held as uint64 (as Kilosort writes them): + and - with Python ints wrap modulo 2^64, as in NumPy"""

    @property
    def dtype(self):
        return np.dtype(np.uint64)

    def __array_ufunc__(self, ufunc, method, *inputs, **kwargs):
        ins = [i.view(arrays.SymArray) if isinstance(i, _UInt64) else i for i in inputs]
        res = arrays.array_ufunc(ufunc, method, ins, kwargs)
        if ufunc in (np.add, np.subtract) and method == "__call__" and isinstance(res, np.ndarray) and all(isinstance(i, (int, np.integer, _UInt64, arrays.SymArray)) for i in inputs):
            M = 2 ** 64
            out = np.empty(res.shape, dtype=object)
            for pos in np.ndindex(*res.shape):
                e = np.asarray(arrays._plain(res), dtype=object)[pos]
                out[pos] = ite(e < 0, e + M, ite(e >= M, e - M, e)) if isinstance(e, core.Sym) else int(e) % M
            return out.view(_UInt64)
        return res


def case_selection(ctx, n, max_wf, offset, length, nunits=2, unsigned=False):
    import ibldsp.waveform_extraction as we
    ns = ctx.int("ns", length + 2, 10 ** 6)
    samples = [ctx.int(f"s{i}", 0, 10 ** 6) for i in range(n)]
    for i in range(n - 1):
        ctx.assume(samples[i] <= samples[i + 1])
    clusters = [ctx.int(f"u{i}", 0, nunits - 1) for i in range(n)]
    chans = [ctx.int(f"c{i}", 0, 383) for i in range(n)]
    smp_arr = arrays.mk(list(samples), tag=np.dtype(np.int64))
    if unsigned:
        smp_arr = arrays.mk(list(samples), tag=np.dtype(np.uint64)).view(_UInt64)
    res = ctx.call("make_wfs_table", we._make_wfs_table, _SR(ns), smp_arr, arrays.mk(list(clusters), tag=np.dtype(np.int64)),
                   arrays.mk(list(chans), tag=np.dtype(np.int64)), max_wf=max_wf, trough_offset=offset, spike_length_samples=length, seed=None)
    wf, unit_ids = res
    cl = [int(ctx.concretize(core._it(c))) if isinstance(c, core.Sym) else int(c) for c in clusters]
    valid = [bool(and_(samples[i] > offset, samples[i] < ns - (length - offset))) for i in range(n)]
    units = sorted(set(cl))
    ctx.oblige("unit_ids_are_the_clusters_present", [int(v) for v in unit_ids] == units, detail={"unit_ids": str(unit_ids)})
    rows = len(wf)
    S = wf["sample"].to_numpy()
    C = wf["cluster"].to_numpy()
    P = wf["peak_channel"].to_numpy()
    W = wf["waveform_index"].to_numpy()
    expected_total = sum(min(max_wf, sum(1 for i in range(n) if cl[i] == u and valid[i])) for u in units)
    ctx.oblige("total_rows_is_sum_of_min_maxwf_valid", rows == expected_total, detail={"rows": rows, "expected": expected_total, "clusters": cl, "valid": valid})
    for u in units:
        want = min(max_wf, sum(1 for i in range(n) if cl[i] == u and valid[i]))
        got_rows = [r for r in range(rows) if bool(core.eq(C[r], u))]
        ctx.oblige("each_unit_gets_min_maxwf_of_its_valid_spikes", len(got_rows) == want, detail={"unit": u, "got": len(got_rows), "want": want, "clusters": cl, "valid": valid})
    # every row is one of the unit's valid spikes, and rows are distinct spikes
    used = []
    for r in range(rows):
        cands = [i for i in range(n) if valid[i] and bool(core.eq(C[r], cl[i])) and bool(core.eq(S[r], samples[i])) and bool(core.eq(P[r], chans[i]))]
        ctx.oblige("every_row_is_a_valid_spike_of_its_unit", len(cands) > 0, detail={"row": r})
    wl = [int(ctx.concretize(core._it(w))) if isinstance(w, core.Sym) else int(w) for w in W]
    ctx.oblige("waveform_index_is_a_bijection", sorted(wl) == list(range(rows)), detail={"waveform_index": wl})
    cr = [int(ctx.concretize(core._it(c))) if isinstance(c, core.Sym) else int(c) for c in C]
    order = [cr[wl.index(k)] for k in range(rows)] if sorted(wl) == list(range(rows)) else []
    ctx.oblige("waveform_index_groups_clusters_contiguously", order == sorted(order), detail={"clusters_in_index_order": order})
    # distinct spikes: the table rows are in spike-time order and select distinct spike indices; check through (sample, cluster, channel) multiset count
    for i in range(n):
        if not valid[i]:
            continue
    # no more rows than valid spikes per (unit) already checked; distinctness: rows sorted by spike index => strictly increasing picks
    ctx.oblige("rows_are_in_time_order", all(bool(S[r] <= S[r + 1]) for r in range(rows - 1)))


# ------------------------------------------------------------------------------------------ chunk writer
class _Mmap:
    def __init__(self):
        self.writes = []

    def __setitem__(self, key, value):
        self.writes.append((key, value))


def case_chunk(ctx, i_chunk, length, offset):
    import ibldsp.waveform_extraction as we
    import spikeglx
    nsites = 3
    nc = nsites + 1
    ns = ctx.int("ns", 200, 10 ** 7)
    chunk = ctx.int("chunksize", length + 1, 10 ** 6)
    T = core._as_real(ns) / 30000
    sites = [(0, i % 2, i // 2) for i in range(nsites)]
    txt = sglx.imec_meta_text("3B2", sites, gains=[(500, 250)] * nsites, ns=sglx.S(T), fs_hz="30000", file_size=sglx.S(ns * nc * 2))
    F = fakefs.install(fakefs.FakeFS())
    F.add("/d/x.imec0.ap.meta", True, len(txt), [{"pos": 0, "text": txt}])
    F.add("/d/x.imec0.ap.bin", True, ns * nc * 2, np2env.raw_array(ns, nc))
    s0 = i_chunk * chunk
    s1 = ite(s0 + chunk < ns, s0 + chunk, ns)
    ctx.assume(s0 < ns)
    # one valid spike inside this chunk
    smp = ctx.int("sample", 0)
    ctx.assume(and_(smp >= s0, smp < s1))
    ctx.assume(and_(smp > offset, smp < ns - (length - offset)))
    pk = ctx.int("peak", 0, nsites - 1)
    widx = ctx.int("waveform_index", 0, 50)
    wf_flat = FakeDF({"sample": arrays.mk([smp], tag=np.dtype(np.int64)), "peak_channel": arrays.mk([pk], tag=np.dtype(np.int64)), "waveform_index": arrays.mk([widx], tag=np.dtype(np.int64))})
    xy = np.array([[43.0, 20], [11, 20], [59, 40]])
    import ibldsp.utils as u
    nbr = _symtable(u.make_channel_index(xy, radius=45.0))
    mm = _Mmap()
    sr0 = spikeglx.Reader(FakePath("/d/x.imec0.ap.bin"))
    geom = {k: v for k, v in sr0.geometry.items()}
    ctx.call("write_wfs_chunk", we.write_wfs_chunk, i_chunk, FakePath("/d/x.imec0.ap.bin"), mm, geom, np.zeros(nsites), nbr, wf_flat, (s0, s1), chunk, offset, length, {}, [])
    if not ctx.oblige("one_write_into_the_memmap", len(mm.writes) == 1):
        return
    key, val = mm.writes[0]
    iw = key[0]
    ctx.oblige("written_at_its_waveform_index", len(iw) == 1 and bool(core.eq(iw[0], widx)), detail={"iw": str(iw)})
    pkv = int(pk)
    order = [int(v) for v in sr0.raw_channel_order]
    s2v = sr0.sample2volts
    nn = nbr.shape[1]
    if not ctx.oblige("chunk_waveform_shape", tuple(np.shape(val)) == (1, nn, length), detail={"shape": str(np.shape(val))}):
        return
    for k in range(nn):
        ch = int(nbr[pkv, k])
        for t in (0, offset, length - 1):
            got = val[0, k, t]
            if ch == nsites:
                ctx.oblige("chunk_padding_is_nan", arrays.s_isnan(got))
            else:
                exp = np2env.raw_elem(smp - offset + t, order[ch]) * float(s2v[order[ch]])
                ctx.oblige("chunk_waveform_is_the_source_at_the_spike_window", core.eq(got, exp), detail={"k": k, "t": t, "i_chunk": i_chunk})


# ------------------------------------------------------------------------------------------ file-level outputs
UNWRITTEN = "unwritten"


def _open_memmap(filename, mode="r+", dtype=None, shape=None, **kw):
    """numpy.lib.format.open_memmap on the fake file system: 'w+' creates an array whose cells are marked unwritten"""
    F = fakefs.fs()
    if mode == "w+":
        a = np.empty(tuple(int(x) for x in shape), dtype=object)
        a[...] = UNWRITTEN
        f = F.files.setdefault(str(filename), fakefs.File(False))
        F.mutate("open_memmap", str(filename))
        f.exists, f.size, f.content = True, 128, {"npy": a.view(arrays.SymArray)}
        return f.content["npy"]
    f = F.get(str(filename))
    if f is None or not bool(f.exists):
        raise FileNotFoundError(str(filename))
    return f.content["npy"]


class _Par:
    def __init__(self, n_jobs=None, **k):
        pass

    def __call__(self, jobs):
        return [fn(*a, **kw) for fn, a, kw in list(jobs)]


def case_cbin_outputs(ctx, n, max_wf, chunk, length, offset):
    """the whole extract_wfs_cbin on a small flat recording: table, traces, channel map and templates describe the same
    waveforms row by row"""
    import ibldsp.waveform_extraction as we
    import ibldsp.utils as u
    import spikeglx
    nsites = 3
    nc = nsites + 1
    ns = ctx.int("ns", chunk + 1, 3 * chunk)
    T = core._as_real(ns) / 30000
    sites = [(0, i % 2, i // 2) for i in range(nsites)]
    txt = sglx.imec_meta_text("3B2", sites, gains=[(500, 250)] * nsites, ns=sglx.S(T), fs_hz="30000", file_size=sglx.S(ns * nc * 2))
    F = fakefs.install(fakefs.FakeFS())
    F.add("/d/x.imec0.ap.meta", True, len(txt), [{"pos": 0, "text": txt}])
    F.add("/d/x.imec0.ap.bin", True, ns * nc * 2, np2env.raw_array(ns, nc))
    F.mkdir("/out")
    samples = [ctx.int(f"s{i}", 0, 3 * chunk) for i in range(n)]
    for i in range(n - 1):
        ctx.assume(samples[i] <= samples[i + 1])
    clusters = [ctx.int(f"u{i}", 0, 1) for i in range(n)]
    chans = [ctx.int(f"c{i}", 0, nsites - 1) for i in range(n)]
    # at least one spike lies inside the margins (with none at all the function stops with an IndexError on the empty table: noted in DESIGN.md, not claimed)
    ctx.assume(core.any_([and_(samples[i] > offset, samples[i] < ns - (length - offset)) for i in range(n)]))
    sr0 = spikeglx.Reader(FakePath("/d/x.imec0.ap.bin"))
    geom = {k: v for k, v in sr0.geometry.items()}
    order = [int(v) for v in sr0.raw_channel_order]
    s2v = sr0.sample2volts
    # a neighbourhood radius that leaves NaN padding: 3 sites, 2 neighbours at most for the outer ones
    saved_mci = we.make_channel_index
    we.make_channel_index = lambda g, **k: _symtable(u.make_channel_index(g, radius=35.0))
    try:
        ctx.call("extract_wfs_cbin", we.extract_wfs_cbin, FakePath("/d/x.imec0.ap.bin"), FakePath("/out"), arrays.mk(list(samples), tag=np.dtype(np.int64)),
                 arrays.mk(list(clusters), tag=np.dtype(np.int64)), arrays.mk(list(chans), tag=np.dtype(np.int64)), h=geom, max_wf=max_wf, trough_offset=offset,
                 spike_length_samples=length, chunksize_samples=chunk, n_jobs=1, preprocess_steps=[], seed=None)
    finally:
        we.make_channel_index = saved_mci
    nbr = u.make_channel_index(np.c_[geom["x"], geom["y"]], radius=35.0)
    nn = nbr.shape[1]
    need = {"traces": "/out/waveforms.traces.npy", "templates": "/out/waveforms.templates.npy", "table": "/out/waveforms.table.pqt", "channels": "/out/waveforms.channels.npz"}
    if not ctx.oblige("all_four_output_files_written", all(bool(F.exists(p)) for p in need.values()), detail={"present": [k for k, p in need.items() if bool(F.exists(p))]}):
        return
    traces = F.get(need["traces"]).content["npy"]
    templates = F.get(need["templates"]).content["npy"]
    table = F.get(need["table"]).content["parquet"]
    chmap = F.get(need["channels"]).content["npz"]["channels"]
    cl = [int(ctx.concretize(core._it(c))) if isinstance(c, core.Sym) else int(c) for c in clusters]
    valid = [bool(and_(samples[i] > offset, samples[i] < ns - (length - offset))) for i in range(n)]
    units = sorted(set(cl))
    nwf = sum(min(max_wf, sum(1 for i in range(n) if cl[i] == u_ and valid[i])) for u_ in units)
    ok = (len(table) == nwf and tuple(traces.shape) == (nwf, nn, length) and tuple(np.shape(chmap)) == (nwf, nn) and tuple(np.shape(templates)) == (len(units), nn, length))
    if not ctx.oblige("output_shapes_agree", ok, detail={"table_rows": len(table), "traces": str(traces.shape), "channels": str(np.shape(chmap)), "templates": str(np.shape(templates)), "expected_waveforms": nwf}):
        return
    S, C, P, W = (table[k].to_numpy() for k in ("sample", "cluster", "peak_channel", "waveform_index"))
    IW = table["index_within_clusters"].to_numpy()
    rows_of_unit = {u_: [] for u_ in units}
    for r in range(nwf):
        ctx.oblige("table_row_r_describes_trace_r", core.eq(W[r], r), detail={"row": r, "waveform_index": W[r]})
        pk = int(ctx.concretize(core._it(P[r]))) if isinstance(P[r], core.Sym) else int(P[r])
        cr = int(ctx.concretize(core._it(C[r]))) if isinstance(C[r], core.Sym) else int(C[r])
        rows_of_unit.setdefault(cr, []).append(r)
        ctx.oblige("channel_map_row_is_the_neighbourhood_of_the_rows_peak", [int(v) for v in chmap[r]] == [int(v) for v in nbr[pk]], detail={"row": r, "peak": pk})
        ctx.oblige("index_within_cluster_counts_from_zero", core.eq(IW[r], len(rows_of_unit[cr]) - 1), detail={"row": r, "got": IW[r]})
        for k in range(nn):
            ch = int(nbr[pk, k])
            for t in (0, offset, length - 1):
                got = traces[r, k, t]
                if isinstance(got, str):
                    ctx.oblige("every_trace_cell_is_written", False, detail={"row": r, "k": k, "t": t})
                elif ch == nsites:
                    ctx.oblige("trace_padding_is_nan", arrays.s_isnan(got), detail={"row": r, "k": k})
                else:
                    exp = np2env.raw_elem(S[r] - offset + t, order[ch]) * float(s2v[order[ch]])
                    ctx.oblige("trace_r_is_the_source_at_the_rows_spike_window", core.eq(got, exp), detail={"row": r, "k": k, "t": t})
    ctx.oblige("table_is_sorted_by_cluster", all(rows_of_unit[u_] == list(range(rows_of_unit[u_][0], rows_of_unit[u_][-1] + 1)) for u_ in rows_of_unit if rows_of_unit[u_]), detail={"rows_of_unit": {str(k): v for k, v in rows_of_unit.items()}})
    # templates: row i is the NaN-aware median over the saved waveforms of the i-th unit PRESENT IN THE TABLE (this is how the loader
    # pairs templates with its per-cluster table); the rows left over for units without any waveform stay NaN
    present = [u_ for u_ in units if rows_of_unit.get(u_)]
    for iu in range(len(units)):
        u_ = present[iu] if iu < len(present) else None
        rows = rows_of_unit.get(u_, []) if u_ is not None else []
        for k in range(nn):
            for t in (0, length - 1):
                got = templates[iu, k, t]
                vals = [traces[r, k, t] for r in rows]
                vals = [v for v in vals if not isinstance(v, str) and not bool(arrays.s_isnan(v))]
                if not vals:
                    ctx.oblige("template_is_nan_without_data", arrays.s_isnan(got), detail={"unit": u_, "k": k})
                    continue
                if bool(arrays.s_isnan(got)):
                    ctx.oblige("template_is_the_nanmedian_of_the_units_traces", False, detail={"unit": u_, "k": k, "t": t, "got": "nan", "n_values": len(vals)})
                    continue
                if len(vals) == 1:
                    exp = vals[0]
                elif len(vals) == 2:
                    exp = (vals[0] + vals[1]) / 2
                else:
                    lo = [core.all_([core.or_(got >= v) for v in vals])]
                    exp = None
                if exp is not None:
                    ctx.oblige("template_is_the_nanmedian_of_the_units_traces", core.eq(got, exp), detail={"unit": u_, "k": k, "t": t})
                else:
                    # median of 3+: at least half of the values on either side, and it is one of them (odd) or a mid-point
                    le = sum(arrays._num(v <= got) for v in vals)
                    ge = sum(arrays._num(v >= got) for v in vals)
                    ctx.oblige("template_is_the_nanmedian_of_the_units_traces", and_(le * 2 >= len(vals), ge * 2 >= len(vals)), detail={"unit": u_, "k": k, "t": t})


def cases(tier):
    b = bounds(tier)
    cs = []
    # whole extract_wfs_cbin: 2 spikes (786 paths, about 2 min); thorough adds 3 spikes with max_wf 1
    cs.append(Case("cbin_outputs_n2_maxwf2", "case_cbin_outputs", {"n": 2, "max_wf": 2, "chunk": 12, "length": 4, "offset": 1}, timeout_s=3400, max_paths=900000))
    if tier == "thorough":
        cs.append(Case("cbin_outputs_n3_maxwf1", "case_cbin_outputs", {"n": 3, "max_wf": 1, "chunk": 12, "length": 4, "offset": 1}, timeout_s=7000, max_paths=900000))
    for g in GEOMS:
        cs.append(Case(f"cutout_{g}", "case_cutout", {"geom": g, "ns": 9, "length": 4, "offset": 1, "nwf": 2, "add_nan": True}, timeout_s=2400, max_paths=100000))
    cs.append(Case("cutout_np1_6_prepadded", "case_cutout", {"geom": "np1_6", "ns": 8, "length": 3, "offset": 2, "nwf": 1, "add_nan": False}, timeout_s=2400))
    cs.append(Case("cutout_col_5_int16_traces", "case_cutout", {"geom": "col_5", "ns": 7, "length": 3, "offset": 1, "nwf": 1, "add_nan": True, "int_traces": True}, timeout_s=2400))
    for mw in b["max_wf"]:
        n = b["nspikes"] if mw < 3 else 4        # the number of random choices grows as n!/(n-m)!: keep the product bounded
        cs.append(Case(f"selection_n{n}_maxwf{mw}", "case_selection", {"n": n, "max_wf": mw, "offset": 3, "length": 8}, timeout_s=3400, max_paths=900000))
    # three units, so that a unit without any valid spike can sit before two units that have some
    for mw in ([1] if tier == "quick" else [1, 2]):
        cs.append(Case(f"selection_3units_n4_maxwf{mw}", "case_selection", {"n": 4, "max_wf": mw, "offset": 3, "length": 8, "nunits": 3}, timeout_s=3400, max_paths=900000))
    # spike times given as unsigned integers (Kilosort's uint64 spike_times)
    cs.append(Case("selection_uint64_times_n3_maxwf2", "case_selection", {"n": 3, "max_wf": 2, "offset": 3, "length": 8, "unsigned": True}, timeout_s=3400, max_paths=900000))
    for ic in (0, 1, 2):
        cs.append(Case(f"chunk_{ic}", "case_chunk", {"i_chunk": ic, "length": 8, "offset": 3}, timeout_s=2400))
    # trough late in the window (offset > length / 2): the look-behind before a chunk is larger than the look-ahead after it
    for ic in ((1,) if tier == "quick" else (0, 1, 2)):
        cs.append(Case(f"chunk_{ic}_late_trough", "case_chunk", {"i_chunk": ic, "length": 8, "offset": 6}, timeout_s=2400))
    return cs


def twins(tier):
    m = "ibldsp.waveform_extraction"
    b = bounds(tier)
    sel = [f"selection_n{b['nspikes'] if mw < 3 else 4}_maxwf{mw}" for mw in b["max_wf"]] + ["selection_3units_n4_maxwf1"]
    cut = [f"cutout_{g}" for g in GEOMS]
    return [
        Twin("validity_ge", m, "allowed_idx = (spike_samples > trough_offset) & (", "allowed_idx = (spike_samples >= trough_offset) & (", sel),
        Twin("offset_in_first_chunk", m, "    if i_chunk == 0:\n        offset = 0\n    else:\n        offset = trough_offset", "    offset = trough_offset", ["chunk_0"]),
        Twin("sind_without_offset", m, "        np.arange(spike_length_samples) - trough_offset\n", "        np.arange(spike_length_samples)\n", cut),
        Twin("cind_sind_swapped", m, "wfs[i, :, :] = arr[:, sind[i]][cind[i], :]", "wfs[i, :, :] = arr[:, sind[i]][cind[i][::-1], :]", cut),
        Twin("chunk_offset_sign", m, 'sample = wf_flat["sample"].astype(int) + offset - i_chunk * chunksize_samples', 'sample = wf_flat["sample"].astype(int) - offset - i_chunk * chunksize_samples', ["chunk_1", "chunk_2", "chunk_1_late_trough"]),
        Twin("max_wf_plus_one", m, "u_wf_idx = rng.choice(u_spikeidx, min(max_wf, nspikes), replace=False)\n        unit_wf_idx[i, : min(max_wf, nspikes)] = u_wf_idx",
             "u_wf_idx = rng.choice(u_spikeidx, min(max_wf, max(nspikes - 1, min(nspikes, 1))), replace=False)\n        unit_wf_idx[i, : min(max_wf, max(nspikes - 1, min(nspikes, 1)))] = u_wf_idx", sel),
        Twin("neighbours_strict", "ibldsp.utils", "scipy.spatial.distance.squareform(scipy.spatial.distance.pdist(geom)) <= radius", "scipy.spatial.distance.squareform(scipy.spatial.distance.pdist(geom)) < radius", ["cutout_col_5"]),
    ]


def replay(case, params, cex):
    m = cex["model"]
    if case.startswith("cutout") and cex["obligation"].startswith("explicit_pad_value"):
        g = params["geom"]
        return f"""
import ibldsp.utils as u
xy = np.array({GEOMS[g][0].tolist()}); radius = {GEOMS[g][1]}; nc = xy.shape[0]
ref = u.make_channel_index(xy, radius=radius)
bad = []
for pv in (-1, nc + 7):
    t = u.make_channel_index(xy, radius=radius, pad_val=pv)
    exp = np.where(ref == nc, pv, ref)
    if t.shape != exp.shape or not np.array_equal(t, exp): bad.append((pv, t.tolist(), exp.tolist()))
print(bad)
if bad: reproduced(f'make_channel_index with an explicit pad value does not keep the neighbours first / ascending: {{bad[:1]}}')
not_reproduced()
"""
    if case.startswith("cutout") and cex["obligation"].startswith(("neighbour_table_does_not_depend", "make_channel_index_")):
        return """
import ibldsp.utils as u, neuropixel
h = neuropixel.trace_header(version=1)
full = np.c_[h['x'], h['y']].astype(np.float64); ref = u.make_channel_index(full, radius=200.0)
bad = []
for dt in (np.float32, np.int64, np.int32, np.int16, np.uint16):
    try:
        other = u.make_channel_index(full.astype(dt), radius=200.0)
    except Exception as e:
        bad.append((np.dtype(dt).name, repr(e))); continue
    if other.shape != ref.shape or not np.array_equal(other, ref): bad.append((np.dtype(dt).name, other.shape, ref.shape))
print(bad)
if bad: reproduced(f'make_channel_index of the NP1 geometry depends on the dtype of the coordinates: {bad}')
not_reproduced()
"""
    if case.startswith("cutout"):
        g = params["geom"]
        ns, length, offset, nwf = params["ns"], params["length"], params["offset"], params["nwf"]
        return f"""
import ibldsp.waveform_extraction as we, ibldsp.utils as u, pandas as pd
xy = np.array({GEOMS[g][0].tolist()}); radius = {GEOMS[g][1]}
nc = xy.shape[0]; ns, length, offset = {ns}, {length}, {offset}
nbr = u.make_channel_index(xy, radius=radius)
bad = []
for c in range(nc):
    want = [j for j in range(nc) if np.hypot(*(xy[j] - xy[c])) <= radius]
    if list(nbr[c]) != want + [nc] * (nbr.shape[1] - len(want)): bad.append(('neighbours', c, list(nbr[c]), want))
rs = np.random.default_rng(0); arr = rs.normal(size=(nc, ns)).astype(np.float32)
if {bool(params.get('int_traces'))}: arr = rs.integers(-3000, 3000, size=(nc, ns)).astype(np.int16)       # raw counts
samples = {[m.get(f's{i}', offset) for i in range(nwf)]}; peaks = {[m.get(f'p{i}', 0) for i in range(nwf)]}
df = pd.DataFrame({{'sample': samples, 'peak_channel': peaks}})
if {params['add_nan']}:
    try:
        wfs, cind, _ = we.extract_wfs_array(arr, df, nbr, trough_offset=offset, spike_length_samples=length, add_nan_trace=True)
    except Exception as e:
        reproduced(f'extract_wfs_array(add_nan_trace=True) on {{arr.dtype}} traces raised {{type(e).__name__}}: {{e}}')
else:
    wfs, cind, _ = we.extract_wfs_array(np.vstack([arr, np.full((1, ns), np.nan, dtype=np.float32)]), df, nbr, trough_offset=offset, spike_length_samples=length)
ext = np.vstack([arr, np.full((1, ns), np.nan)])
for i, (s, p) in enumerate(zip(samples, peaks)):
    exp = ext[nbr[p]][:, s - offset: s - offset + length]
    if wfs[i].shape != exp.shape or not np.array_equal(wfs[i], exp, equal_nan=True): bad.append(('waveform', i, s, p))
    if list(cind[i]) != list(nbr[p]): bad.append(('cind', i))
print(bad)
if bad: reproduced(str(bad))
not_reproduced()
"""
    if case.startswith("selection"):
        n = params["n"]
        samples = [m[f"s{i}"] for i in range(n)]
        clusters = [m[f"u{i}"] for i in range(n)]
        chans = [m[f"c{i}"] for i in range(n)]
        return f"""
import ibldsp.waveform_extraction as we
class SR: ns = {m['ns']}
samples = np.array({samples}, dtype=np.uint64 if {bool(params.get("unsigned"))} else np.int64); clusters = np.array({clusters}); chans = np.array({chans})
max_wf, offset, length = {params['max_wf']}, {params['offset']}, {params['length']}
valid = (samples > offset) & (samples < SR.ns - (length - offset))
bad = []
for seed in range(30):
    try:
        wf, unit_ids = we._make_wfs_table(SR, samples, clusters, chans, max_wf=max_wf, trough_offset=offset, spike_length_samples=length, seed=seed)
    except Exception as e:
        bad.append(('raised', seed, repr(e))); break
    for u in np.unique(clusters):
        want = min(max_wf, int(np.sum((clusters == u) & valid)))
        got = int(np.sum(wf['cluster'].to_numpy() == u))
        if got != want: bad.append(('unit', int(u), 'rows', got, 'expected', want, 'seed', seed))
    rows = list(zip(wf['sample'], wf['cluster'], wf['peak_channel']))
    spikes = [t for t, v in zip(zip(samples, clusters, chans), valid) if v]
    for r in rows:
        if r not in spikes: bad.append(('row is not a valid spike', r, seed))
    if sorted(wf['waveform_index']) != list(range(len(wf))): bad.append(('waveform_index', seed))
    if bad: break
print(samples, clusters, valid, bad[:4])
if bad: reproduced(str(bad[:4]))
not_reproduced()
"""
    if case.startswith("cbin_outputs"):
        n = params["n"]
        return f"""
import sys, tempfile, pathlib, warnings
sys.path.insert(0, '/verif')
from symex import sglx
import ibldsp.waveform_extraction as we, ibldsp.utils as u, spikeglx, pandas as pd
ns, chunk, length, offset, max_wf = {m['ns']}, {params['chunk']}, {params['length']}, {params['offset']}, {params['max_wf']}
samples = np.array({[m[f's{i}'] for i in range(n)]}, dtype=np.int64); clusters = np.array({[m[f'u{i}'] for i in range(n)]}, dtype=np.int64); chans = np.array({[m[f'c{i}'] for i in range(n)]}, dtype=np.int64)
nsites = 3; nc = 4
d = pathlib.Path(tempfile.mkdtemp()); out = d / 'out'; out.mkdir()
rs = np.random.default_rng(0); data = rs.integers(-3000, 3000, size=(ns, nc)).astype(np.int16)
(d / 'x.imec0.ap.meta').write_text(sglx.imec_meta_text('3B2', [(0, i % 2, i // 2) for i in range(nsites)], gains=[(500, 250)] * nsites, ns=format(ns / 30000.0, '.12f'), fs_hz='30000', file_size=ns * nc * 2))
data.tofile(d / 'x.imec0.ap.bin')
sr = spikeglx.Reader(d / 'x.imec0.ap.bin')
geom = sr.geometry
we.make_channel_index = lambda g, **k: u.make_channel_index(g, radius=35.0)      # a radius that leaves NaN padding on a 3-site excerpt (as in the check)
nbr = u.make_channel_index(np.c_[geom['x'], geom['y']], radius=35.0)
bad = []
for seed in range(4):
    try:
        we.extract_wfs_cbin(d / 'x.imec0.ap.bin', out, samples, clusters, chans, h=geom, max_wf=max_wf, trough_offset=offset, spike_length_samples=length,
                            chunksize_samples=chunk, n_jobs=1, preprocess_steps=[], seed=seed)
    except Exception as e:
        reproduced(f'extract_wfs_cbin raised {{type(e).__name__}}: {{e}}')
    traces = np.load(out / 'waveforms.traces.npy'); templates = np.load(out / 'waveforms.templates.npy')
    table = pd.read_parquet(out / 'waveforms.table.pqt'); chmap = np.load(out / 'waveforms.channels.npz')['channels']
    full = np.vstack([sr[:, :nsites].T, np.full((1, ns), np.nan)]).astype(np.float32)
    valid = (samples > offset) & (samples < ns - (length - offset))
    nwf = sum(min(max_wf, int(np.sum((clusters == c) & valid))) for c in np.unique(clusters))
    if not (len(table) == nwf == traces.shape[0] == chmap.shape[0]): bad.append(('shapes', len(table), traces.shape, chmap.shape, nwf)); break
    W = table['waveform_index'].to_numpy(); S = table['sample'].to_numpy(); P = table['peak_channel'].to_numpy(); C = table['cluster'].to_numpy()
    for r in range(nwf):
        if W[r] != r: bad.append(('waveform_index of row', r, int(W[r])))
        if not np.array_equal(chmap[r], nbr[P[r]]): bad.append(('channel map row', r))
        exp = full[nbr[P[r]]][:, S[r] - offset: S[r] - offset + length]
        if not np.array_equal(traces[r], exp, equal_nan=True): bad.append(('trace row differs from the source window', r))
    if list(C) != sorted(C): bad.append(('table not sorted by cluster', list(C)))
    present = sorted(set(C.tolist()))
    with warnings.catch_warnings():
        warnings.simplefilter('ignore')
        for i, c in enumerate(present):
            exp = np.nanmedian(traces[C == c], axis=0)
            if not np.allclose(templates[i], exp, equal_nan=True): bad.append(('template', i, 'is not the nanmedian of the traces of cluster', c))
    if bad: break
print(bad)
if bad: reproduced(str(bad)[:600])
# the witness has only a few waveforms; NumPy's default sort is only incidentally stable below 17 elements, so an order left to an
# unstable sort shows on a larger instance of the same situation (interleaved units, several waveforms each)
ns2 = 6000; rs2 = np.random.default_rng(1)
data2 = rs2.integers(-3000, 3000, size=(ns2, nc)).astype(np.int16)
(d / 'x.imec0.ap.meta').write_text(sglx.imec_meta_text('3B2', [(0, i % 2, i // 2) for i in range(nsites)], gains=[(500, 250)] * nsites, ns=format(ns2 / 30000.0, '.12f'), fs_hz='30000', file_size=ns2 * nc * 2))
data2.tofile(d / 'x.imec0.ap.bin')
sr2 = spikeglx.Reader(d / 'x.imec0.ap.bin')
smp2 = np.sort(rs2.choice(np.arange(20, ns2 - 20), 120, replace=False)); cl2 = np.arange(120) % 3; ch2 = rs2.integers(0, nsites, 120)
out2 = d / 'out2'; out2.mkdir()
we.extract_wfs_cbin(d / 'x.imec0.ap.bin', out2, smp2, cl2, ch2, h=geom, max_wf=40, trough_offset=offset, spike_length_samples=length, chunksize_samples=1500, n_jobs=1, preprocess_steps=[], seed=0)
tr2 = np.load(out2 / 'waveforms.traces.npy'); tb2 = pd.read_parquet(out2 / 'waveforms.table.pqt'); cm2 = np.load(out2 / 'waveforms.channels.npz')['channels']
full2 = np.vstack([sr2[:, :nsites].T, np.full((1, ns2), np.nan)]).astype(np.float32)
S2 = tb2['sample'].to_numpy(); P2 = tb2['peak_channel'].to_numpy(); W2 = tb2['waveform_index'].to_numpy()
wrong = [r for r in range(len(tb2)) if W2[r] != r or not np.array_equal(tr2[r], full2[nbr[P2[r]]][:, S2[r] - offset: S2[r] - offset + length], equal_nan=True) or not np.array_equal(cm2[r], nbr[P2[r]])]
print('larger instance: rows that do not agree', len(wrong), 'of', len(tb2))
if wrong: reproduced(f'{{len(wrong)}} of {{len(tb2)}} rows of table / traces / channel map do not describe the same waveform (120 spikes of 3 interleaved units)')
not_reproduced()
"""
    if case.startswith("chunk"):
        return f"""
import sys, tempfile, pathlib
sys.path.insert(0, '/verif')
from symex import sglx
import ibldsp.waveform_extraction as we, ibldsp.utils as u, spikeglx, pandas as pd
ns, chunk, smp, pk, widx = {m['ns']}, {m['chunksize']}, {m['sample']}, {m['peak']}, {m['waveform_index']}
i_chunk, length, offset = {params['i_chunk']}, {params['length']}, {params['offset']}
if ns > 5_000_000: not_reproduced('too long to materialise')
nsites = 3; nc = 4
d = pathlib.Path(tempfile.mkdtemp())
rs = np.random.default_rng(0); data = rs.integers(-3000, 3000, size=(ns, nc)).astype(np.int16)
(d / 'x.imec0.ap.meta').write_text(sglx.imec_meta_text('3B2', [(0, i % 2, i // 2) for i in range(nsites)], gains=[(500, 250)] * nsites, ns=format(ns / 30000.0, '.12f'), fs_hz='30000', file_size=ns * nc * 2))
data.tofile(d / 'x.imec0.ap.bin')
sr = spikeglx.Reader(d / 'x.imec0.ap.bin')
xy = np.array([[43.0, 20], [11, 20], [59, 40]]); nbr = u.make_channel_index(xy, radius=45.0)
mm = np.full((60, nbr.shape[1], length), np.inf, dtype=np.float32)
wf = pd.DataFrame({{'sample': [smp], 'peak_channel': [pk], 'waveform_index': [widx]}})
s0 = i_chunk * chunk; s1 = min(s0 + chunk, ns)
try:
    we.write_wfs_chunk(i_chunk, d / 'x.imec0.ap.bin', mm, sr.geometry, np.zeros(nsites), nbr, wf, (s0, s1), chunk, offset, length, {{}}, [])
except Exception as e:
    reproduced(f'write_wfs_chunk raised {{type(e).__name__}}: {{e}}')
full = np.vstack([sr[:, :nsites].T, np.full((1, ns), np.nan)])
exp = full[nbr[pk]][:, smp - offset: smp - offset + length]
rows = np.where(np.isfinite(mm).all(axis=(1, 2)) | np.isnan(mm).any(axis=(1, 2)))[0]
print(rows, widx)
if list(rows) != [widx] or not np.array_equal(mm[widx], exp.astype(np.float32), equal_nan=True): reproduced('chunk writer: wrong row or wrong content for the spike')
not_reproduced()
"""
    return None
LEVEL_TEXT = LEVEL_TEXT + " Round 7: integer (int16) traces with the NaN row added by the function; the templates step may not alter the saved traces (overwrite_input modelled as 'content unspecified')."
