"""
C04 - Conversion never loses the original and is idempotent over run histories.
Real NP2Converter (process, _process_NP24/_NP21, _prepare_files_*, check_NP24, compress_NP24/_NP21, delete_NP24)
on the symbolic file system; option flags symbolic, interruption = injected fault at an enumerated operation.
"""
import numpy as np
import z3

from symex import arrays, core, fakefs, larr, np2env, sglx
from symex.core import SInt, all_, and_, implies, not_, or_
from symex.fakefs import FakePath, InjectedFault
from symex.harness import Case, Twin
from symex.larr import LArr
from symex.np2env import Cbin

from checks import c03

PROPERTY = "C04"
FUNCTIONS = ["neuropixel.NP2Converter.__init__/check_metadata/process/_process_NP24/_process_NP21/_prepare_files_NP24/_prepare_files_NP21/check_NP24/compress_NP24/compress_NP21/delete_NP24",
             "spikeglx.Reader.compress_file", "spikeglx.Reader.__init__/open"]
ASSUMPTIONS = [
    "file contents are symbolic arrays (RAW(sample, channel)); 'bit-identical' = the written records, viewed as an array, equal RAW on the shank's channels at an arbitrary row; sosfiltfilt and mtscomp are stubs (2 compression chunks)",
    "an interruption is an exception raised at one enumerated mutating file-system operation of a run (create/write/rename/unlink/mkdir/compress chunk/check); at most one per run",
    "recordings of 600 and 1400 samples (one and two processing windows of 1200), two shanks; histories of up to 3 runs",
]
OUTSIDE = ["power loss below the file-system API, concurrent runs", "more than 3 runs per history / more than one interruption per run"]
EXPLANATION = "option flags fork the path; each fault index is one case; after every run the directory is inspected with solver-decided content equalities."
LEVEL_TEXT = ("For every option combination (post_check, compress, delete_original) and overwrite flag, every probe kind, and an interruption at every file-system operation of a run followed by a retry, z3 decides after each run: "
              "the original is present byte-for-byte or every shank's split (or its complete compression) equals it; the original is unlinked only when that already holds and only after a successful comparison; "
              "a repeated run without overwrite performs no mutation and returns 0; a forced re-run from any reached state returns 1 with a complete valid set.")
LEVEL_NOTE = "Trusted: fake file system, mtscomp/filter stubs, lazy arrays, z3 for content equalities."

ORIG = "/s/probe00/x.imec0.ap.bin"
SHANKS = [0, 1]
MAP = [0, 1, 0, 1]


def bounds(tier):
    return {"fault_stride": 3 if tier == "quick" else 1, "ns": [600] if tier == "quick" else [600, 1400], "max_ops": 190}


def setup():
    np2env.patch()


def _mk_original(kind, ns, compressed=False):
    n = len(MAP)
    nc = n + 1
    T = format(ns / 30000.0, ".12f")
    extra = ["fileSHA1=ABCDEF", f"fileSizeBytes={ns * nc * 2}"]
    if kind == "NP2.4":
        txt = np2env.np24_meta_text(n, MAP, T, extra=extra)
    elif kind == "split":
        txt = np2env.np24_meta_text(n, MAP, T, extra=extra + ["NP2.4_shank=1"])
    elif kind == "NP2.1":
        txt = sglx.imec_meta_text("NP2.1", [(0, i % 2, i // 2) for i in range(n)], ns=T, fs_hz="30000", extra=extra)
    else:
        txt = sglx.imec_meta_text("3B2", [(0, i % 2, i // 2) for i in range(n)], ns=T, fs_hz="30000", extra=extra)
    F = fakefs.install(fakefs.FakeFS())
    F.add("/s/probe00/x.imec0.ap.meta", True, len(txt), [{"pos": 0, "text": txt}])
    raw = np2env.raw_array(ns, nc)
    if compressed:
        # the recording arrives already compressed (.cbin + .ch, no .bin)
        F.add("/s/probe00/x.imec0.ap.cbin", True, 17, Cbin(raw, True, (ns, nc)))
        F.add("/s/probe00/x.imec0.ap.ch", True, 11, {"ch_for": "/s/probe00/x.imec0.ap.cbin"})
    else:
        F.add(ORIG, True, ns * nc * 2, raw)
    return F, raw, nc


def _orig_intact(F, raw):
    f = F.get(ORIG)
    return f is not None and bool(f.exists) and f.content is raw and bool(F.get("/s/probe00/x.imec0.ap.meta").exists)


def _split_complete(ctx, F, ns, s, p):
    """solver-decided: shank s has a complete bin or cbin whose content equals the original on its channels"""
    chns = c03.shank_channels(MAP, s)
    d = f"/s/probe00{chr(97 + s)}"
    for name in ("x.imec0.ap.bin", "x.imec0.ap.cbin"):
        f = F.get(f"{d}/{name}")
        if f is None or not bool(f.exists):
            continue
        c = f.content
        if isinstance(c, Cbin):
            if not c.complete or not bool(F.exists(f"{d}/x.imec0.ap.ch")):
                continue
            c = c.source
        if not isinstance(c, list) or not c:
            continue
        try:
            view = np2env.records_view(c, len(chns))
        except core.Unsupported:
            continue
        if not bool(core.eq(view.shape[0], ns)):
            continue
        if all(bool(core.eq(view.fn(p, j), np2env.raw_elem(p, ch))) for j, ch in enumerate(chns)):
            if bool(F.exists(f"{d}/x.imec0.ap.meta")):
                return True
    return False


def _recoverable(ctx, F, raw, ns, p, kind):
    if _orig_intact(F, raw):
        return True
    if kind == "NP2.4":
        return all(_split_complete(ctx, F, ns, s, p) for s in SHANKS)
    if kind == "NP2.1":
        f = F.get("/s/probe00/x.imec0.ap.cbin")
        return f is not None and bool(f.exists) and isinstance(f.content, Cbin) and f.content.complete and f.content.source is raw and bool(F.exists("/s/probe00/x.imec0.ap.ch"))
    return False


def _valid_set(ctx, F, ns, p, compress):
    ok = True
    for s in SHANKS:
        ok = ok and _split_complete(ctx, F, ns, s, p)
        d = f"/s/probe00{chr(97 + s)}"
        lf = F.get(f"{d}/x.imec0.lf.cbin" if compress else f"{d}/x.imec0.lf.bin")
        ok = ok and lf is not None and bool(lf.exists) and bool(F.exists(f"{d}/x.imec0.lf.meta"))
        if compress:
            ok = ok and isinstance(lf.content, Cbin) and lf.content.complete
    return ok


def _run(ctx, F, raw, ns, p, kind, opts, overwrite, fault, log):
    """one conversion run; returns status or the raised exception"""
    import neuropixel
    ap = ORIG if bool(F.exists(ORIG)) else "/s/probe00/x.imec0.ap.cbin"
    n0 = F.nops
    m0 = F.nmut
    F.fault_at = None if fault is None else n0 + fault
    unlink_ok = []

    def hook(k, op, path):
        if op == "unlink" and path == ORIG:
            done = all(_split_complete(ctx, F, ns, s, p) for s in SHANKS) if kind == "NP2.4" else _recoverable_np21_replacement(F, raw)
            unlink_ok.append(done)
    F.fault_hook = hook
    res = None
    try:
        conv = neuropixel.NP2Converter(FakePath(ap), post_check=opts["post_check"], delete_original=opts["delete_original"], compress=opts["compress"])
        conv.init_params(nwindow=1200)
        res = conv.process(overwrite=overwrite)
        log["check_completed"] = getattr(conv, "check_completed", None)
    except InjectedFault as e:
        res = e
        # which file-system operation was interrupted: (op, path, n-th occurrence of that op on that path in this run)
        ops = [t for t in F.trace if len(t) == 4 and isinstance(t[0], int) and t[0] >= n0]
        if ops:
            k, op, path, _ = ops[-1]
            nth = sum(1 for t in ops[:-1] if t[1] == op and t[2] == path)
            log["fault_op"] = [op, path, nth]
    except FileNotFoundError as e:
        res = e
    finally:
        F.fault_at = None
        F.fault_hook = None
    log["ops"] = F.nops - n0
    log["mut"] = F.nmut - m0
    log["unlink_ok"] = unlink_ok
    return res


def _recoverable_np21_replacement(F, raw):
    f = F.get("/s/probe00/x.imec0.ap.cbin")
    return f is not None and bool(f.exists) and isinstance(f.content, Cbin) and f.content.complete and f.content.source is raw


def case_history(ctx, kind, ns, fault1, overwrite1, second, third=None, fault2=None, compressed_input=False):
    """run 1 (optionally interrupted at op fault1), then run 2 = second in {None,'F','T'}, run 3 = third"""
    F, raw, nc = _mk_original(kind, ns, compressed=compressed_input)
    opts = {"post_check": bool(ctx.bool("post_check")), "compress": bool(ctx.bool("compress")), "delete_original": bool(ctx.bool("delete_original"))}
    p = ctx.int("p", 0, ns - 1)
    log1 = {}
    r1 = _run(ctx, F, raw, ns, p, kind, opts, overwrite1, fault1, log1)
    crashed1 = isinstance(r1, InjectedFault)
    if fault1 is not None and not crashed1:
        # the fault index lies beyond the last operation of this option combination: nothing new to check
        ctx.oblige("fault_index_beyond_run", fault1 >= log1["ops"])
        return
    fop = log1.get("fault_op")
    ctx.oblige("original_recoverable_after_run1", _recoverable(ctx, F, raw, ns, p, kind), detail={"opts": opts, "fault": fault1, "fault_op": fop, "result": repr(r1)[:120]})
    ctx.oblige("original_unlinked_only_when_replacement_complete", all(log1["unlink_ok"]), detail={"opts": opts, "unlink_ok": log1["unlink_ok"], "fault_op": fop})
    if not crashed1:
        if isinstance(r1, Exception):
            ctx.oblige("run_without_interruption_does_not_raise", False, detail={"opts": opts, "overwrite": overwrite1, "exception": repr(r1)[:200]})
            return
        if kind in ("NP2.4", "NP2.1"):
            ctx.oblige("first_run_status_one", r1 == 1, detail={"status": r1})
        if kind == "NP2.4":
            ctx.oblige("complete_valid_set_after_uninterrupted_run", _valid_set(ctx, F, ns, p, opts["compress"]), detail={"opts": opts, "overwrite": overwrite1})
            if not _orig_intact(F, raw):
                ctx.oblige("original_removed_only_after_successful_verification", opts["post_check"] and opts["delete_original"] and log1.get("check_completed") is True, detail={"opts": opts})
            if opts["delete_original"] and opts["post_check"]:
                ctx.oblige("original_removed_when_asked_and_verified", not bool(F.exists(ORIG)))
        if kind == "NP1":
            ctx.oblige("np1_status_minus_one_and_no_mutation", r1 == -1 and log1["mut"] == 0, detail={"status": r1, "ops": log1["mut"]})
        if kind == "split":
            ctx.oblige("already_split_status_zero_and_no_mutation", r1 == 0 and log1["mut"] == 0, detail={"status": r1, "ops": log1["mut"]})
    if second is None:
        return
    if not bool(F.exists(ORIG)) and kind == "NP2.4":
        return   # original legitimately deleted: no further run possible on it
    log2 = {}
    r2 = _run(ctx, F, raw, ns, p, kind, opts, second == "T", fault2, log2)
    if fault2 is not None:
        if not isinstance(r2, InjectedFault):
            ctx.oblige("fault_index_beyond_run", fault2 >= log2["ops"])
            return
        fop = log2.get("fault_op")
        ctx.oblige("original_recoverable_after_interrupted_rerun", _recoverable(ctx, F, raw, ns, p, kind), detail={"opts": opts, "fault2": fault2, "fault_op": fop})
        ctx.oblige("original_unlinked_only_when_replacement_complete", all(log2["unlink_ok"]), detail={"opts": opts, "fault_op": fop})
        if third is None or (not bool(F.exists(ORIG)) and kind == "NP2.4"):
            return
        log3 = {}
        r3 = _run(ctx, F, raw, ns, p, kind, opts, third == "T", None, log3)
        ctx.oblige("original_recoverable_after_run3", _recoverable(ctx, F, raw, ns, p, kind), detail={"opts": opts, "fault2": fault2, "fault_op": fop})
        if third == "T" and kind == "NP2.4":
            ctx.oblige("forced_rerun_does_not_raise", not isinstance(r3, Exception), detail={"exception": repr(r3)[:200], "opts": opts, "fault2": fault2, "fault_op": fop})
            if not isinstance(r3, Exception):
                ctx.oblige("forced_rerun_leaves_complete_valid_set", r3 == 1 and _valid_set(ctx, F, ns, p, opts["compress"]), detail={"opts": opts, "fault2": fault2, "fault_op": fop})
        return
    ctx.oblige("original_recoverable_after_run2", _recoverable(ctx, F, raw, ns, p, kind), detail={"opts": opts, "fault": fault1, "fault_op": fop, "second": second, "result": repr(r2)[:120]})
    ctx.oblige("original_unlinked_only_when_replacement_complete", all(log2["unlink_ok"]), detail={"opts": opts})
    if second == "F" and not crashed1 and kind in ("NP2.4", "NP2.1"):
        ctx.oblige("repeated_run_without_overwrite_does_nothing", (not isinstance(r2, Exception)) and r2 == 0 and log2["mut"] == 0, detail={"status": repr(r2)[:100], "mutations": log2["mut"], "opts": opts})
    if second == "T" and kind == "NP2.4":
        if isinstance(r2, Exception):
            ctx.oblige("forced_rerun_does_not_raise", False, detail={"opts": opts, "after_fault": fault1, "fault_op": fop, "exception": repr(r2)[:200]})
        else:
            ctx.oblige("forced_rerun_status_one", r2 == 1, detail={"status": r2})
            ctx.oblige("forced_rerun_leaves_complete_valid_set", _valid_set(ctx, F, ns, p, opts["compress"]), detail={"opts": opts, "after_fault": fault1, "fault_op": fop})
    if second == "T" and kind == "NP2.1":
        ctx.oblige("forced_rerun_np21_does_not_raise", not isinstance(r2, Exception), detail={"exception": repr(r2)[:200], "opts": opts})
    if third is None or (not bool(F.exists(ORIG)) and kind == "NP2.4"):
        return
    log3 = {}
    r3 = _run(ctx, F, raw, ns, p, kind, opts, third == "T", None, log3)
    ctx.oblige("original_recoverable_after_run3", _recoverable(ctx, F, raw, ns, p, kind), detail={"opts": opts})
    if third == "T" and kind == "NP2.4" and not isinstance(r2, Exception):
        ctx.oblige("forced_rerun_does_not_raise", not isinstance(r3, Exception), detail={"exception": repr(r3)[:200], "opts": opts})
        if not isinstance(r3, Exception):
            ctx.oblige("forced_rerun_leaves_complete_valid_set", r3 == 1 and _valid_set(ctx, F, ns, p, opts["compress"]), detail={"opts": opts})


def case_same_object(ctx, kind, ns, seq):
    """history on ONE converter object: process(overwrite=seq[0]), process(overwrite=seq[1]), ... (no interruption)"""
    import neuropixel
    F, raw, nc = _mk_original(kind, ns)
    opts = {"post_check": bool(ctx.bool("post_check")), "compress": bool(ctx.bool("compress")), "delete_original": False}
    p = ctx.int("p", 0, ns - 1)
    conv = ctx.call("converter", neuropixel.NP2Converter, FakePath(ORIG), post_check=opts["post_check"], delete_original=False, compress=opts["compress"])
    conv.init_params(nwindow=1200)
    have_output = False
    for k, ow in enumerate(seq):
        m0 = F.nmut
        try:
            r = conv.process(overwrite=(ow == "T"))
        except Exception as e:  # noqa
            ctx.oblige("same_object_run_does_not_raise", False, detail={"run": k, "seq": seq, "opts": opts, "exception": repr(e)[:200]})
            return
        mut = F.nmut - m0
        ctx.oblige("original_recoverable_after_every_run", _recoverable(ctx, F, raw, ns, p, kind), detail={"run": k, "seq": seq, "opts": opts})
        if have_output and ow == "F":
            ctx.oblige("repeated_run_without_overwrite_does_nothing", r == 0 and mut == 0, detail={"run": k, "seq": seq, "status": r, "mutations": mut, "opts": opts})
        else:
            ctx.oblige("run_that_must_convert_reports_one", r == 1, detail={"run": k, "seq": seq, "status": r, "opts": opts})
        if kind == "NP2.4":
            ctx.oblige("complete_valid_set_after_every_run", _valid_set(ctx, F, ns, p, opts["compress"]), detail={"run": k, "seq": seq, "opts": opts, "status": r})
        have_output = True


def case_shank_subset(ctx, ns):
    """only some of the shanks are split (init_params(nshank=[0])): whatever the run answers, the original stays recoverable -
    it may only disappear when EVERY channel lives in a verified split file"""
    import neuropixel
    F, raw, nc = _mk_original("NP2.4", ns)
    opts = {"post_check": bool(ctx.bool("post_check")), "compress": bool(ctx.bool("compress")), "delete_original": bool(ctx.bool("delete_original"))}
    p = ctx.int("p", 0, ns - 1)
    conv = ctx.call("converter", neuropixel.NP2Converter, FakePath(ORIG), post_check=opts["post_check"], delete_original=opts["delete_original"], compress=opts["compress"])
    conv.init_params(nwindow=1200, nshank=[0])
    # the shanks left out carry signal (at least one non-zero sample): a comparison with the partial split cannot succeed by accident
    other = [c for c in range(nc - 1) if MAP[c] != 0]
    ctx.assume(not_(core.eq(np2env.raw_elem(0, other[0]), 0)))
    try:
        conv.process()
    except AssertionError:
        pass            # the verification may refuse a partial split
    ctx.oblige("original_recoverable_after_a_partial_split", _recoverable(ctx, F, raw, ns, p, "NP2.4"), detail={"opts": opts})


def case_delete_without_check(ctx, ns, after):
    """the deletion step called directly on a converter whose verification never ran must leave the original alone"""
    import neuropixel
    F, raw, nc = _mk_original("NP2.4", ns)
    post_check = bool(ctx.bool("post_check"))
    conv = ctx.call("converter", neuropixel.NP2Converter, FakePath(ORIG), post_check=post_check, delete_original=True, compress=False)
    conv.init_params(nwindow=1200)
    if after == "rerun":
        # a first converter produced the split files (unverified); this one finds them and does nothing
        first = neuropixel.NP2Converter(FakePath(ORIG), post_check=False, delete_original=False, compress=False)
        first.init_params(nwindow=1200)
        ctx.call("first_run", first.process)
        r = ctx.call("rerun", conv.process)
        ctx.oblige("rerun_does_nothing", r == 0, detail={"status": r})
    ctx.call("delete_step", conv.delete_NP24)
    ctx.oblige("original_kept_when_no_verification_was_completed", _orig_intact(F, raw) and conv.check_completed is not True, detail={"post_check": post_check, "after": after})


def case_failed_verification(ctx, ns, shank):
    """a split file is damaged after the split; the verification step then either finds the (arbitrary) new content equal
    or reports the mismatch - after a reported mismatch the deletion step must leave the original alone"""
    import neuropixel
    F, raw, nc = _mk_original("NP2.4", ns)
    conv = ctx.call("converter", neuropixel.NP2Converter, FakePath(ORIG), post_check=False, compress=False, delete_original=True)
    conv.init_params(nwindow=1200)
    r = ctx.call("process", conv.process)
    ctx.oblige("unverified_run_keeps_the_original", r == 1 and _orig_intact(F, raw), detail={"status": r})
    f = F.get(f"/s/probe00{chr(97 + shank)}/x.imec0.ap.bin")
    if not ctx.oblige("split_file_written", f is not None and bool(f.exists) and isinstance(f.content, list) and len(f.content) > 0):
        return
    rec = f.content[0]
    rec["array"] = np2env.raw_array(rec["array"].shape[0], rec["array"].shape[1], name="DAMAGED", aid="damaged")
    reported = False
    try:
        conv.check_NP24()
    except AssertionError:
        reported = True
    ctx.call("delete_step", conv.delete_NP24)
    if reported:
        ctx.oblige("failed_verification_does_not_mark_the_check_completed", conv.check_completed is not True, detail={"check_completed": conv.check_completed})
        ctx.oblige("original_kept_after_a_failed_verification", _orig_intact(F, raw))
    else:
        ctx.oblige("original_removed_only_after_successful_verification", conv.check_completed is True)


def case_rerun_other_options(ctx, kind, ns):
    """a repeated run WITHOUT overwrite whose options differ from the first run's (compress / post_check flipped freely):
    it still changes nothing on disk and reports that it did nothing"""
    F, raw, nc = _mk_original(kind, ns)
    opts1 = {"post_check": bool(ctx.bool("post_check")), "compress": bool(ctx.bool("compress")), "delete_original": False}
    opts2 = {"post_check": bool(ctx.bool("post_check_second_run")), "compress": bool(ctx.bool("compress_second_run")), "delete_original": False}
    p = ctx.int("p", 0, ns - 1)
    log1, log2 = {}, {}
    r1 = _run(ctx, F, raw, ns, p, kind, opts1, False, None, log1)
    if not ctx.oblige("first_run_status_one", (not isinstance(r1, Exception)) and r1 == 1, detail={"status": repr(r1)[:100], "opts": opts1}):
        return
    r2 = _run(ctx, F, raw, ns, p, kind, opts2, False, None, log2)
    ctx.oblige("original_recoverable_after_run2", _recoverable(ctx, F, raw, ns, p, kind), detail={"opts": opts1, "opts2": opts2})
    ctx.oblige("repeated_run_without_overwrite_does_nothing", (not isinstance(r2, Exception)) and r2 == 0 and log2["mut"] == 0,
               detail={"status": repr(r2)[:100], "mutations": log2["mut"], "opts": opts1, "opts2": opts2})


def case_compress_step_repeated(ctx, ns):
    """one converter object: process() and then the public compression step called again (twice): whatever the repeated call
    answers (it may refuse), the samples stay recoverable and the split set stays complete"""
    import neuropixel
    F, raw, nc = _mk_original("NP2.4", ns)
    opts = {"post_check": bool(ctx.bool("post_check")), "compress": bool(ctx.bool("compress")), "delete_original": bool(ctx.bool("delete_original"))}
    p = ctx.int("p", 0, ns - 1)
    conv = ctx.call("converter", neuropixel.NP2Converter, FakePath(ORIG), post_check=opts["post_check"], delete_original=opts["delete_original"], compress=opts["compress"])
    conv.init_params(nwindow=1200)
    r = ctx.call("process", conv.process)
    ctx.oblige("first_run_status_one", r == 1, detail={"status": r})
    for k in range(2):
        try:
            conv.compress_NP24()
        except (AssertionError, FileNotFoundError, OSError):
            pass        # a repeated call may refuse
        ctx.oblige("original_recoverable_after_repeated_compress_step", _recoverable(ctx, F, raw, ns, p, "NP2.4"), detail={"opts": opts, "call": k})
        ctx.oblige("split_set_complete_after_repeated_compress_step", _valid_set(ctx, F, ns, p, True), detail={"opts": opts, "call": k})


def cases(tier):
    b = bounds(tier)
    cs = []
    for kind in ("NP2.1", "NP2.4"):
        cs.append(Case(f"{kind.lower().replace('.', '')}_rerun_other_options", "case_rerun_other_options", {"kind": kind, "ns": 600}, timeout_s=2400))
    cs.append(Case("np24_compress_step_repeated", "case_compress_step_repeated", {"ns": 600}, timeout_s=2400))
    cs.append(Case("np24_shank_subset", "case_shank_subset", {"ns": 600}, timeout_s=2400))
    for after in ("nothing", "rerun"):
        cs.append(Case(f"np24_delete_step_after_{after}", "case_delete_without_check", {"ns": 600, "after": after}, timeout_s=2400))
    for sh in ((0,) if tier == "quick" else (0, 1)):
        cs.append(Case(f"np24_failed_verification_shank{sh}", "case_failed_verification", {"ns": 600, "shank": sh}, timeout_s=2400))
    for seq in (["FFT", "FTF"] if tier == "quick" else ["FFT", "FTF", "TFT", "FFFT", "FTT"]):
        cs.append(Case(f"np24_same_object_{seq}", "case_same_object", {"kind": "NP2.4", "ns": 600, "seq": seq}, timeout_s=2400))
    cs.append(Case("np21_same_object_FFT", "case_same_object", {"kind": "NP2.1", "ns": 600, "seq": "FFT"}, timeout_s=2400))
    for ns in b["ns"]:
        # uninterrupted histories
        for ow1 in (False, True):
            for second in (None, "F", "T"):
                cs.append(Case(f"np24_ns{ns}_ow{int(ow1)}_then{second}", "case_history", {"kind": "NP2.4", "ns": ns, "fault1": None, "overwrite1": ow1, "second": second}, timeout_s=2400))
        cs.append(Case(f"np24_ns{ns}_run_rerun_force", "case_history", {"kind": "NP2.4", "ns": ns, "fault1": None, "overwrite1": False, "second": "F", "third": "T"}, timeout_s=2400))
        # interrupted first run, then retry forced / not forced
        for k in range(0, b["max_ops"], b["fault_stride"]):
            cs.append(Case(f"np24_ns{ns}_fault{k}_thenT", "case_history", {"kind": "NP2.4", "ns": ns, "fault1": k, "overwrite1": False, "second": "T"}, timeout_s=2400))
    if tier == "thorough":
        # a complete run, then a forced re-run interrupted at every operation, then a forced re-run
        for k in range(0, b["max_ops"], 2):
            cs.append(Case(f"np24_complete_then_fault{k}_thenT", "case_history", {"kind": "NP2.4", "ns": 600, "fault1": None, "overwrite1": False, "second": "T", "third": "T", "fault2": k}, timeout_s=2400))
    for second in (None, "F", "T"):
        cs.append(Case(f"np21_then{second}", "case_history", {"kind": "NP2.1", "ns": 600, "fault1": None, "overwrite1": False, "second": second}, timeout_s=2400))
    for second in ("F", "T"):
        cs.append(Case(f"np21_cbin_input_then{second}", "case_history", {"kind": "NP2.1", "ns": 600, "fault1": None, "overwrite1": False, "second": second, "compressed_input": True}, timeout_s=2400))
    cs.append(Case("np21_overwrite_fresh", "case_history", {"kind": "NP2.1", "ns": 600, "fault1": None, "overwrite1": True, "second": None}, timeout_s=2400))
    for k in range(0, 60, b["fault_stride"]):
        cs.append(Case(f"np21_fault{k}_thenT", "case_history", {"kind": "NP2.1", "ns": 600, "fault1": k, "overwrite1": False, "second": "T"}, timeout_s=2400))
    cs.append(Case("np1", "case_history", {"kind": "NP1", "ns": 600, "fault1": None, "overwrite1": False, "second": "T"}))
    cs.append(Case("already_split", "case_history", {"kind": "split", "ns": 600, "fault1": None, "overwrite1": False, "second": "T"}))
    return cs


def twins(tier):
    m = "neuropixel"
    un = ["np24_ns600_ow0_thenNone", "np24_ns600_ow0_thenF", "np24_ns600_ow0_thenT"]
    return [
        Twin("delete_without_verification", m, "        if self.check_completed and self.delete_original:", "        if self.delete_original:", un),
        Twin("flag_initially_true", m, "        self.check_completed = False", "        self.check_completed = True", un),
        Twin("already_exists_inverted", m, "            if not probe_path.exists() or overwrite:", "            if probe_path.exists() or overwrite:", un),
        Twin("np21_unlink_before_compress", m, "                cbin_file = self.sr.compress_file()\n                self.sr.close()\n                self.ap_file.unlink()",
             "                self.sr.close()\n                self.ap_file.unlink()\n                cbin_file = self.sr.compress_file()", ["np21_thenNone"] + [f"np21_fault{k}_thenT" for k in range(0, 60, 3)]),
        Twin("check_completed_before_the_comparison", m, "        for sh in self.shank_info.keys():\n            self.shank_info[sh][\"sr\"] = spikeglx.Reader(self.shank_info[sh][\"ap_file\"], sort=False)\n        wg = WindowGenerator(self.nsamples, self.samples_window, 0)",
             "        self.check_completed = True\n        for sh in self.shank_info.keys():\n            self.shank_info[sh][\"sr\"] = spikeglx.Reader(self.shank_info[sh][\"ap_file\"], sort=False)\n        wg = WindowGenerator(self.nsamples, self.samples_window, 0)", ["np24_failed_verification_shank0"]),
        Twin("already_exists_sticky", m, "        shank_info = {}\n        self.already_exists = False\n\n        for sh in n_shanks:", "        shank_info = {}\n        self.already_exists = getattr(self, \"already_exists\", False)\n\n        for sh in n_shanks:", ["np24_same_object_FFT"]),
        Twin("rerun_reprocesses", m, "        if self.already_exists:\n            _logger.warning(\n                \"One or more of the sub shank folders already exists, \"\n                \"to force reprocessing set overwrite to True\"\n            )\n            return 0",
             "        if self.already_exists and False:\n            return 0", ["np24_ns600_ow0_thenF"]),
    ]


def replay(case, params, cex):
    m = cex["model"]
    opts = {"post_check": bool(m.get("post_check")), "compress": bool(m.get("compress")), "delete_original": bool(m.get("delete_original"))}
    kind, ns = params.get("kind", "NP2.4"), params["ns"]
    fault1, ow1, second, third = params.get("fault1"), params.get("overwrite1", False), params.get("second"), params.get("third")
    full = _replay_text(cex, opts, kind, ns, fault1, ow1, second, third, compressed=bool(params.get("compressed_input")))
    if "shank_subset" in case:
        return full.split("from symex import realfault")[0] + f"""
conv = neuropixel.NP2Converter(orig, post_check=opts['post_check'], delete_original=opts['delete_original'], compress=opts['compress'])
conv.init_params(nwindow=1200, nshank=[0])
try:
    st = conv.process()
    print('status', st)
except AssertionError as e:
    print('verification refused the partial split:', e)
if not recoverable(): reproduced(f'after splitting only shank 0 (options {{opts}}) the original is gone and the other shanks exist nowhere: {{listing()}}')
not_reproduced()
"""
    if "delete_step_after" in case:
        return full.split("from symex import realfault")[0] + f"""
after, post_check = {params['after']!r}, {bool(m.get('post_check'))}
if after == 'rerun':
    first = neuropixel.NP2Converter(orig, post_check=False, delete_original=False, compress=False); first.init_params(nwindow=1200); first.process()
conv = neuropixel.NP2Converter(orig, post_check=post_check, delete_original=True, compress=False)
conv.init_params(nwindow=1200)
if after == 'rerun': print('re-run status', conv.process())
conv.delete_NP24()
print('check_completed', conv.check_completed, 'original exists', orig.exists())
if not orig.exists(): reproduced(f'delete_NP24() removed the original although no verification was completed (post_check={{post_check}}, after {{after}})')
not_reproduced()
"""
    if "failed_verification" in case:
        return full.split("from symex import realfault")[0] + f"""
shank = {params['shank']}
conv = neuropixel.NP2Converter(orig, post_check=False, compress=False, delete_original=True)
conv.init_params(nwindow=1200)
st = conv.process()
f = root / 's' / f'probe00{{chr(97 + shank)}}' / 'x.imec0.ap.bin'
a = np.fromfile(f, dtype=np.int16); a[:5] += 7; a.tofile(f)          # damage the split file
reported = False
try:
    conv.check_NP24()
except AssertionError as e:
    reported = True
conv.delete_NP24()
print('status', st, 'mismatch reported', reported, 'check_completed', conv.check_completed, 'original exists', orig.exists())
if not reported: not_reproduced('the verification did not report the damaged file')
if conv.check_completed is True or not orig.exists(): reproduced(f'after a FAILED verification check_completed={{conv.check_completed}} and the deletion step removed the original: {{not orig.exists()}}')
not_reproduced()
"""
    if "rerun_other_options" in case:
        opts["delete_original"] = False
        opts2 = {"post_check": bool(m.get("post_check_second_run")), "compress": bool(m.get("compress_second_run")), "delete_original": False}
        full = _replay_text(cex, opts, kind, ns, None, False, None, None)
        return full.split("from symex import realfault")[0] + f"""
opts2 = {opts2}
def one(o):
    conv = neuropixel.NP2Converter(orig if orig.exists() else d / 'x.imec0.ap.cbin', post_check=o['post_check'], delete_original=False, compress=o['compress'])
    conv.init_params(nwindow=1200)
    return conv.process()
st1 = one(opts); before = listing()
try:
    st2 = one(opts2)
except Exception as e:
    reproduced(f'repeated run without overwrite (options {{opts2}} after {{opts}}) raised {{type(e).__name__}}: {{e}}')
after = listing()
print(st1, st2, before, after)
if st2 != 0 or after != before: reproduced(f'repeated run without overwrite (options {{opts2}} after a first run with {{opts}}): status {{st2}}, removed {{sorted(set(before) - set(after))}}, created {{sorted(set(after) - set(before))}}')
not_reproduced()
"""
    if "compress_step_repeated" in case:
        return full.split("from symex import realfault")[0] + f"""
conv = neuropixel.NP2Converter(orig, post_check=opts['post_check'], delete_original=opts['delete_original'], compress=opts['compress'])
conv.init_params(nwindow=1200)
st = conv.process()
for k in range(2):
    try:
        conv.compress_NP24()
    except (AssertionError, FileNotFoundError, OSError) as e:
        print('repeated compress_NP24() refused:', type(e).__name__, e)
    if not recoverable(): reproduced(f'after process() (options {{opts}}) and {{k + 1}} more call(s) of compress_NP24() the samples exist nowhere any more: {{listing()}}')
    if not all(shank_ok(s) for s in (0, 1)): reproduced(f'per-shank set incomplete after {{k + 1}} repeated compress_NP24() call(s): {{listing()}}')
not_reproduced()
"""
    if "same_object" in case:
        opts["delete_original"] = False
        full = _replay_text(cex, opts, kind, ns, fault1, ow1, second, third)
        return full.split("from symex import realfault")[0] + f"""
seq = {params['seq']!r}
conv = neuropixel.NP2Converter(orig, post_check=opts['post_check'], delete_original=False, compress=opts['compress'])
conv.init_params(nwindow=1200)
bad = []; have = False
for k, ow in enumerate(seq):
    before = listing()
    try:
        st = conv.process(overwrite=(ow == 'T'))
    except Exception as e:
        bad.append(f'run {{k}} of {{seq}} on the same converter raised {{type(e).__name__}}: {{e}}'); break
    for sh in getattr(conv, 'shank_info', {{}}).values():
        for key, f in sh.items():
            if key.endswith('open_file') and hasattr(f, 'flush') and not f.closed: f.flush()
    if have and ow == 'F':
        if st != 0 or listing() != before: bad.append(f'run {{k}}: repeated run without overwrite: status {{st}}, listing changed {{listing() != before}}')
    elif st != 1: bad.append(f'run {{k}} (overwrite={{ow}}) reports status {{st}} instead of 1')
    if kind == 'NP2.4' and not all(shank_ok(s) for s in (0, 1)):
        bad.append(f'run {{k}} (overwrite={{ow}}) does not leave a complete valid set of per-shank files: ' + str([(str(p.relative_to(root)), p.stat().st_size) for p in sorted(root.rglob('*.ap.*bin'))]))
    if not recoverable(): bad.append(f'original not recoverable after run {{k}}')
    have = True
print(bad)
if bad: reproduced(str(bad))
not_reproduced()
"""
    return full


def _replay_text(cex, opts, kind, ns, fault1, ow1, second, third, compressed=False):
    return f"""
import sys, tempfile, pathlib, shutil, hashlib, builtins, os
sys.path.insert(0, '/verif')
from symex import sglx, np2env
import spikeglx, neuropixel, mtscomp
kind, ns, opts = {kind!r}, {ns}, {opts}
fault1, ow1, second, third = {fault1!r}, {ow1}, {second!r}, {third!r}
MAP = {MAP}; n = len(MAP); nc = n + 1
root = pathlib.Path(tempfile.mkdtemp()); d = root / 's' / 'probe00'; d.mkdir(parents=True)
rs = np.random.default_rng(0); data = rs.integers(-3000, 3000, size=(ns, nc)).astype(np.int16)
T = format(ns / 30000.0, '.12f'); extra = ['fileSHA1=ABCDEF', f'fileSizeBytes={{ns * nc * 2}}']
if kind == 'NP2.4': txt = np2env.np24_meta_text(n, MAP, T, extra=extra)
elif kind == 'split': txt = np2env.np24_meta_text(n, MAP, T, extra=extra + ['NP2.4_shank=1'])
elif kind == 'NP2.1': txt = sglx.imec_meta_text('NP2.1', [(0, i % 2, i // 2) for i in range(n)], ns=T, fs_hz='30000', extra=extra)
else: txt = sglx.imec_meta_text('3B2', [(0, i % 2, i // 2) for i in range(n)], ns=T, fs_hz='30000', extra=extra)
(d / 'x.imec0.ap.meta').write_text(txt); data.tofile(d / 'x.imec0.ap.bin')
if {compressed}:        # the recording arrives already compressed
    _sr = spikeglx.Reader(d / 'x.imec0.ap.bin'); _sr.compress_file(keep_original=False); _sr.close()
orig = d / 'x.imec0.ap.bin'
def listing():
    return sorted((str(p.relative_to(root)), p.stat().st_size) for p in root.rglob('*') if p.is_file())
def shank_ok(s):
    chns = [i for i, x in enumerate(MAP) if x == s] + [n]
    dd = root / 's' / f'probe00{{chr(97 + s)}}'
    for nm in ('x.imec0.ap.bin', 'x.imec0.ap.cbin'):
        f = dd / nm
        if not f.exists(): continue
        try:
            if nm.endswith('cbin'):
                r = mtscomp.Reader(); r.open(f, dd / 'x.imec0.ap.ch'); a = r[:, :]; r.close()
            else:
                a = np.fromfile(f, dtype=np.int16).reshape(-1, len(chns))
            if a.shape == (ns, len(chns)) and np.array_equal(a, data[:, chns]) and (dd / 'x.imec0.ap.meta').exists(): return True
        except Exception as e:
            pass
    return False
def recoverable():
    if orig.exists() and np.array_equal(np.fromfile(orig, dtype=np.int16).reshape(ns, nc), data): return True
    if kind == 'NP2.4': return all(shank_ok(s) for s in (0, 1))
    if kind == 'NP2.1':
        try:
            r = mtscomp.Reader(); r.open(d / 'x.imec0.ap.cbin', d / 'x.imec0.ap.ch'); ok = np.array_equal(r[:, :], data); r.close(); return ok
        except Exception: return False
    return False
from symex import realfault
fault_op = {cex['detail'].get('fault_op')!r}
if fault1 is not None and not fault_op: not_reproduced('no interrupted operation recorded for this counterexample')
def run(overwrite, plan):
    ap = orig if orig.exists() else d / 'x.imec0.ap.cbin'
    before = listing()
    un = realfault.install(plan) if plan is not None else (lambda: None)
    try:
        conv = neuropixel.NP2Converter(ap, post_check=opts['post_check'], delete_original=opts['delete_original'], compress=opts['compress'])
        conv.init_params(nwindow=1200)
        return conv.process(overwrite=overwrite), before
    finally:
        un()
bad = []
plan = None
if fault1 is not None:
    # map the fake path (/s/...) onto the temporary directory
    plan = realfault.Plan(fault_op[0], str(root) + fault_op[1], fault_op[2])
try:
    r1, before = run(ow1, plan)
    if plan is not None and not plan.fired: not_reproduced(f'the interrupted operation {{fault_op}} was not reached in the real run')
except realfault.Boom as e:
    r1 = e
    print('interrupted:', e)
except Exception as e:
    r1 = e
    if fault1 is None: bad.append(f'run 1 (overwrite={{ow1}}, opts={{opts}}) raised {{type(e).__name__}}: {{e}}')
    elif plan is not None and not plan.fired: bad.append(f'run 1 raised {{type(e).__name__}}: {{e}} before the injected interruption')
if not recoverable(): bad.append('original not recoverable after run 1')
if not isinstance(r1, Exception):
    if kind == 'NP1' and r1 != -1: bad.append('NP1 status')
    if kind == 'split' and r1 != 0: bad.append('already split status')
    if kind in ('split', 'NP1') and listing() != before: bad.append(f'a run that must do nothing changed the files on disk: {{sorted(set(listing()) ^ set(before))[:6]}}')
    if kind == 'NP2.4' and not orig.exists() and not (opts['post_check'] and opts['delete_original']): bad.append('original deleted without verification')
if second is not None and (orig.exists() or kind != 'NP2.4'):
    before = listing()
    try:
        r2 = neuropixel.NP2Converter(orig if orig.exists() else d / 'x.imec0.ap.cbin', post_check=opts['post_check'], delete_original=opts['delete_original'], compress=opts['compress'])
        r2.init_params(nwindow=1200); st2 = r2.process(overwrite=(second == 'T'))
        if second == 'F' and kind in ('NP2.4', 'NP2.1') and (st2 != 0 or listing() != before): bad.append(f'repeated run without overwrite: status {{st2}}, listing changed {{listing() != before}}')
        if second == 'T' and kind == 'NP2.4' and st2 != 1: bad.append('forced rerun status')
        if second == 'T' and kind == 'NP2.4' and st2 == 1 and not all(shank_ok(s) for s in (0, 1)):
            bad.append('forced re-run does not leave a complete valid set of per-shank files: ' + str([(str(p.relative_to(root)), p.stat().st_size) for p in sorted(root.rglob('*.ap.*bin'))]))
    except Exception as e:
        bad.append(f'run 2 (overwrite={{second}}, opts={{opts}}) raised {{type(e).__name__}}: {{e}}')
    if not recoverable(): bad.append('original not recoverable after run 2')
print(bad)
if bad: reproduced(str(bad))
not_reproduced()
"""

# level text addendum (cases added after the seeded-change rounds)
LEVEL_TEXT = LEVEL_TEXT + ' Also: histories on one converter object, a failed verification followed by the deletion step, the deletion step without any verification, a shank subset, NP2.1 input that arrives compressed, do-nothing runs leave the directory listing unchanged.'
LEVEL_TEXT = LEVEL_TEXT + " Round 6: a repeated run without overwrite whose compress / post_check options differ from the first run's, and the public compression step called again on the same converter."
