"""
C20 - Counting / stacking / smoothing utilities conserve what they must (the solver-decidable clauses).
Rank-reduction (SVD), frequency-domain smoothing and the non-uniform Savitzky-Golay filter are numeric linear algebra
and stay outside.
"""
import numpy as np
import z3

from symex import arrays, core, purity, stubs
from symex.core import SInt, all_, and_, any_, implies, ite, not_, or_
from symex.harness import Case, Twin

PROPERTY = "C20"
FUNCTIONS = ["ibldsp.smooth.non_uniform_savgol", "ibldsp.spiketrains._spikes_venn", "spikes_venn2", "spikes_venn3", "iblutil.numerical.bincount2D (executed symbolically)", "ibldsp.voltage.stack", "ibldsp.smooth.rolling_window"]
ASSUMPTIONS = [
    "Venn counting: 2-3 sorters with up to 2 spikes each, sorted sample times and channels symbolic on a tiny grid (samples_binsize=2, chunk_size 4 or 6, channels_binsize=2, 4 channels); tqdm/print are side effects",
    "stack: labels symbolic in {0,1,2} on up to 4 traces (np.unique forks), one sample per trace, aggregation by sum / mean and the default np.nanmean with a symbolic missing-sample (NaN) flag per trace",
    "non_uniform_savgol: three fixed abscissa patterns (uniform, irregular, clustered), polynomial coefficients symbolic: the output is a linear term in them and each error coefficient must vanish up to 1e-4 relative (the matrix inverse is the real NumPy one on concrete numbers)",
    "rolling_window: concrete length n <= 9 with symbolic values, window lengths 3..8 (odd and even), all five window kinds; window weights are the doubles NumPy computes (a constant is returned within 1e-12 relative)",
]
OUTSIDE = ["cadzow / svd_denoise_npx (LAPACK SVD)", "smooth.lp (FFT)", "non_uniform_savgol on SYMBOLIC abscissae (inverse of a symbolic Vandermonde matrix) and smooth_interpolate_savgol's NaN gap filling (scipy interp1d)", "stack headers beyond two numeric vectors"]
EXPLANATION = "spike times/channels fork through searchsorted and the per-bin masks; counts are ITE sums."
LEVEL_TEXT = ("For all spike times and channels on the grid z3 decides that every spike of every sorter is attributed to exactly one Venn region (per-sorter region sums equal the sorter's spike count) and that the result does not depend on the chunk size; "
              "stacking returns one row per distinct label in ascending order holding the aggregate of exactly that label's traces with the right fold; the rolling window keeps the input length and returns constants unchanged.")
LEVEL_NOTE = "Trusted: z3, SymArray models of searchsorted/bincount/ravel_multi_index/unique (documented contracts), np.convolve stub (validated against NumPy on every run)."


def bounds(tier):
    return {"spikes": 2, "chunks": [4, 6] if tier == "quick" else [4, 6, 8], "stack_ntr": 3 if tier == "quick" else 4}


def setup():
    import os
    import ibldsp.spiketrains as st
    import ibldsp.voltage as v
    import ibldsp.smooth as sm
    import iblutil.numerical as num
    stubs.validate_convolve(int(os.environ.get("VERIF_SEED", "0") or 0))
    arrays.patch_module(st)
    arrays.patch_module(v)
    from symex import pdfacade
    v.pd = pdfacade.PD            # stack(header=...) groups the header vectors with pandas
    arrays.patch_module(sm)
    del sm.int, sm.float          # smooth.py tests `type(window) is not int`: keep the builtin names there
    arrays.patch_module(num)
    st.tqdm = stubs.Namespace(None, tqdm=lambda x, **k: x)
    st.print = lambda *a, **k: None


def _sorter(ctx, tag, n, tmax, nch):
    s = [ctx.int(f"{tag}s{i}", 0, tmax - 1) for i in range(n)]
    for i in range(n - 1):
        ctx.assume(s[i] <= s[i + 1])
    c = [ctx.int(f"{tag}c{i}", 0, nch - 1) for i in range(n)]
    return s, c


def case_venn(ctx, nsorters, nsp, chunk_a, chunk_b):
    import ibldsp.spiketrains as st
    nch = 4
    tmax = 2 * max(chunk_a, chunk_b)
    nsps = list(nsp) if isinstance(nsp, (list, tuple)) else [nsp] * nsorters
    sorters = [_sorter(ctx, "abc"[k], nsps[k], tmax, nch) for k in range(nsorters)]
    fn = st.spikes_venn2 if nsorters == 2 else st.spikes_venn3

    def run(chunk):
        samples = tuple(arrays.mk(list(s), tag=np.dtype(np.int64)) for s, c in sorters)
        chans = tuple(arrays.mk(list(c), tag=np.dtype(np.int64)) for s, c in sorters)
        return ctx.call(f"venn_chunk{chunk}", fn, samples, chans, samples_binsize=2, channels_binsize=2, fs=30000, num_channels=nch, chunk_size=chunk)
    ra = run(chunk_a)
    names = sorted(ra.keys())
    ctx.oblige("all_regions_reported", names == sorted(format(i, f"0{nsorters}b") for i in range(1, 2 ** nsorters)), detail={"names": names})
    for k in range(nsorters):
        tot = 0
        for name in names:
            if name[k] == "1":
                tot = tot + ra[name]
        ctx.oblige("every_spike_of_a_sorter_in_exactly_one_region", core.eq(tot, nsps[k]), detail={"sorter": k, "sum": tot, "chunk": chunk_a, "result": {n: ra[n] for n in names}})
    for name in names:
        ctx.oblige("region_counts_non_negative", ra[name] >= 0)
    if chunk_b != chunk_a:
        rb = run(chunk_b)
        for k in range(nsorters):
            tot = 0
            for name in names:
                if name[k] == "1":
                    tot = tot + rb[name]
            ctx.oblige("every_spike_of_a_sorter_in_exactly_one_region", core.eq(tot, nsps[k]), detail={"sorter": k, "sum": tot, "chunk": chunk_b})


def case_stack(ctx, ntr, agg):
    import ibldsp.voltage as v
    labels = [ctx.int(f"w{i}", 0, 2) for i in range(ntr)]
    data = [ctx.real(f"d{i}") for i in range(ntr)]
    fcn = {"sum": np.sum, "mean": np.mean}[agg]
    d_arr, l_arr = arrays.mk(list(data), shape=(ntr, 1), tag=np.dtype(float)), arrays.mk(list(labels), tag=np.dtype(np.int64))
    res = ctx.call("stack", v.stack, d_arr, l_arr, fcn_agg=fcn)
    res2 = ctx.call("stack", v.stack, d_arr, l_arr, fcn_agg=fcn)
    purity.oblige_same_result(ctx, "second_identical_call_gives_the_same_stack", [res[0], np.asarray(res[1])], [res2[0], np.asarray(res2[1])])
    stk, fold = res
    lv = [int(ctx.concretize(core._it(l))) if isinstance(l, core.Sym) else int(l) for l in labels]
    groups = sorted(set(lv))
    if not ctx.oblige("one_row_per_distinct_label", tuple(stk.shape) == (len(groups), 1) and len(fold) == len(groups), detail={"shape": str(stk.shape), "labels": lv}):
        return
    for r, g in enumerate(groups):
        members = [i for i in range(ntr) if lv[i] == g]
        tot = 0
        for i in members:
            tot = tot + data[i]
        exp = tot if agg == "sum" else tot / len(members)
        ctx.oblige("row_is_the_aggregate_of_its_label", core.eq(stk[r, 0], exp), detail={"label": g, "members": members, "agg": agg})
        ctx.oblige("fold_is_the_member_count", int(fold[r]) == len(members), detail={"label": g})


def case_stack_missing_labels(ctx):
    """traces without a label (NaN in the label vector) form one group of their own, as np.unique counts them: its row is the
    aggregate of those traces and its fold their number"""
    import ibldsp.voltage as v
    lab = np.array([np.nan, 1.0, np.nan, 0.0, np.nan])
    data = [ctx.real(f"d{i}", -100, 100) for i in range(5)]
    d_arr = arrays.mk(list(data), shape=(5, 1), tag=np.dtype(float))
    stk, fold = ctx.call("stack", v.stack, d_arr, lab, fcn_agg=np.mean)
    if not ctx.oblige("one_row_per_distinct_label", tuple(stk.shape) == (3, 1) and len(fold) == 3, detail={"shape": str(stk.shape)}):
        return
    groups = [[3], [1], [0, 2, 4]]          # labels 0, 1, NaN (np.unique order)
    for r, members in enumerate(groups):
        tot = 0
        for i in members:
            tot = tot + data[i]
        got = stk[r, 0]
        ok = core.eq(got, tot / len(members)) if isinstance(got, core.Sym) else False
        ctx.oblige("row_is_the_aggregate_of_its_label", ok, detail={"row": r, "members": members, "got": got})
        ctx.oblige("fold_is_the_member_count", int(fold[r]) == len(members), detail={"row": r})


def case_stack_header(ctx, ntr):
    """stack with a header dictionary: every header vector is averaged per label, in the same (ascending label) order as the stacked rows and the fold"""
    import ibldsp.voltage as v
    labels = [ctx.int(f"w{i}", 0, 2) for i in range(ntr)]
    data = [ctx.real(f"d{i}") for i in range(ntr)]
    hx = [ctx.real(f"hx{i}") for i in range(ntr)]
    header = {"x": arrays.mk(list(hx), tag=np.dtype(float)), "trace": np.arange(ntr, dtype=float)}
    res = ctx.call("stack", v.stack, arrays.mk(list(data), shape=(ntr, 1), tag=np.dtype(float)), arrays.mk(list(labels), tag=np.dtype(np.int64)), fcn_agg=np.mean, header=header)
    stk, hstack = res
    lv = [int(ctx.concretize(core._it(l))) if isinstance(l, core.Sym) else int(l) for l in labels]
    groups = sorted(set(lv))
    if not ctx.oblige("stacked_header_has_the_input_keys_and_the_fold", isinstance(hstack, dict) and {"x", "trace", "fold"} <= set(hstack.keys()), detail={"keys": sorted(hstack.keys()) if isinstance(hstack, dict) else str(type(hstack))}):
        return
    for r, g in enumerate(groups):
        members = [i for i in range(ntr) if lv[i] == g]
        tot = 0
        for i in members:
            tot = tot + hx[i]
        ctx.oblige("header_vector_is_averaged_per_label_in_row_order", len(hstack["x"]) == len(groups) and core.eq(hstack["x"][r] * len(members), tot), detail={"label": g, "row": r, "members": members})
        ctx.oblige("header_vector_is_averaged_per_label_in_row_order", core.eq(hstack["trace"][r] * len(members), sum(members)), detail={"label": g, "row": r, "key": "trace"})
        ctx.oblige("fold_is_the_member_count", int(hstack["fold"][r]) == len(members), detail={"label": g})
        dt = 0
        for i in members:
            dt = dt + data[i]
        ctx.oblige("row_is_the_aggregate_of_its_label", core.eq(stk[r, 0] * len(members), dt), detail={"label": g})


def case_stack_nan(ctx, ntr):
    """default aggregation (np.nanmean): missing samples (NaN) are skipped, a label whose samples are all missing gives NaN"""
    import ibldsp.voltage as v
    labels = [ctx.int(f"w{i}", 0, 2) for i in range(ntr)]
    vals = [ctx.real(f"d{i}") for i in range(ntr)]
    miss = [ctx.bool(f"m{i}") for i in range(ntr)]
    data = [core.SReal(vals[i].t, nan=miss[i].t) for i in range(ntr)]
    res = ctx.call("stack", v.stack, arrays.mk(list(data), shape=(ntr, 1), tag=np.dtype(float)), arrays.mk(list(labels), tag=np.dtype(np.int64)))
    stk, fold = res
    lv = [int(ctx.concretize(core._it(l))) if isinstance(l, core.Sym) else int(l) for l in labels]
    groups = sorted(set(lv))
    if not ctx.oblige("one_row_per_distinct_label", tuple(stk.shape) == (len(groups), 1) and len(fold) == len(groups), detail={"shape": str(stk.shape), "labels": lv}):
        return
    for r, g in enumerate(groups):
        members = [i for i in range(ntr) if lv[i] == g]
        tot, cnt = 0, 0
        for i in members:
            tot = tot + core.ite(miss[i], 0.0, vals[i])
            cnt = cnt + core.ite(miss[i], 0, 1)
        got = stk[r, 0]
        gnan = arrays.s_isnan(got)
        allmiss = core.all_([miss[i] for i in members])
        ctx.oblige("row_is_missing_exactly_when_all_its_samples_are", core.eq(gnan if isinstance(gnan, core.Sym) else bool(gnan), allmiss), detail={"label": g, "members": members})
        gv = core.SReal(got.t) if isinstance(got, core.SReal) else got
        ctx.oblige("row_is_the_mean_of_its_present_samples", core.or_(allmiss, core.eq(gv * cnt, tot)), detail={"label": g, "members": members})
        ctx.oblige("fold_is_the_member_count", int(fold[r]) == len(members), detail={"label": g})


def case_rolling_single_precision(ctx, n, wl, window):
    """a constant signal held in single precision comes back as that constant to 1e-9 (the smoother may not accumulate in float32)"""
    import ibldsp.smooth as sm
    c = ctx.real("c", 1, 100)
    outc = ctx.call("rolling_window_const", sm.rolling_window, arrays.mk([c] * n, tag=np.dtype(np.float32)), window_len=wl, window=window)
    if not ctx.oblige("output_keeps_the_input_length", tuple(outc.shape) == (n,), detail={"shape": str(outc.shape)}):
        return
    for i in range(n):
        ctx.oblige("constant_float32_input_returns_the_constant", and_(outc[i] - c <= c * 1e-9, c - outc[i] <= c * 1e-9), detail={"i": i, "value": outc[i]})


def case_rolling(ctx, n, wl, window):
    import ibldsp.smooth as sm
    xs = [ctx.real(f"x{i}", -100, 100) for i in range(n)]
    x_arr = arrays.mk(list(xs), tag=np.dtype(float))
    out = ctx.call("rolling_window", sm.rolling_window, x_arr, window_len=wl, window=window)
    again = ctx.call("rolling_window", sm.rolling_window, x_arr, window_len=wl, window=window)
    purity.oblige_same_result(ctx, "second_identical_call_gives_the_same_result", out, again)
    ctx.oblige("output_keeps_the_input_length", tuple(out.shape) == (n,), detail={"shape": str(out.shape)})
    # constant input -> the constant
    c = ctx.real("c", 1, 100)
    outc = ctx.call("rolling_window_const", sm.rolling_window, arrays.mk([c] * n, tag=np.dtype(float)), window_len=wl, window=window)
    if tuple(outc.shape) == (n,):
        for i in range(n):
            ctx.oblige("constant_input_returns_the_constant", and_(outc[i] - c <= c * 1e-12, c - outc[i] <= c * 1e-12), detail={"i": i, "value": outc[i]})


SAVGOL_X = {
    "uniform": [0, 1, 2, 3, 4, 5, 6, 7, 8, 9],
    "irregular": [0.0, 0.4, 1.5, 1.9, 3.0, 4.2, 4.5, 6.1, 7.0, 8.8, 9.1],
    "clustered": [0.0, 0.1, 0.2, 2.0, 2.1, 5.0, 5.5, 5.6, 9.0, 9.5],
    # nearly regular sampling (timestamps with a little jitter): consecutive windows have almost, but not exactly, the same local abscissae
    "jittered": [0.0, 1.000002, 2.000001, 2.999997, 4.000003, 5.0, 5.999998, 7.000002, 8.000001, 9.0, 10.000003, 10.999999],
}
SAVGOL_TOL = 1e-9      # relative to max(1, |x|^k); the working tree reaches 3e-12 at worst on these patterns


def case_savgol(ctx, pattern, window, order):
    """the non-uniform Savitzky-Golay filter reproduces every polynomial of degree <= order (symbolic coefficients) on fixed irregular abscissae"""
    import ibldsp.smooth as sm
    x = np.array(SAVGOL_X[pattern], dtype=float)
    cs_ = [ctx.real(f"c{k}", -10, 10) for k in range(order + 1)]
    ys = []
    for xi in x:
        acc = 0
        for k, c in enumerate(cs_):
            acc = acc + c * float(xi ** k)
        ys.append(acc)
    out = ctx.call("non_uniform_savgol", sm.non_uniform_savgol, x, arrays.mk(ys, tag=np.dtype(float)), window, order)
    if not ctx.oblige("savgol_keeps_the_input_length", tuple(out.shape) == (len(x),), detail={"shape": str(out.shape)}):
        return
    for i in range(len(x)):
        d = out[i] - ys[i]
        # d is linear in the symbolic coefficients: every coefficient of the error must vanish up to float rounding
        if not isinstance(d, core.Sym):
            ctx.oblige("savgol_reproduces_polynomials_up_to_its_order", abs(float(d)) <= SAVGOL_TOL, detail={"i": i})
            continue
        errs = []
        for k in range(order + 1):
            sub = [(c.t, z3.RealVal(1 if kk == k else 0)) for kk, c in enumerate(cs_)]
            v = z3.simplify(z3.substitute(d.t, *sub))
            errs.append(abs(float(v.numerator_as_long()) / float(v.denominator_as_long())) if z3.is_rational_value(v) else None)
        scale = [max(1.0, float(abs(x[i]) ** k)) for k in range(order + 1)]
        ctx.oblige("savgol_reproduces_polynomials_up_to_its_order", all(e is not None and e <= SAVGOL_TOL * sc for e, sc in zip(errs, scale)), detail={"i": i, "errors": errs})


def cases(tier):
    b = bounds(tier)
    cs = []
    for pat in SAVGOL_X:
        for (w, o) in ((5, 2), (7, 3)) if tier == "quick" else ((5, 1), (5, 2), (5, 3), (7, 2), (7, 3), (9, 3)):
            cs.append(Case(f"savgol_{pat}_w{w}_o{o}", "case_savgol", {"pattern": pat, "window": w, "order": o}))
    if tier == "quick":
        cs.append(Case("venn2_chunk4_vs4", "case_venn", {"nsorters": 2, "nsp": [2, 1], "chunk_a": 4, "chunk_b": 4}, timeout_s=3300, max_paths=500000))
        cs.append(Case("venn2_chunk6_vs4", "case_venn", {"nsorters": 2, "nsp": [1, 1], "chunk_a": 6, "chunk_b": 4}, timeout_s=3300, max_paths=500000))
        cs.append(Case("venn3_chunk4", "case_venn", {"nsorters": 3, "nsp": [1, 1, 1], "chunk_a": 4, "chunk_b": 4}, timeout_s=3300, max_paths=500000))
    else:
        cs.append(Case("venn2_chunk4_vs4", "case_venn", {"nsorters": 2, "nsp": [2, 2], "chunk_a": 4, "chunk_b": 4}, timeout_s=3500, max_paths=500000))
        cs.append(Case("venn2_chunk6_vs4", "case_venn", {"nsorters": 2, "nsp": [2, 1], "chunk_a": 6, "chunk_b": 4}, timeout_s=3500, max_paths=500000))
        cs.append(Case("venn2_chunk8_vs4", "case_venn", {"nsorters": 2, "nsp": [1, 1], "chunk_a": 8, "chunk_b": 4}, timeout_s=3500, max_paths=500000))
        cs.append(Case("venn3_chunk4", "case_venn", {"nsorters": 3, "nsp": [2, 1, 1], "chunk_a": 4, "chunk_b": 4}, timeout_s=3500, max_paths=500000))
    # chunk sizes that are not a multiple of the time bin (2 samples)
    # a fractional chunk size (the default is 20 * fs, fractional for the usual calibrated sampling rates such as 30000.27 Hz)
    cs.append(Case("venn2_chunk4.5_fractional", "case_venn", {"nsorters": 2, "nsp": [1, 1], "chunk_a": 4.5, "chunk_b": 4.5}, timeout_s=3300, max_paths=500000))
    cs.append(Case("venn2_chunk5_vs3", "case_venn", {"nsorters": 2, "nsp": [1, 1], "chunk_a": 5, "chunk_b": 3}, timeout_s=3300, max_paths=500000))
    for agg in ("sum", "mean"):
        cs.append(Case(f"stack_{agg}", "case_stack", {"ntr": b["stack_ntr"], "agg": agg}))
    cs.append(Case("stack_nanmean_default", "case_stack_nan", {"ntr": b["stack_ntr"]}))
    cs.append(Case("stack_with_header", "case_stack_header", {"ntr": b["stack_ntr"]}))
    cs.append(Case("stack_mean_single_trace", "case_stack", {"ntr": 1, "agg": "mean"}))
    cs.append(Case("stack_missing_labels", "case_stack_missing_labels", {}))
    for window in ("flat", "hanning", "hamming", "bartlett", "blackman"):
        for wl in (3, 4, 5) if tier == "quick" else (3, 4, 5, 6, 7, 8):
            cs.append(Case(f"rolling_{window}_{wl}", "case_rolling", {"n": 7 if tier == "quick" else 9, "wl": wl, "window": window}))
    for window in ("flat", "hanning"):
        cs.append(Case(f"rolling_single_precision_{window}_3", "case_rolling_single_precision", {"n": 6, "wl": 3, "window": window}))
    return cs


def twins(tier):
    b = bounds(tier)
    vn = ["venn2_chunk4_vs4", "venn2_chunk6_vs4", "venn3_chunk4"]
    return [
        Twin("venn_strict", "ibldsp.spiketrains", "venn_info = bin_counts[:, ind] >= (max_per_spike - i)[ind]", "venn_info = bin_counts[:, ind] > (max_per_spike - i)[ind]", vn),
        Twin("venn_one_chunk_short", "ibldsp.spiketrains", "num_chunks = int((max_samples // chunk_size) + 1)", "num_chunks = int(max_samples // chunk_size) or 1", vn),
        Twin("venn_chunk_edge", "ibldsp.spiketrains", "*np.searchsorted(samples, [sample_offset, sample_offset + chunk_size])", "*np.searchsorted(samples, [sample_offset + 1, sample_offset + chunk_size])", vn),
        Twin("stack_wrong_vector", "ibldsp.voltage", "        i2stack = sind == uinds", "        i2stack = sind == word", ["stack_sum", "stack_mean", "stack_nanmean_default"]),
        Twin("savgol_border_origin", "ibldsp.smooth", "            x_i *= x[i] - x[half_window]\n", "            x_i *= x[i] - x[half_window - 1]\n", ["savgol_irregular_w5_o2", "savgol_clustered_w5_o2"]),
        Twin("savgol_window_offset", "ibldsp.smooth", "            t[j] = x[i + j - half_window] - x[i]", "            t[j] = x[i + j - half_window] - x[i - 1]", ["savgol_irregular_w5_o2"]),
        Twin("rolling_sign", "ibldsp.smooth", "return y[round((window_len / 2 - 1)): round(-(window_len / 2))]", "return y[round((window_len / 2 - 1)): round(-(window_len / 2)) - 1]", ["rolling_flat_3", "rolling_hanning_5"]),
        Twin("rolling_not_normalised", "ibldsp.smooth", 'y = np.convolve(w / w.sum(), s, mode="valid")', 'y = np.convolve(w / w.max(), s, mode="valid")', ["rolling_hanning_5", "rolling_blackman_5"]),
    ]


def replay(case, params, cex):
    m = cex["model"]
    from fractions import Fraction
    if case.startswith("venn"):
        ns_, nsp = params["nsorters"], params["nsp"]
        nsps = list(nsp) if isinstance(nsp, (list, tuple)) else [nsp] * ns_
        S = [[m[f"{'abc'[k]}s{i}"] for i in range(nsps[k])] for k in range(ns_)]
        C = [[m[f"{'abc'[k]}c{i}"] for i in range(nsps[k])] for k in range(ns_)]
        return f"""
import ibldsp.spiketrains as st
S = [np.array(s) for s in {S}]; C = [np.array(c) for c in {C}]
fn = st.spikes_venn2 if len(S) == 2 else st.spikes_venn3
bad = []
for chunk in ({params['chunk_a']}, {params['chunk_b']}):
    try:
        r = fn(tuple(S), tuple(C), samples_binsize=2, channels_binsize=2, fs=30000, num_channels=4, chunk_size=chunk)
    except Exception as e:
        bad.append(('raised', chunk, repr(e))); continue
    for k in range(len(S)):
        tot = sum(v for n, v in r.items() if n[k] == '1')
        if tot != len(S[k]): bad.append(('sorter', k, 'region sum', int(tot), 'spikes', len(S[k]), 'chunk', chunk, dict(r)))
print(S, C, bad)
if bad: reproduced(str(bad)[:700])
not_reproduced()
"""
    if case.startswith("stack_with_header"):
        n = params["ntr"]
        lab = [m[f"w{i}"] for i in range(n)]
        d = [float(Fraction(str(m[f"d{i}"]))) for i in range(n)]
        hx = [float(Fraction(str(m[f"hx{i}"]))) for i in range(n)]
        return f"""
import ibldsp.voltage as v
lab = np.array({lab}); d = np.array({d})[:, None]; hx = np.array({hx})
stk, hs = v.stack(d.copy(), lab, fcn_agg=np.mean, header={{'x': hx.copy(), 'trace': np.arange(len(lab), dtype=float)}})
g = np.unique(lab)
ex = np.array([hx[lab == k].mean() for k in g]); et = np.array([np.arange(len(lab))[lab == k].mean() for k in g]); ef = np.array([np.sum(lab == k) for k in g])
print(hs, ex, et, ef)
if not np.allclose(np.asarray(hs['x']), ex) or not np.allclose(np.asarray(hs['trace']), et) or not np.array_equal(np.asarray(hs['fold']), ef):
    reproduced(f"stacked header is not the per-label mean in the order of the stacked rows: x={{np.asarray(hs['x']).tolist()}} expected {{ex.tolist()}} (labels {{lab.tolist()}})")
not_reproduced()
"""
    if case == "stack_missing_labels":
        d = [float(Fraction(str(m.get(f"d{i}", 0)))) for i in range(5)]
        return f"""
import warnings; warnings.simplefilter('ignore')
import ibldsp.voltage as v
lab = np.array([np.nan, 1.0, np.nan, 0.0, np.nan]); d = np.array({d}).reshape(5, 1) + np.arange(5).reshape(5, 1)
stk, fold = v.stack(d, lab, fcn_agg=np.mean)
exp = np.array([[d[3, 0]], [d[1, 0]], [d[[0, 2, 4], 0].mean()]])
print(stk, fold, exp)
if stk.shape != exp.shape or not np.allclose(stk, exp) or list(fold) != [1, 1, 3]: reproduced(f'stack with unlabelled (NaN) traces: rows {{stk.ravel().tolist()}}, fold {{list(fold)}}; expected rows {{exp.ravel().tolist()}}, fold [1, 1, 3]')
not_reproduced()
"""
    if case.startswith("stack_nanmean"):
        n = params["ntr"]
        lab = [m[f"w{i}"] for i in range(n)]
        d = ["float('nan')" if m.get(f"m{i}") else repr(float(Fraction(str(m[f"d{i}"])))) for i in range(n)]
        return f"""
import warnings; warnings.simplefilter('ignore')
import ibldsp.voltage as v
lab = np.array({lab}); d = np.array([{', '.join(d)}])[:, None]
stk, fold = v.stack(d.copy(), lab)
g = np.unique(lab)
exp = np.array([[np.nanmean(d[lab == k])] for k in g]); ef = np.array([np.sum(lab == k) for k in g])
print(stk, fold, exp, ef)
if stk.shape != exp.shape or not np.allclose(stk, exp, equal_nan=True) or not np.array_equal(fold, ef): reproduced('default stack differs from the per-label nanmean')
not_reproduced()
"""
    if case.startswith("stack"):
        n = params["ntr"]
        lab = [m[f"w{i}"] for i in range(n)]
        d = [float(Fraction(str(m[f"d{i}"]))) for i in range(n)]
        return f"""
import ibldsp.voltage as v
lab = np.array({lab}); d = np.array({d})[:, None]; agg = {params['agg']!r}
stk, fold = v.stack(d.copy(), lab, fcn_agg=np.sum if agg == 'sum' else np.mean)
g = np.unique(lab)
exp = np.array([[d[lab == k].sum() if agg == 'sum' else d[lab == k].mean()] for k in g]); ef = np.array([np.sum(lab == k) for k in g])
print(stk, fold, exp, ef)
if stk.shape != exp.shape or not np.allclose(stk, exp) or not np.array_equal(fold, ef): reproduced('stack differs from the per-label aggregate')
not_reproduced()
"""
    if case.startswith("savgol"):
        return f"""
import ibldsp.smooth as sm
x = np.array({SAVGOL_X[params['pattern']]}, dtype=float); w, o = {params['window']}, {params['order']}
bad = []
for k in range(o + 1):
    y = x ** k
    out = sm.non_uniform_savgol(x, y, w, o)
    if out.shape != y.shape or np.max(np.abs(out - y) / np.maximum(1, np.abs(x) ** k)) > {SAVGOL_TOL!r}: bad.append((k, float(np.max(np.abs(out - y)))))
print(bad)
if bad: reproduced(f'non_uniform_savgol(window={{w}}, order={{o}}) does not reproduce x^k on pattern {params['pattern']}: {{bad}}')
not_reproduced()
"""
    if case.startswith("rolling_single_precision"):
        wl, window = params["wl"], params["window"]
        cval = float(Fraction(str(m.get("c", 1))))
        return f"""
import ibldsp.smooth as sm
wl, window, c = {wl}, {window!r}, {cval!r}
bad = []
# the witness is 6 samples long; rounding of a single-precision running sum only shows on long signals: same call, 300000 samples
for n, val in ((6, c), (300000, c), (300000, 0.1)):
    x = np.full(n, val, dtype=np.float32)
    out = sm.rolling_window(x, window_len=wl, window=window)
    err = float(np.max(np.abs(np.asarray(out, dtype=float) - float(np.float32(val)))) / abs(val)) if np.shape(out) == (n,) else None
    print(n, val, np.shape(out), err)
    if err is None or err > 1e-6: bad.append((n, val, err))
if bad: reproduced(f'a constant float32 signal does not come back as the constant (length, value, relative error): {{bad}}')
not_reproduced()
"""
    if case.startswith("rolling"):
        n, wl, window = params["n"], params["wl"], params["window"]
        return f"""
import ibldsp.smooth as sm
n, wl, window = {n}, {wl}, {window!r}
x = np.random.default_rng(0).normal(size=n)
out = sm.rolling_window(x, window_len=wl, window=window); outc = sm.rolling_window(np.full(n, 3.5), window_len=wl, window=window)
print(out.shape, outc)
if out.shape != (n,) or outc.shape != (n,) or not np.allclose(outc, 3.5, rtol=1e-12): reproduced('rolling_window changes the length or a constant')
not_reproduced()
"""
    return None

# level text addendum (cases added after the seeded-change rounds)
LEVEL_TEXT = LEVEL_TEXT + ' Also: the default nanmean with symbolic NaN flags, a header dictionary, chunk sizes that are not a multiple of the bin, savgol on nearly regular abscissae to 1e-9.'
LEVEL_TEXT = LEVEL_TEXT + ' Round 6: a fractional chunk size in the venn count.'
LEVEL_TEXT = LEVEL_TEXT + ' Round 7: a float32 constant through the smoothers (single-precision running sums lose digits), unlabelled (NaN) traces in stack.'
