"""
C12 - LFP extraction equals low-pass plus decimation, independent of windowing (structural part).
Real NP2Converter._process_NP21 / LF half of _process_NP24 on lazy arrays with symbolic recording length.
"""
import numpy as np
import z3

from symex import arrays, core, fakefs, larr, np2env, sglx
from symex.core import SInt, all_, and_, implies, ite, not_, or_
from symex.fakefs import FakePath
from symex.harness import Case, Twin
from symex.larr import LArr

from checks import c03

PROPERTY = "C12"
FUNCTIONS = ["neuropixel.NP2Converter._process_NP21", "NP2Converter._process_NP24 (LF half)", "NP2Converter.init_params", "NP2Converter.extract_lfp", "NP2Converter.extract_lfp_sync",
             "NP2Converter._ind2save", "NP2Converter._split2shanks", "NP2Converter._writemetadata_lf", "ibldsp.utils.WindowGenerator", "spikeglx.Reader (opening the written lf file)"]
ASSUMPTIONS = [
    "scipy.signal.sosfiltfilt is an uninterpreted whole-array operator FILT(sos, array): only WHICH window, taper region and sample it is applied to is decided, not its numeric value",
    "the expected value of LF row j is built by the harness as round(FILT(taper(calibrated window w(j)))[c, 12 j - first_w] / factor_c) with its own window oracle: windows start at multiples of (window-576), keep [288, window-288) AP samples, first from 0, last to the end",
    "values as exact reals; recording length symbolic with ns >= 577 and at most K windows; window sizes are concrete multiples of 12",
]
OUTSIDE = ["'to within 1 LSB' equality with a whole-trace sosfiltfilt (Butterworth numerics)", "recordings shorter than 577 samples", "window-size independence of the VALUES (needs filter numerics); the structural content - every kept sample is >= 288 AP samples away from its window's inner edges - is what is decided"]
EXPLANATION = "a skolem LF row j stands for every output sample; the kept range of each window is compared with the oracle tiling."
LEVEL_TEXT = ("For every recording length (<= K windows) and each window size, z3 decides that the LF file has ceil(ns/12) rows written back to back, its sync column is exactly every 12th AP sync word (no filter), "
              "each electrode value is the low-passed tapered window evaluated at AP sample 12j with the kept sample at least 288 AP samples inside its window unless at a file edge, the taper touches only the first/last 144 samples, "
              "and the .lf.meta (2500 Hz, channel counts, size) describes what was written so that the reader opens it with the matching shape.")
LEVEL_NOTE = "Trusted: z3 (LIA+EUF), lazy arrays, the uninterpreted-filter contract, fake file system."

RATIO, OV, TAPER = 12, 576, 144


def bounds(tier):
    return {"K": 3 if tier == "quick" else 4, "windows": [1200, 1188] if tier == "quick" else [1200, 1188, 2400, 9000, 60000]}


def setup():
    np2env.patch()


def build_np21(ctx, n, window, K):
    import neuropixel
    nc = n + 1
    ns = ctx.int("ns", 577, 10 ** 9)
    ctx.assume(ns <= window + (K - 1) * (window - OV))
    T = core._as_real(ns) / 30000
    sites = [(0, i % 2, i // 2) for i in range(n)]
    txt = sglx.imec_meta_text("NP2.1", sites, ns=sglx.S(T), fs_hz="30000", extra=["fileSHA1=ABCDEF", f"fileSizeBytes={sglx.S(ns * nc * 2)}"])
    F = fakefs.install(fakefs.FakeFS())
    F.add("/s/probe00/x.imec0.ap.meta", True, len(txt), [{"pos": 0, "text": txt}])
    F.add("/s/probe00/x.imec0.ap.bin", True, ns * nc * 2, np2env.raw_array(ns, nc))
    conv = ctx.call("converter_init", neuropixel.NP2Converter, FakePath("/s/probe00/x.imec0.ap.bin"), compress=False)
    conv.init_params(nwindow=window)
    return conv, F, ns, nc


def expected_lf_value(conv, fw, lw, napch, c, j):
    """oracle: low-pass of the tapered calibrated window [fw, lw), sample 12 j - fw, back to int16 units"""
    import scipy.signal
    x = conv.sr[fw:lw, :napch].T                      # calibrated volts (reader is C01's subject)
    tap = np.r_[0, scipy.signal.windows.cosine((TAPER - 1) * 2), 0]
    x[:, :TAPER] *= tap[:TAPER]
    x[:, -TAPER:] *= tap[TAPER:]
    sos = scipy.signal.butter(N=2, Wn=1000 / 2500 / 2, btype="lowpass", output="sos")
    y = np2env.sosfiltfilt_stub(sos, x)
    v = y[c, RATIO * j - fw]
    s2v = float(conv.sr.channel_conversion_sample2v["lf"][c])
    r = arrays.s_rint(v / s2v)
    return arrays.cast_scalar(r, np.int16)


def check_lf(ctx, conv, F, path, ns, chns, window, nwin_actual, napch, sync_idx):
    view = c03.check_split_file(ctx, F, path, ns, chns, "lf", ratio=RATIO)
    if view is None:
        return
    nrows = (ns + RATIO - 1) // RATIO
    j = ctx.int("j", 0)
    ctx.assume(j < nrows)
    # sync: exactly every 12th AP sync word
    ctx.oblige("lf_sync_is_every_12th_ap_sync_word", core.eq(view.fn(j, len(chns) - 1), np2env.raw_elem(RATIO * j, sync_idx)), detail={"j": j, "got": view.fn(j, len(chns) - 1)})
    stride = window - OV
    owned = False
    for w in range(nwin_actual):
        fw = w * stride
        lw = ite(fw + window < ns, fw + window, ns)
        lo = 0 if w == 0 else (fw + 2 * TAPER) // RATIO
        hi = nrows if w == nwin_actual - 1 else (fw + window - 2 * TAPER) // RATIO
        own = and_(j >= lo, j < hi)
        if own is False:
            continue
        c = ctx  # alias
        # structural margins: the kept sample is >= 288 AP samples inside the window unless at a file edge
        if w > 0:
            ctx.oblige("kept_sample_is_288_inside_window_start", implies(own, RATIO * j - fw >= 2 * TAPER), detail={"w": w})
        if w < nwin_actual - 1:
            ctx.oblige("kept_sample_is_288_inside_window_end", implies(own, lw - RATIO * j >= 2 * TAPER), detail={"w": w})
        ctx.oblige("kept_sample_lies_in_its_window", implies(own, and_(RATIO * j >= fw, RATIO * j < lw)), detail={"w": w})
        for col, ch in enumerate(chns[:-1]):
            # evaluate the oracle only under the ownership assumption
            ctx.solver.push()
            try:
                ctx.solver.add(core._bt(core._b(own)))
                if ctx.reachable():
                    exp = expected_lf_value(conv, fw, lw, napch, ch, j)
                    ctx.oblige("lf_value_is_lowpass_of_its_window_at_12j", core.eq(view.fn(j, col), exp), detail={"w": w, "col": col, "j": j})
            finally:
                ctx.solver.pop()
        owned = or_(owned, own)
    ctx.oblige("every_lf_row_is_owned_by_exactly_one_window_range", owned, detail={"j": j})


def _lf_meta(ctx, F, path, ns, ncols, np_version, shank=None):
    import spikeglx
    nrows = (ns + RATIO - 1) // RATIO
    md = ctx.call("read_meta", spikeglx.read_meta_data, FakePath(path).with_suffix(".meta"))
    ctx.oblige("lf_meta_rate_2500", core.eq(md["imSampRate"], 2500), detail={"got": md["imSampRate"]})
    ctx.oblige("lf_meta_snsApLfSy", isinstance(md["snsApLfSy"], list) and all(bool(core.eq(a, b)) for a, b in zip(md["snsApLfSy"], [0, ncols - 1, 1])), detail={"got": str(md["snsApLfSy"])})
    ctx.oblige("lf_meta_nSavedChans", core.eq(md["nSavedChans"], ncols), detail={"got": md["nSavedChans"]})
    ctx.oblige("lf_meta_fileSizeBytes", core.eq(md["fileSizeBytes"], nrows * ncols * 2), detail={"got": md["fileSizeBytes"]})
    sr = ctx.call("open_lf", spikeglx.Reader, FakePath(path), sort=False)
    ctx.oblige("lf_file_opens_with_matching_shape", and_(core.eq(sr.shape[0], nrows), sr.shape[1] == ncols), detail={"shape0": sr.shape[0], "rows": nrows})
    ctx.oblige("lf_reader_type_is_lf", sr.type == "lf", detail={"type": str(sr.type)})
    ctx.oblige("lf_reader_rate", core.eq(sr.fs, 2500))


def case_np24_lf(ctx, mapname, window, K):
    shank_of = c03.MAPS[mapname]
    conv, F, ns, nc = c03.build_np24(ctx, shank_of, window, K)
    ctx.call("process", conv.process)
    import neuropixel
    nwin = len(list(neuropixel.WindowGenerator(ns, window, OV).firstlast))
    for s in sorted(set(shank_of)):
        chns = c03.shank_channels(shank_of, s)
        path = f"/s/probe00{chr(97 + s)}_t/x.imec0.lf.bin"
        check_lf(ctx, conv, F, path, ns, chns, window, nwin, conv.napch, nc - 1)
        _lf_meta(ctx, F, path, ns, len(chns), "NP2.4", s)


def case_np21_lf(ctx, n, window, K):
    conv, F, ns, nc = build_np21(ctx, n, window, K)
    st = ctx.call("process", conv.process)
    ctx.oblige("status_is_one", st == 1)
    import neuropixel
    nwin = len(list(neuropixel.WindowGenerator(ns, window, OV).firstlast))
    path = "/s/probe00/x.imec0.lf.bin"
    check_lf(ctx, conv, F, path, ns, list(range(nc)), window, nwin, conv.napch, nc - 1)
    _lf_meta(ctx, F, path, ns, nc, "NP2.1")
    o = F.get("/s/probe00/x.imec0.ap.bin")
    ctx.oblige("original_ap_untouched", bool(o.exists) and isinstance(o.content, LArr))


def case_np21_converter_reused(ctx, n, window, window2, K):
    """one converter object used for two runs (init_params(nwindow=...) + process(overwrite=True) in a loop, the natural way to
    compare window sizes): the second run's LF file obeys the same law, for its own window size"""
    conv, F, ns, nc = build_np21(ctx, n, window, K)
    st = ctx.call("process", conv.process)
    ctx.oblige("status_is_one", st == 1)
    ctx.call("init_params_again", lambda: conv.init_params(nwindow=window2))
    st = ctx.call("process_again", lambda: conv.process(overwrite=True))
    ctx.oblige("second_run_status_is_one", st == 1)
    import neuropixel
    nwin = len(list(neuropixel.WindowGenerator(ns, window2, OV).firstlast))
    path = "/s/probe00/x.imec0.lf.bin"
    check_lf(ctx, conv, F, path, ns, list(range(nc)), window2, nwin, nc - 1, nc - 1)
    _lf_meta(ctx, F, path, ns, nc, "NP2.1")


def cases(tier):
    b = bounds(tier)
    cs = []
    w0, w1 = b["windows"][0], b["windows"][min(1, len(b["windows"]) - 1)]
    cs.append(Case(f"np21_converter_reused_w{w0}_then_w{w1}", "case_np21_converter_reused", {"n": 2, "window": w0, "window2": w1, "K": 2}, timeout_s=3000))
    for w in b["windows"]:
        cs.append(Case(f"np21_w{w}", "case_np21_lf", {"n": 2, "window": w, "K": b["K"]}, timeout_s=3000))
    for w in b["windows"][:2] if tier == "quick" else b["windows"]:
        cs.append(Case(f"np24_interleaved_w{w}", "case_np24_lf", {"mapname": "interleaved", "window": w, "K": b["K"]}, timeout_s=3000))
    # shanks holding different numbers of channels (every per-shank count must be the shank's own)
    cs.append(Case("np24_unbalanced_w1200", "case_np24_lf", {"mapname": "unbalanced", "window": 1200, "K": 2 if tier == "quick" else b["K"]}, timeout_s=3000))
    return cs


def twins(tier):
    m = "neuropixel"
    cs = ["np21_w1200", "np24_interleaved_w1200"]
    return [
        Twin("decimation_phase_one", m, "        chunk = chunk[:, :: self.ratio]\n        return chunk", "        chunk = chunk[:, 1:: self.ratio]\n        return chunk", cs),
        Twin("sync_decimation_phase", m, "        chunk_sync = chunk_sync[:, :: self.ratio]", "        chunk_sync = chunk_sync[:, self.ratio - 1:: self.ratio]", cs),
        Twin("sync_filtered", m, "            chunk_lf_sync = self.extract_lfp_sync(\n                self.sr[first:last, self.idxsyncch:].T\n            )\n\n            chunk_lf2save",
             "            chunk_lf_sync = self.extract_lfp(\n                self.sr[first:last, self.idxsyncch:].T\n            )\n\n            chunk_lf2save", ["np21_w1200"]),
        Twin("lf_meta_counts", m, '            meta_shank["snsApLfSy"][1] = n_chns - 1', '            meta_shank["snsApLfSy"][1] = n_chns', cs),
        Twin("lf_rate_not_set", m, '            meta_shank["imSampRate"] = self.fs_lf', '            meta_shank["imSampRate"] = self.fs_ap', cs),
        Twin("keep_one_taper_only", m, "            int(self.samples_taper * 2 / ratio),", "            int(self.samples_taper * 1 / ratio),", cs),
        Twin("taper_tail_wrong_half", m, "chunk[:, -self.samples_taper:] *= self.taper[self.samples_taper:]", "chunk[:, -self.samples_taper:] *= self.taper[: self.samples_taper]", cs),
        Twin("filter_before_taper", m, "        chunk[:, : self.samples_taper] *= self.taper[: self.samples_taper]\n        chunk[:, -self.samples_taper:] *= self.taper[self.samples_taper:]\n        chunk = scipy.signal.sosfiltfilt(self.sos_lp, chunk)",
             "        chunk = scipy.signal.sosfiltfilt(self.sos_lp, chunk)\n        chunk[:, : self.samples_taper] *= self.taper[: self.samples_taper]\n        chunk[:, -self.samples_taper:] *= self.taper[self.samples_taper:]", cs),
    ]


def replay(case, params, cex):
    m = cex["model"]
    ns = m["ns"]
    window = params["window"]
    np21 = case.startswith("np21")
    shank_of = [0] * params.get("n", 2) if np21 else c03.MAPS[params["mapname"]]
    return f"""
import sys, tempfile, pathlib
sys.path.insert(0, '/verif')
from symex import sglx, np2env
import spikeglx, neuropixel, scipy.signal
ns, window, np21, shank_of = {ns}, {window}, {np21}, {shank_of}
if ns > 3_000_000: not_reproduced('too long to materialise')
n = len(shank_of); nc = n + 1
d = pathlib.Path(tempfile.mkdtemp()) / 's' / 'probe00'; d.mkdir(parents=True)
rs = np.random.default_rng(0)
data = (rs.normal(size=(ns, nc)) * 300).astype(np.int16)
# half of the channels swing between the rails (+-8000 of +-8192): legal content whose low-passed version overshoots
tt = np.arange(ns)
for c in range(0, n, 2):
    data[:, c] = (8000 * np.sign(np.sin(2 * np.pi * (tt + 7 * c + 3) / 302.0) + 1e-9)).astype(np.int16)
data[:, -1] = rs.integers(0, 65535, ns).astype(np.uint16).astype(np.int16)
if np21:
    txt = sglx.imec_meta_text('NP2.1', [(0, i % 2, i // 2) for i in range(n)], ns=format(ns / 30000.0, '.12f'), fs_hz='30000', extra=['fileSHA1=ABCDEF', f'fileSizeBytes={{ns * nc * 2}}'])
else:
    txt = np2env.np24_meta_text(n, shank_of, format(ns / 30000.0, '.12f'), extra=['fileSHA1=ABCDEF', f'fileSizeBytes={{ns * nc * 2}}'])
(d / 'x.imec0.ap.meta').write_text(txt); data.tofile(d / 'x.imec0.ap.bin')
conv = neuropixel.NP2Converter(d / 'x.imec0.ap.bin', post_check=False, compress=False)
conv.init_params(nwindow=window, extra='' if np21 else '_t')
try:
    conv.process()
except Exception as e:
    reproduced(f'process raised {{type(e).__name__}}: {{e}}')
window2 = {params.get('window2')!r}
if window2 is not None:      # the same converter object runs again with another window size
    window = window2
    try:
        conv.init_params(nwindow=window2); conv.process(overwrite=True)
    except Exception as e:
        reproduced(f'second run on the same converter raised {{type(e).__name__}}: {{e}}')
sr = spikeglx.Reader(d / 'x.imec0.ap.bin', sort=False)
tap = np.r_[0, scipy.signal.windows.cosine(143 * 2), 0]
sos = scipy.signal.butter(N=2, Wn=1000 / 2500 / 2, btype='lowpass', output='sos')
stride = window - 576
nrows = -(-ns // 12)
exp = np.zeros((nrows, nc), dtype=np.int16)
w = 0; nwin = len(list(neuropixel.WindowGenerator(ns, window, 576).firstlast))
for w in range(nwin):
    fw = w * stride; lw = min(fw + window, ns)
    x = sr[fw:lw, :n].T.astype(np.float32)
    x[:, :144] *= tap[:144]; x[:, -144:] *= tap[144:]
    y = scipy.signal.sosfiltfilt(sos, x)
    lo = 0 if w == 0 else (fw + 288) // 12; hi = nrows if w == nwin - 1 else (fw + window - 288) // 12
    jj = np.arange(lo, hi)
    exp[lo:hi, :n] = np.rint(y[:, 12 * jj - fw].T / sr.channel_conversion_sample2v['lf'][:n]).astype(np.int16)
exp[:, -1] = data[::12, -1]
bad = []
groups = [(0, list(range(nc)), d / 'x.imec0.lf.bin')] if np21 else [(s, [i for i, x in enumerate(shank_of) if x == s] + [n], d.parent / f'probe00{{chr(97 + s)}}_t' / 'x.imec0.lf.bin') for s in sorted(set(shank_of))]
for s, chns, f in groups:
    out = np.fromfile(f, dtype=np.int16)
    if out.size != nrows * len(chns): bad.append(('rows', s, out.size / len(chns), nrows)); continue
    out = out.reshape(nrows, len(chns))
    if not np.array_equal(out[:, -1], exp[:, -1]): bad.append(('sync', s))
    if np.max(np.abs(out[:, :-1].astype(int) - exp[:, chns[:-1]].astype(int))) > 1: bad.append(('values', s, int(np.max(np.abs(out[:, :-1].astype(int) - exp[:, chns[:-1]].astype(int))))))
    md = spikeglx.read_meta_data(f.with_suffix('.meta'))
    if md['imSampRate'] != 2500 or md['snsApLfSy'] != [0, len(chns) - 1, 1] or md['nSavedChans'] != len(chns) or md['fileSizeBytes'] != out.size * 2: bad.append(('meta', s, md['imSampRate'], md['snsApLfSy'], md['nSavedChans']))
    try:
        srl = spikeglx.Reader(f, sort=False)
        if srl.shape != (nrows, len(chns)) or srl.type != 'lf': bad.append(('open', srl.shape, srl.type))
    except Exception as e:
        bad.append(('open raised', repr(e)))
print(bad)
if bad: reproduced(str(bad))
# the witness has only a few windows; the same situation with several hundred windows (a long recording cut into 2 s windows has that many)
ns2, window2 = 7805, 600
d2 = pathlib.Path(tempfile.mkdtemp()) / 's' / 'probe00'; d2.mkdir(parents=True)
data2 = (rs.normal(size=(ns2, nc)) * 300).astype(np.int16); data2[:, -1] = rs.integers(0, 65535, ns2).astype(np.uint16).astype(np.int16)
if np21:
    txt2 = sglx.imec_meta_text('NP2.1', [(0, i % 2, i // 2) for i in range(n)], ns=format(ns2 / 30000.0, '.12f'), fs_hz='30000', extra=['fileSHA1=ABCDEF', f'fileSizeBytes={{ns2 * nc * 2}}'])
else:
    txt2 = np2env.np24_meta_text(n, shank_of, format(ns2 / 30000.0, '.12f'), extra=['fileSHA1=ABCDEF', f'fileSizeBytes={{ns2 * nc * 2}}'])
(d2 / 'x.imec0.ap.meta').write_text(txt2); data2.tofile(d2 / 'x.imec0.ap.bin')
conv2 = neuropixel.NP2Converter(d2 / 'x.imec0.ap.bin', post_check=False, compress=False)
conv2.init_params(nwindow=window2, extra='' if np21 else '_t')
conv2.process()
nrows2 = -(-ns2 // 12)
groups2 = [(0, list(range(nc)), d2 / 'x.imec0.lf.bin')] if np21 else [(s, [i for i, x in enumerate(shank_of) if x == s] + [n], d2.parent / f'probe00{{chr(97 + s)}}_t' / 'x.imec0.lf.bin') for s in sorted(set(shank_of))]
for s, chns, f in groups2:
    out2 = np.fromfile(f, dtype=np.int16)
    if out2.size != nrows2 * len(chns): reproduced(f'with {{len(list(neuropixel.WindowGenerator(ns2, window2, 576).firstlast))}} windows the LF file of shank {{s}} holds {{out2.size / len(chns)}} samples instead of {{nrows2}}')
    if not np.array_equal(out2.reshape(nrows2, len(chns))[:, -1], data2[::12, -1]): reproduced('with several hundred windows the LF sync is not every 12th AP sync word')
not_reproduced()
"""

# level text addendum (cases added after the seeded-change rounds)
LEVEL_TEXT = LEVEL_TEXT + ' Also: unequal shank populations; the replay checks the 1-LSB value clause on rail-to-rail data and repeats the run with 302 windows.'
LEVEL_TEXT = LEVEL_TEXT + ' Round 6: one converter object used for two runs with different window sizes.'
