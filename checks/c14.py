"""
C14 - Spike features obey their ordering, extremum and equivariance laws.
Real ibldsp.waveforms.compute_spike_features (and everything it calls) on symbolic reals with the pandas stand-in.
"""
from fractions import Fraction

import numpy as np
import z3

from symex import arrays, core, purity, pdfacade
from symex.core import SInt, SReal, all_, and_, any_, implies, ite, not_, or_
from symex.harness import Case, Twin

PROPERTY = "C14"
FUNCTIONS = ["ibldsp.waveforms.compute_spike_features", "find_peak", "pick_maximum", "pick_maxima", "get_array_peak", "invert_peak_waveform", "arr_pre_post", "find_trough", "find_tip",
             "find_tip_trough", "peak_to_trough_ratio", "half_peak_point", "half_peak_duration", "peak_to_trough_duration", "recovery_point", "polarisation_slopes", "recovery_slope"]
ASSUMPTIONS = [
    "waveform samples are free reals (floats as exact reals); NaN-padded channels are concrete NaN columns",
    "precondition from the statement: the largest absolute deflection is not on the first sample (strictly larger than every value of sample 0)",
    "NumPy's x/0 (inf or nan, no exception) is modelled as NaN: the only consumers are the comparison '<= 1.5' and stored slopes/ratios",
    "pandas replaced by the dict-of-columns stand-in; batch of N <= 2 waveforms, T and C small concrete sizes per case",
]
OUTSIDE = ["waveforms longer / wider than the stated T x C bound", "values of slopes and ratios (only indices, extremum values and their laws are asserted)"]
EXPLANATION = "the peak position and sign fork the path (np.where on symbolic masks); all later picks are ITE gathers."
LEVEL_TEXT = ("For ALL real waveforms of the stated sizes satisfying the precondition z3 decides: no exception; the peak is the global absolute extremum or the documented trough swap on the same channel; tip < peak <= trough; "
              "the half-peak points are the nearest samples on either side back within half of the peak; the recovery index is min(trough+k, T-1); positive scaling scales values and keeps indices; "
              "swapping channels only permutes the peak-channel index; a waveform's features do not depend on its batch neighbours.")
LEVEL_NOTE = "Trusted: z3 (LRA + light NRA for the scaling law), SymArray gather/scatter model, the pandas stand-in."

INDEX_COLS = ["peak_time_idx", "trough_time_idx", "tip_time_idx", "half_peak_post_time_idx", "half_peak_pre_time_idx", "recovery_time_idx"]
VALUE_COLS = ["peak_val", "trough_val", "tip_val", "half_peak_post_val", "half_peak_pre_val", "recovery_val"]


def bounds(tier):
    if tier == "quick":
        return {"sizes": [(1, 5, 1), (1, 4, 2)], "k": [1, 2]}
    return {"sizes": [(1, 6, 1), (1, 5, 2), (1, 7, 1), (2, 4, 1)], "k": [1, 2, 5]}


def setup():
    import ibldsp.waveforms as w
    arrays.patch_module(w, pd=pdfacade.PD)


def _wave(ctx, N, T, C, prefix="x", nan_channel=False):
    vals = [[[ctx.real(f"{prefix}{n}_{t}_{c}", -100, 100) for c in range(C)] for t in range(T)] for n in range(N)]
    flat = []
    for n in range(N):
        for t in range(T):
            for c in range(C):
                flat.append(vals[n][t][c])
            if nan_channel:
                flat.append(float("nan"))
    CC = C + (1 if nan_channel else 0)
    return vals, arrays.mk(flat, shape=(N, T, CC), tag=np.dtype(np.float32))


def _precondition(ctx, vals, N, T, C):
    for n in range(N):
        first = [abs(vals[n][0][c]) for c in range(C)]
        later = [abs(vals[n][t][c]) for t in range(1, T) for c in range(C)]
        ctx.assume(any_([all_([l > f for f in first]) for l in later]))


def _features(ctx, w, arr, fs, rd, repeat=True):
    df = ctx.call("compute_spike_features", w.compute_spike_features, arr, fs=fs, recovery_duration_ms=rd)
    if not repeat:
        return df
    # no state is carried between calls and nothing done to the caller's array changes the answer: the same call again gives the same table
    # (the function may zero NaN samples of its input in place - that is its documented first step and does not change the result)
    df2 = ctx.call("compute_spike_features", w.compute_spike_features, arr, fs=fs, recovery_duration_ms=rd)
    for col in INDEX_COLS + VALUE_COLS + ["peak_trace_idx"]:
        purity.oblige_same_result(ctx, "second_identical_call_gives_the_same_features", df[col].to_numpy(), df2[col].to_numpy(), detail={"col": col})
    return df


def _conc(ctx, v):
    return int(ctx.concretize(core._it(v))) if isinstance(v, core.Sym) else int(v)


def case_laws(ctx, N, T, C, k, nan_channel):
    import ibldsp.waveforms as w
    vals, arr = _wave(ctx, N, T, C, nan_channel=nan_channel)
    _precondition(ctx, vals, N, T, C)
    fs = 1000.0
    rd = float(k)          # int(round(rd * fs / 1000)) == k samples
    df = _features(ctx, w, arr, fs, rd)
    for n in range(N):
        pt = _conc(ctx, df["peak_time_idx"].to_numpy()[n])
        pc = _conc(ctx, df["peak_trace_idx"].to_numpy()[n])
        tr = _conc(ctx, df["trough_time_idx"].to_numpy()[n])
        tp = _conc(ctx, df["tip_time_idx"].to_numpy()[n])
        rc = _conc(ctx, df["recovery_time_idx"].to_numpy()[n])
        hpre = _conc(ctx, df["half_peak_pre_time_idx"].to_numpy()[n])
        hpost = _conc(ctx, df["half_peak_post_time_idx"].to_numpy()[n])
        pv = df["peak_val"].to_numpy()[n]
        ok = ctx.oblige("indices_in_range", all(0 <= i < T for i in (pt, tr, tp, rc, hpre, hpost)) and 0 <= pc < C, detail={"n": n, "idx": [pt, pc, tr, tp, rc, hpre, hpost]})
        if not ok:
            continue
        ctx.oblige("peak_val_is_the_trace_value_at_the_peak", core.eq(pv, vals[n][pt][pc]), detail={"n": n})
        amax = [abs(vals[n][t][c]) for t in range(T) for c in range(C)]
        is_global = all_([abs(pv) >= a for a in amax])
        # the documented swap: the global extremum g (time tg, same channel) is positive, the reported peak is the lowest sample
        # of that channel from tg on (the old trough) and |g / trough| <= 1.5
        swaps = []
        for tg in range(0, pt + 1):
            g = vals[n][tg][pc]
            cond = and_(g > 0, all_([g >= a for a in amax]))
            cond = and_(cond, all_([vals[n][pt][pc] <= vals[n][t][pc] for t in range(tg, T)]))
            cond = and_(cond, or_(and_(pv > 0, g <= pv * 1.5), and_(pv < 0, g <= -pv * 1.5)))
            swaps.append(cond)
        ctx.oblige("peak_is_global_extremum_or_documented_swap", or_(is_global, any_(swaps)), detail={"n": n, "peak_val": pv, "pt": pt, "pc": pc})
        # the swap happens exactly when documented: first global extremum g at tg (positive), first minimum of the trace from tg on
        # at tq, |g / x[tq]| <= 1.5  =>  the reported peak is tq; otherwise the reported peak is tg
        for tg in range(T):
            g = vals[n][tg][pc]
            first_global = and_(all_([abs(g) >= a for a in amax]), all_([abs(vals[n][t][pc]) < abs(g) for t in range(tg)]))
            if C > 1:
                # the peak channel is the FIRST channel holding the global extremum
                first_global = and_(first_global, all_([abs(vals[n][t][c]) < abs(g) for c in range(pc) for t in range(T)]))
            swapped_any = False
            for tq in range(tg, T):
                xq = vals[n][tq][pc]
                first_min = and_(all_([xq <= vals[n][t][pc] for t in range(tg, T)]), all_([vals[n][t][pc] > xq for t in range(tg, tq)]))
                ratio_ok = or_(and_(xq > 0, g <= xq * 1.5), and_(xq < 0, g <= -xq * 1.5))
                should = and_(first_global, and_(g > 0, and_(first_min, ratio_ok)))
                ctx.oblige("swap_happens_when_documented", implies(should, pt == tq), detail={"n": n, "tg": tg, "tq": tq, "pt": pt})
                swapped_any = or_(swapped_any, and_(first_min, ratio_ok))
            ctx.oblige("no_swap_otherwise", implies(and_(first_global, or_(g < 0, not_(swapped_any))), pt == tg), detail={"n": n, "tg": tg, "pt": pt})
        gmax_c = all_([any_([abs(vals[n][t][pc]) >= a for t in range(T)]) for a in amax])
        ctx.oblige("peak_channel_holds_the_global_extremum", gmax_c, detail={"n": n, "pc": pc})
        ctx.oblige("tip_before_peak_not_after_trough", tp < pt and pt <= tr, detail={"n": n, "tip": tp, "peak": pt, "trough": tr})
        ctx.oblige("recovery_index_is_trough_plus_k_clipped_to_last_sample", rc == min(tr + k, T - 1), detail={"n": n, "trough": tr, "k": k, "recovery": rc})
        # trough = maximum of the (sign-normalised) trace from the peak on; tip = maximum before the peak
        sgn = ite(pv > 0, -1, 1)
        tv = df["trough_val"].to_numpy()[n]
        ctx.oblige("trough_val_is_the_trace_value_at_the_trough", core.eq(tv, vals[n][tr][pc]), detail={"n": n})
        ctx.oblige("trough_is_the_extremum_after_the_peak", all_([vals[n][tr][pc] * sgn >= vals[n][t][pc] * sgn for t in range(pt, T)]), detail={"n": n, "trough": tr, "peak": pt})
        ctx.oblige("tip_is_the_extremum_before_the_peak", all_([vals[n][tp][pc] * sgn >= vals[n][t][pc] * sgn for t in range(0, pt)]), detail={"n": n, "tip": tp, "peak": pt})
        # half-peak points: nearest samples on either side whose (sign-normalised) value is above half of the peak
        half = pv / 2
        def back(t):
            return vals[n][t][pc] * sgn > half * sgn
        post = [t for t in range(pt, T)]
        exists_post = any_([back(t) for t in post])
        ctx.oblige("half_peak_post_is_nearest_sample_back_within_half", implies(exists_post, and_(back(hpost) if hpost >= pt else False, all_([not_(back(t)) for t in range(pt, hpost)]))),
                   detail={"n": n, "hpost": hpost, "peak": pt})
        pre = [t for t in range(0, pt)]
        exists_pre = any_([back(t) for t in pre])
        ctx.oblige("half_peak_pre_is_nearest_sample_back_within_half", implies(exists_pre, and_(back(hpre) if hpre < pt else False, all_([not_(back(t)) for t in range(hpre + 1, pt)]))),
                   detail={"n": n, "hpre": hpre, "peak": pt})


class _IntWave(arrays.SymArray):
    """waveforms held as integers (raw int16 snippets): dtype int16; storing a NaN raises as NumPy does, other values are truncated"""

    @property
    def dtype(self):
        return np.dtype(np.int16)

    def __setitem__(self, key, value):
        flat = np.asarray(arrays._plain(value), dtype=object).ravel().tolist() if isinstance(value, np.ndarray) else [value]
        if any(bool(arrays.s_isnan(e)) for e in flat):
            raise ValueError("cannot convert float NaN to integer")
        np.ndarray.__setitem__(self.view(np.ndarray), key, arrays._plain(value) if isinstance(value, np.ndarray) else value)


def case_integer_waveform(ctx, T, k):
    """raw integer snippets give exactly the features of the same numbers held as floats"""
    import ibldsp.waveforms as w
    ints = [[ctx.int(f"x0_{t}_0", -1000, 1000)] for t in range(T)]
    vals = [[[core._as_real(ints[t][0])] for t in range(T)]]
    _precondition(ctx, vals, 1, T, 1)
    fs, rd = 1000.0, float(k)
    arr_i = arrays.mk([ints[t][0] for t in range(T)], shape=(1, T, 1), tag=np.dtype(np.int16)).view(_IntWave)
    arr_f = arrays.mk([vals[0][t][0] for t in range(T)], shape=(1, T, 1), tag=np.dtype(np.float64))
    df_i = ctx.call("compute_spike_features_int", w.compute_spike_features, arr_i, fs=fs, recovery_duration_ms=rd)
    df_f = ctx.call("compute_spike_features", w.compute_spike_features, arr_f, fs=fs, recovery_duration_ms=rd)
    for col in INDEX_COLS + VALUE_COLS + ["peak_trace_idx"]:
        purity.oblige_same_result(ctx, "integer_waveforms_give_the_same_features_as_floats", df_i[col].to_numpy(), df_f[col].to_numpy(), detail={"col": col})


def case_pick_maxima(ctx, T, C):
    """the ranking step on its own: per trace, the reported maximum is exactly the largest absolute sample and its index a
    position where it is reached (first one) - also when two deflections are almost tied"""
    import ibldsp.waveforms as w
    vals, arr = _wave(ctx, 1, T, C)
    res = ctx.call("pick_maxima", w.pick_maxima, arr)
    idx, mx = res
    if not ctx.oblige("pick_maxima_shapes", tuple(np.shape(idx)) == (1, C) and tuple(np.shape(mx)) == (1, C), detail={"shapes": [str(np.shape(idx)), str(np.shape(mx))]}):
        return
    for c in range(C):
        col = [abs(vals[0][t][c]) for t in range(T)]
        i = _conc(ctx, np.asarray(arrays._plain(idx), dtype=object)[0, c])
        m_ = np.asarray(arrays._plain(mx), dtype=object)[0, c]
        ctx.oblige("reported_maximum_is_the_largest_absolute_sample", and_(all_([m_ >= a for a in col]), any_([core.eq(m_, a) for a in col])), detail={"trace": c, "max": m_})
        ok = 0 <= i < T
        ctx.oblige("reported_index_is_the_first_position_of_the_maximum", ok and and_(all_([col[i] >= a for a in col]), all_([col[t] < col[i] for t in range(i)])) if ok else False, detail={"trace": c, "index": i})


def case_scaling(ctx, T, C, k, scale="free"):
    import ibldsp.waveforms as w
    vals, arr = _wave(ctx, 1, T, C)
    _precondition(ctx, vals, 1, T, C)
    if scale == "free":
        c = ctx.real("c")
        ctx.assume(and_(c > 0, c < 100))
    else:
        # a fixed factor keeps the arithmetic linear (decided in a few seconds whatever the solver seed); the free factor is kept in the thorough tier
        c = Fraction(scale)
        ctx.inputs["c"] = z3.RealVal(c)
    fs, rd = 1000.0, float(k)
    df1 = _features(ctx, w, arr, fs, rd, repeat=False)        # (non-linear case: the repeated call is exercised by the other cases)
    arr2 = arrays.mk([vals[0][t][cc] * c for t in range(T) for cc in range(C)], shape=(1, T, C), tag=np.dtype(np.float32))
    df2 = _features(ctx, w, arr2, fs, rd, repeat=False)
    for col in INDEX_COLS + ["peak_trace_idx"]:
        ctx.oblige("scaling_keeps_every_index", core.eq(df1[col].to_numpy()[0], df2[col].to_numpy()[0]), detail={"col": col})
    for col in VALUE_COLS:
        ctx.oblige("scaling_scales_every_value", core.eq(df1[col].to_numpy()[0] * c, df2[col].to_numpy()[0]), detail={"col": col})


def case_channel_swap(ctx, T, k):
    import ibldsp.waveforms as w
    vals, arr = _wave(ctx, 1, T, 2)
    _precondition(ctx, vals, 1, T, 2)
    # avoid an exact tie of the two channels' extrema (the pick between equal extrema is positional by construction)
    m0 = [abs(vals[0][t][0]) for t in range(T)]
    m1 = [abs(vals[0][t][1]) for t in range(T)]
    ctx.assume(or_(any_([all_([a > b for b in m1]) for a in m0]), any_([all_([b > a for a in m0]) for b in m1])))
    fs, rd = 1000.0, float(k)
    df1 = _features(ctx, w, arr, fs, rd)
    arr2 = arrays.mk([vals[0][t][1 - cc] for t in range(T) for cc in range(2)], shape=(1, T, 2), tag=np.dtype(np.float32))
    df2 = _features(ctx, w, arr2, fs, rd)
    ctx.oblige("channel_swap_permutes_the_peak_channel", core.eq(df1["peak_trace_idx"].to_numpy()[0], 1 - df2["peak_trace_idx"].to_numpy()[0]))
    for col in INDEX_COLS + VALUE_COLS:
        ctx.oblige("channel_swap_leaves_everything_else", core.eq(df1[col].to_numpy()[0], df2[col].to_numpy()[0]), detail={"col": col})


def case_batch(ctx, T, k, C=1):
    import ibldsp.waveforms as w
    vals, arr = _wave(ctx, 2, T, C)
    _precondition(ctx, vals, 2, T, C)
    fs, rd = 1000.0, float(k)
    df2 = _features(ctx, w, arr, fs, rd)
    one = arrays.mk([vals[0][t][c] for t in range(T) for c in range(C)], shape=(1, T, C), tag=np.dtype(np.float32))
    df1 = _features(ctx, w, one, fs, rd)
    for col in INDEX_COLS + VALUE_COLS + ["peak_trace_idx"]:
        ctx.oblige("features_do_not_depend_on_batch_neighbours", core.eq(df1[col].to_numpy()[0], df2[col].to_numpy()[0]), detail={"col": col})


def case_single_2d(ctx, T, k, C=1):
    """one waveform given as a 2-D (time, channel) array: same features as the same waveform in a batch of one"""
    import ibldsp.waveforms as w
    vals, arr = _wave(ctx, 1, T, C)
    _precondition(ctx, vals, 1, T, C)
    fs, rd = 1000.0, float(k)
    df3 = _features(ctx, w, arr, fs, rd, repeat=False)
    flat2 = arrays.mk([vals[0][t][c] for t in range(T) for c in range(C)], shape=(T, C), tag=np.dtype(np.float32))
    df2 = _features(ctx, w, flat2, fs, rd, repeat=False)
    ctx.oblige("one_row_for_a_single_2d_waveform", len(df2) == 1, detail={"rows": len(df2)})
    for col in INDEX_COLS + VALUE_COLS + ["peak_trace_idx"]:
        ctx.oblige("features_of_a_2d_waveform_equal_those_of_a_batch_of_one", core.eq(df2[col].to_numpy()[0], df3[col].to_numpy()[0]), detail={"col": col})


def cases(tier):
    b = bounds(tier)
    cs = []
    cs.append(Case("single_2d_T5_C1_k2", "case_single_2d", {"T": 5, "k": 2}, timeout_s=3300, max_paths=200000))
    cs.append(Case("single_2d_T4_C2_k1", "case_single_2d", {"T": 4, "k": 1, "C": 2}, timeout_s=3300, max_paths=200000))
    for (N, T, C) in b["sizes"]:
        for k in b["k"]:
            if k >= T:
                continue
            cs.append(Case(f"laws_N{N}_T{T}_C{C}_k{k}", "case_laws", {"N": N, "T": T, "C": C, "k": k, "nan_channel": False}, timeout_s=3300, max_paths=200000))
    cs.append(Case("laws_nanpad_T4_C1_k1", "case_laws", {"N": 1, "T": 4, "C": 1, "k": 1, "nan_channel": True}, timeout_s=3300, max_paths=200000))
    for name, sc in (("quarter", "1/4"), ("three", "3"), ("tiny", "1/1099511627776")):         # 2^-40: volts instead of microvolts and below
        cs.append(Case(f"scaling_T4_C1_by_{name}", "case_scaling", {"T": 4, "C": 1, "k": 1, "scale": sc}, timeout_s=3300, max_paths=200000))
    if tier == "thorough":
        cs.append(Case("scaling_T4_C1", "case_scaling", {"T": 4, "C": 1, "k": 1}, timeout_s=3300, max_paths=200000, solver_timeout_ms=1800000))   # free factor: non-linear, solver time varies a lot with the seed
    cs.append(Case("channel_swap_T4", "case_channel_swap", {"T": 4 if tier == "quick" else 5, "k": 1}, timeout_s=3300, max_paths=200000))
    cs.append(Case("pick_maxima_T3_C2", "case_pick_maxima", {"T": 3, "C": 2}, timeout_s=1500))
    cs.append(Case("integer_waveform_T4", "case_integer_waveform", {"T": 4, "k": 1}, timeout_s=3300, max_paths=200000))
    cs.append(Case("batch_T4", "case_batch", {"T": 4, "k": 1}, timeout_s=3300, max_paths=200000))
    cs.append(Case("batch_T3_C2", "case_batch", {"T": 3, "k": 1, "C": 2}, timeout_s=3300, max_paths=200000))
    return cs


def twins(tier):
    m = "ibldsp.waveforms"
    b = bounds(tier)
    laws = [f"laws_N{N}_T{T}_C{C}_k{k}" for (N, T, C) in b["sizes"] for k in b["k"] if k < T]
    return [
        Twin("trough_from_pre", m, "    indx_trough = np.nanargmax(arr_post, axis=1)", "    indx_trough = np.nanargmax(arr_pre, axis=1)", laws[:2]),
        Twin("swap_threshold_inverted", m, '(df["peak_to_trough_ratio"] <= 1.5)', '(df["peak_to_trough_ratio"] >= 1.5)', laws[:3]),
        Twin("no_fliplr", m, "    arr_pre_flip = np.fliplr(arr_pre)", "    arr_pre_flip = arr_pre", laws[:3]),
        Twin("recovery_clip_off_by_one", m, "        idx_all[idx_over] = arr_peak.shape[1] - 1", "        idx_all[idx_over] = arr_peak.shape[1] - 2", laws),
        Twin("peak_by_signed_max", m, "    max_vals = np.max(np.abs(arr_in[:, :]), axis=1)\n    indx_maxs = np.argmax(np.abs(arr_in[:, :]), axis=1)", "    max_vals = np.max(arr_in[:, :], axis=1)\n    indx_maxs = np.argmax(arr_in[:, :], axis=1)", laws[:2]),
        Twin("batch_leak", m, "    indx_trace = np.argmax(max_vals, axis=1)", "    indx_trace = np.argmax(max_vals, axis=1) * 0 + np.argmax(np.max(max_vals, axis=0))", ["batch_T3_C2"]),
    ]


def replay(case, params, cex):
    m = cex["model"]
    from fractions import Fraction
    F = lambda v: float(Fraction(str(v)))
    if case.startswith("pick_maxima"):
        T, C = params["T"], params["C"]
        x = [[[F(m.get(f"x0_{t}_{c}", 0)) for c in range(C)] for t in range(T)]]
        return f"""
import ibldsp.waveforms as w
x = np.array({x}, dtype=np.float64)
idx, mx = w.pick_maxima(x.copy())
a = np.abs(x[0])
print(idx, mx, a.max(axis=0), a.argmax(axis=0))
if np.shape(idx) != (1, {C}) or not np.array_equal(np.asarray(mx)[0], a.max(axis=0)): reproduced(f'pick_maxima reports {{np.asarray(mx).tolist()}} for absolute maxima {{a.max(axis=0).tolist()}} (float64 input {{x.tolist()}})')
if not np.array_equal(np.asarray(idx)[0], a.argmax(axis=0)): reproduced(f'pick_maxima reports positions {{np.asarray(idx).tolist()}}, the maxima are at {{a.argmax(axis=0).tolist()}}')
not_reproduced()
"""
    if case.startswith("integer_waveform"):
        T, k = params["T"], params["k"]
        x = [[int(str(m.get(f"x0_{t}_0", 0)))] for t in range(T)]
        return f"""
import ibldsp.waveforms as w
xi = np.array([{x}], dtype=np.int16); xf = xi.astype(np.float64); k = {k}
try:
    di = w.compute_spike_features(xi.copy(), fs=1000.0, recovery_duration_ms=float(k))
except Exception as e:
    reproduced(f'compute_spike_features raised {{type(e).__name__}}: {{e}} on the int16 waveform {{xi.tolist()}}')
df = w.compute_spike_features(xf.copy(), fs=1000.0, recovery_duration_ms=float(k))
num = [c for c in df.columns if df[c].dtype.kind in 'fiu']
print(di[num].T, df[num].T)
if not np.allclose(di[num].to_numpy(dtype=float), df[num].to_numpy(dtype=float), equal_nan=True): reproduced('integer waveform and the same values as floats give different features')
not_reproduced()
"""
    if case.startswith("laws"):
        N, T, C, k = params["N"], params["T"], params["C"], params["k"]
        x = [[[F(m.get(f"x{n}_{t}_{c}", 0)) for c in range(C)] + ([float("nan")] if params["nan_channel"] else []) for t in range(T)] for n in range(N)]
        return f"""
import ibldsp.waveforms as w
x = np.array({x}, dtype=float).astype(np.float64)
N, T, C, k = {N}, {T}, {C}, {k}
xin = x.copy()
try:
    df = w.compute_spike_features(xin, fs=1000.0, recovery_duration_ms=float(k))
    df_again = w.compute_spike_features(xin, fs=1000.0, recovery_duration_ms=float(k))
except Exception as e:
    reproduced(f'compute_spike_features raised {{type(e).__name__}}: {{e}} on {{x.tolist()}} (recovery offset {{k}} samples)')
num = [c for c in df.columns if df[c].dtype.kind in 'fiu']
if not np.allclose(df[num].to_numpy(dtype=float), df_again[num].to_numpy(dtype=float), equal_nan=True): reproduced(f'the same call repeated on the same array gives other features: {{df[num].to_numpy().tolist()}} then {{df_again[num].to_numpy().tolist()}}')
bad = []
for n in range(N):
    r = df.iloc[n]; a = np.nan_to_num(x[n])
    pt, pc, tr, tp, rc = int(r.peak_time_idx), int(r.peak_trace_idx), int(r.trough_time_idx), int(r.tip_time_idx), int(r.recovery_time_idx)
    if r.peak_val != a[pt, pc]: bad.append('peak value')
    tg = int(np.argmax(np.abs(a[:, pc]))); g = a[tg, pc]
    exp_pt = tg
    if g > 0:
        tq = tg + int(np.argmin(a[tg:, pc])); xq = a[tq, pc]
        if xq != 0 and abs(g / xq) <= 1.5: exp_pt = tq
    if np.abs(a[:, pc]).max() >= np.abs(a).max() and pt != exp_pt: bad.append(('peak index', pt, 'expected (global extremum / documented trough swap)', exp_pt))
    if np.abs(a[:, pc]).max() < np.abs(a).max(): bad.append('peak channel')
    if not (tp < pt <= tr): bad.append(('order', tp, pt, tr))
    if rc != min(tr + k, T - 1): bad.append(('recovery', rc, tr, k))
    sgn = -1 if r.peak_val > 0 else 1
    if np.any(a[pt:, pc] * sgn > a[tr, pc] * sgn) : bad.append('trough not extremum after peak')
    if np.any(a[:pt, pc] * sgn > a[tp, pc] * sgn): bad.append('tip not extremum before peak')
    half = r.peak_val / 2; back = a[:, pc] * sgn > half * sgn
    hp, hq = int(r.half_peak_post_time_idx), int(r.half_peak_pre_time_idx)
    if back[pt:].any() and hp != pt + int(np.argmax(back[pt:])): bad.append(('half post', hp))
    if back[:pt].any() and hq != int(np.where(back[:pt])[0][-1]): bad.append(('half pre', hq))
print(df.T, bad)
if bad: reproduced(str(bad))
not_reproduced()
"""
    T, k = params["T"], params["k"]
    C = params.get("C", 2 if case.startswith("channel") else 1)
    N = 2 if case.startswith("batch") else 1
    x = [[[F(m.get(f"x{n}_{t}_{c}", 0)) for c in range(C)] for t in range(T)] for n in range(N)]
    cval = F(m["c"]) if "c" in m else 2.0
    return f"""
import ibldsp.waveforms as w
x = np.array({x}, dtype=float); k = {k}; kind = {case!r}
f = lambda a: w.compute_spike_features(a.copy(), fs=1000.0, recovery_duration_ms=float(k))
idx = {INDEX_COLS!r}; val = {VALUE_COLS!r}
bad = []
try:
    d1 = f(x)
    if kind.startswith('scaling'):
        d2 = f(x * {cval!r})
        for c_ in idx + ['peak_trace_idx']:
            if d1[c_][0] != d2[c_][0]: bad.append(('index changed', c_))
        for c_ in val:
            if not np.isclose(d1[c_][0] * {cval!r}, d2[c_][0]): bad.append(('value not scaled', c_))
    elif kind.startswith('channel'):
        d2 = f(x[:, :, ::-1])
        if d1['peak_trace_idx'][0] != 1 - d2['peak_trace_idx'][0]: bad.append('peak channel not permuted')
        for c_ in idx + val:
            if d1[c_][0] != d2[c_][0]: bad.append(('changed', c_))
    elif kind.startswith('single_2d'):
        d2 = f(x[0])
        for c_ in idx + val + ['peak_trace_idx']:
            if d1[c_][0] != d2[c_][0]: bad.append(('2-D input differs from a batch of one', c_, d1[c_][0], d2[c_][0]))
    else:
        d2 = f(x[:1])
        for c_ in idx + val + ['peak_trace_idx']:
            if d1[c_][0] != d2[c_][0]: bad.append(('depends on batch', c_))
except Exception as e:
    reproduced(f'raised {{type(e).__name__}}: {{e}}')
print(bad)
if bad: reproduced(str(bad))
not_reproduced()
"""

# level text addendum (cases added after the seeded-change rounds)
LEVEL_TEXT = LEVEL_TEXT + ' Also: integer waveforms, the ranking step alone under a single-precision rounding model, every call repeated on the same array.'
LEVEL_TEXT = LEVEL_TEXT + ' Round 6: a single waveform given as a 2-D (time, channel) array equals the batch of one.'
