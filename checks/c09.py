"""
C09 - Metadata parsing, derived acquisition parameters and writing round-trip.
The real read_meta_data / write_meta_data / _conversion_sample2v_from_meta / type, version, fs, channel
and sync helpers run on metadata TEXT in which the numbers of interest are placeholder tokens
(symbolic gains, durations, list entries).
"""
from fractions import Fraction

import numpy as np
import z3

from symex import arrays, core, fakefs, sglx, tokens
from symex.core import all_, and_, implies, not_, or_
from symex.fakefs import FakePath
from symex.harness import Case, Twin

PROPERTY = "C09"
FUNCTIONS = ["spikeglx.read_meta_data", "spikeglx.write_meta_data", "spikeglx._conversion_sample2v_from_meta", "spikeglx._get_max_int_from_meta",
             "spikeglx._get_type_from_meta", "spikeglx._get_neuropixel_version_from_meta", "spikeglx._get_neuropixel_major_version_from_meta",
             "spikeglx._get_fs_from_meta", "spikeglx._get_nchannels_from_meta", "spikeglx._get_sync_trace_indices_from_meta",
             "spikeglx._get_analog_sync_trace_indices_from_meta", "spikeglx.Reader.ns/nc/nsync/fs/type/version/range_volts (meta branch of __init__)"]
ASSUMPTIONS = [
    "symbolic numbers appear in the metadata text as one placeholder character each; the repo's regexes use only [0-9] classes and literals, so a placeholder stands for any digit string (the `re` facade widens [0-9] accordingly)",
    "gains are positive integers; floats as exact reals (the float32 rounding of the factor is covered by the IEEE lemma in C01/C03)",
    "probe type codes, keys and stream layouts are concrete per case (every type in the statement is a case)",
]
OUTSIDE = ["parse -> write -> parse identity over arbitrary free text (regex/float() on fully symbolic strings: CrossHair only returns 'not confirmed'; see DESIGN.md)",
           "values that match [0-9,.]* without being numbers ('.', ',', '1,,2')"]
EXPLANATION = "per probe type/stream a metadata text is parsed by the real parser; gains/durations/list values are symbolic."
LEVEL_TEXT = ("For every probe type and stream and for ALL positive integer gain tables (per-channel AP/LF gains symbolic), durations and integer list values, z3 decides that "
              "the derived quantities equal an independent reading of the same fields (factor = range/maxint/gain with 1 on sync, sync/analog-sync indices, counts, type, version), "
              "and that read(write(d)) == d for dictionaries with symbolic scalars and integer lists.")
LEVEL_NOTE = "Trusted: z3, the placeholder-token model of number<->text conversion, the fake file (write/read of text)."

VERSIONS = {"3A": "3A", "3B1": "3B1", "3B2": "3B2", "NP2.1": "NP2.1", "NP2.4": "NP2.4", "NP2.4b": "NP2.4", "NPultra": "NPultra"}
MAJOR = {"3A": 1, "3B1": 1, "3B2": 1, "NP2.1": 2, "NP2.4": 2.4, "NP2.4b": 2.4, "NPultra": "NPultra"}
MAXINT = {"3A": 512, "3B1": 512, "3B2": 512, "NP2.1": 8192, "NP2.4": 8192, "NP2.4b": 2048, "NPultra": 512}


def bounds(tier):
    return {"sites": 3 if tier == "quick" else 6, "list_len": 3 if tier == "quick" else 5, "kinds": list(VERSIONS)}


def setup():
    sglx.patch()


def case_imec(ctx, kind, band, n, extra_imro, nsync=1, new_header=False):
    import spikeglx
    P = sglx.PROBE_TYPES[kind]
    gains = [(ctx.int(f"ap{i}", 1, 10000), ctx.int(f"lf{i}", 1, 10000)) for i in range(n)]
    T = ctx.real("fileTimeSecs", 0, 100000)
    sites = [(0, i % 2, i // 2) for i in range(n)]
    fs_txt = "30000.390639481" if kind != "3A" else "30000"
    extra = None
    if new_header:
        # keys written by recent SpikeGLX versions (2022+): they describe channel 0 only and must not override the per-channel table
        extra = [f"imChan0apGain={sglx.S(gains[0][0])}", f"imChan0lfGain={sglx.S(gains[0][1])}", "imAnyChanFullBand=false", "imChan0Ref=ext", "imIsSvyRun=false", "imLowLatency=false"]
    txt = sglx.imec_meta_text(kind, sites, gains=gains, band=band, ns=sglx.S(T), fs_hz=fs_txt, imro_extra_entries=extra_imro, nsync=nsync, extra=extra)
    F, binp = sglx.install_recording("/d/x.imec." + band, txt, content=None, size=0)
    sr = ctx.call("reader_init", spikeglx.Reader, binp, open=False)
    md = sr.meta
    ctx.oblige("version_string", sr.version == VERSIONS[kind], detail={"got": str(sr.version)})
    ctx.oblige("major_version", sr.major_version == MAJOR[kind])
    ctx.oblige("stream_type", sr.type == band, detail={"got": str(sr.type)})
    fs_val = Fraction(float(fs_txt))
    ctx.oblige("sampling_rate", core.eq(sr.fs, float(fs_txt)))
    ctx.oblige("channel_count", core.eq(sr.nc, n + nsync))
    ctx.oblige("sync_count", core.eq(sr.nsync, nsync), detail={"nsync": sr.nsync})
    ctx.oblige("sync_indices_are_last_channels", list(spikeglx._get_sync_trace_indices_from_meta(md)) == list(range(n, n + nsync)), detail={"got": str(spikeglx._get_sync_trace_indices_from_meta(md))})
    ctx.oblige("no_analog_sync_on_imec", list(spikeglx._get_analog_sync_trace_indices_from_meta(md)) == [])
    ns = sr.ns
    prod = T * fs_val
    ctx.oblige("sample_count_is_rounded_duration_times_rate", and_(core._as_real(ns) - prod <= Fraction(1, 2), prod - core._as_real(ns) <= Fraction(1, 2)), detail={"ns": ns})
    s2v = sr.sample2volts
    if not ctx.oblige("factor_vector_length_is_channel_count", s2v.shape == (n + nsync,), detail={"shape": str(s2v.shape)}):
        return
    rng = Fraction(float(P["rng"]))
    k = Fraction(float(P["rng"]) / MAXINT[kind])  # the double the code computes
    for c in range(n):
        if P["major"] == 1 or kind == "NPultra":
            g = gains[c][0] if band == "ap" else gains[c][1]
            # factor * gain == range/maxint
            if kind == "NPultra":
                pass
            ctx.oblige("factor_is_range_over_maxint_over_gain", core.eq(s2v[c] * g, core._as_real(k)), detail={"c": c, "factor": s2v[c]})
        else:
            ctx.oblige("np2_factor_is_range_over_maxint_over_80", abs(float(s2v[c]) - float(k) / 80) <= 1e-7 * float(k) / 80, detail={"c": c})
    if nsync:
        ctx.oblige("sync_factor_is_one", core.eq(s2v[n], 1))
    rv = sr.range_volts
    for c in range(n):
        ctx.oblige("range_volts_is_factor_times_maxint", core.eq(rv[c], s2v[c] * MAXINT[kind]), detail={"c": c})


def case_nidq(ctx, mn, ma, xa, dw, acq=None):
    import spikeglx
    gmn = ctx.int("niMNGain", 1, 10000)
    gma = ctx.int("niMAGain", 1, 10000)
    T = ctx.real("fileTimeSecs", 0, 100000)
    txt = sglx.nidq_meta_text(mn, ma, xa, dw, mn_gain=gmn, ma_gain=gma, ns=sglx.S(T), acq=acq)
    F, binp = sglx.install_recording("/d/x.nidq", txt)
    sr = ctx.call("reader_init", spikeglx.Reader, binp, open=False)
    md = sr.meta
    n = mn + ma + xa + dw
    ctx.oblige("nidq_type", sr.type == "nidq")
    ctx.oblige("nidq_version_none", sr.version is None)
    ctx.oblige("nidq_geometry_none", sr.geometry is None)
    ctx.oblige("nidq_fs", core.eq(sr.fs, 30003.0003))
    ctx.oblige("nidq_nc", core.eq(sr.nc, n))
    ctx.oblige("nidq_sync_indices", list(spikeglx._get_sync_trace_indices_from_meta(md)) == list(range(n - dw, n)))
    ctx.oblige("nidq_analog_sync_indices", list(spikeglx._get_analog_sync_trace_indices_from_meta(md)) == list(range(mn + ma, mn + ma + xa)))
    s2v = sr.sample2volts
    if not ctx.oblige("nidq_factor_vector_length", s2v.shape == (n,), detail={"shape": str(s2v.shape)}):
        return
    k = Fraction(5.0 / 32768)
    for c in range(n):
        if c < mn:
            ctx.oblige("nidq_mn_factor", core.eq(s2v[c] * gmn, core._as_real(k)), detail={"c": c})
        elif c < mn + ma:
            ctx.oblige("nidq_ma_factor", core.eq(s2v[c] * gma, core._as_real(k)), detail={"c": c})
        elif c < mn + ma + xa:
            ctx.oblige("nidq_xa_factor", core.eq(s2v[c], core._as_real(k)), detail={"c": c})
        else:
            ctx.oblige("nidq_digital_factor_is_one", core.eq(s2v[c], 1), detail={"c": c})


TRICKY = {"fileName": "D:/a=b/c d.bin", "userNotes": "", "imRoFile": "x=y=z", "gateMode": "Immediate", "snsSaveChanSubset": "0:383,768",
          "imroTbl": "(0,384)(0 0 0 500 250 1)", "fileSHA1": "D4CE63AFA12937A1904D344B93C90B64573782D3", "appVersion": 20180829.0,
          "imAiRangeMax": 0.6, "imSampRate": 30000.390639481,
          # strings made of digits and punctuation only: dates, ranges, placeholders (round 6)
          "userDate": "2019-06-04", "userRange": "0-383", "userPlaceholder": "-", "userSerial": "555-0100"}


def case_write_read(ctx, nlist):
    import spikeglx
    d = dict(TRICKY)
    a = ctx.int("scalar_int", 0, 10 ** 9)
    r = ctx.real("scalar_real", 0, 10 ** 6)
    lst = [ctx.int(f"l{i}", 0, 10 ** 9 - 1) for i in range(nlist)]
    d["nSavedChans"] = core._as_real(a)
    d["fileTimeSecs"] = r
    d["snsApLfSy"] = [core._as_real(x) for x in lst]
    d["typeThis"] = "imec"
    d["imDatPrb_type"] = 0.0
    fakefs.install(fakefs.FakeFS())
    p = FakePath("/d/out.meta")
    ctx.call("write_meta_data", spikeglx.write_meta_data, d, p)
    back = ctx.call("read_meta_data", spikeglx.read_meta_data, p)
    for k, v in d.items():
        if not ctx.oblige("key_survives", k in back, detail={"key": k}):
            continue
        w = back[k]
        if isinstance(v, list):
            ok = isinstance(w, (list, float, core.SReal)) and (len(w) == len(v) if isinstance(w, list) else len(v) == 1)
            ctx.oblige("list_length_survives", ok, detail={"key": k})
            if ok:
                ws = w if isinstance(w, list) else [w]
                for x, y in zip(v, ws):
                    ctx.oblige("list_value_survives", core.eq(x, y), detail={"key": k})
        elif isinstance(v, str):
            ctx.oblige("string_value_survives", w == v, detail={"key": k, "got": repr(w)})
        else:
            ctx.oblige("scalar_value_survives", core.eq(v, w) if isinstance(w, (int, float, core.Sym)) else False, detail={"key": k, "got": repr(w)})
    ctx.oblige("only_derived_keys_added", set(back.keys()) - set(d.keys()) <= {"neuropixelVersion", "serial"})
    # tilde keys: written file of a parsed '~key' has the tilde removed and still parses
    txt = "~snsShankMap=(1,2,480)(0:0:0:1)\nimDatPrb_type=0\ntypeThis=imec\n"
    F = fakefs.fs()
    F.add("/d/t.meta", True, len(txt), [{"pos": 0, "text": txt}])
    m1 = spikeglx.read_meta_data(FakePath("/d/t.meta"))
    ctx.oblige("tilde_removed_from_key", "snsShankMap" in m1 and "~snsShankMap" not in m1)
    # tilde keys carrying plain numbers: parse -> write -> parse gives an equal dictionary (the writer drops the tilde)
    txt2 = "~nShankSel=4\n~userList=1,2,3\n~snsShankMap=(1,2,480)(0:0:0:1)\nimDatPrb_type=0\ntypeThis=imec\n"
    F.add("/d/t2.meta", True, len(txt2), [{"pos": 0, "text": txt2}])
    a1 = spikeglx.read_meta_data(FakePath("/d/t2.meta"))
    ctx.call("write_meta_data_again", spikeglx.write_meta_data, a1, FakePath("/d/t3.meta"))
    a2 = ctx.call("read_meta_data_again", spikeglx.read_meta_data, FakePath("/d/t3.meta"))
    for k in ("nShankSel", "userList", "snsShankMap"):
        same = k in a1 and k in a2 and type(a1[k]) is type(a2[k]) and (a1[k] == a2[k] if not isinstance(a1[k], list) else (len(a1[k]) == len(a2[k]) and all(bool(core.eq(x, y)) for x, y in zip(a1[k], a2[k]))))
        ctx.oblige("tilde_key_round_trips_to_an_equal_value", bool(same) if not isinstance(same, core.Sym) else same, detail={"key": k, "first": repr(a1.get(k)), "second": repr(a2.get(k))})


def cases(tier):
    b = bounds(tier)
    cs = []
    for kind in b["kinds"]:
        for band in ("ap", "lf"):
            if band == "lf" and kind.startswith("NP2") and tier == "quick":
                continue
            cs.append(Case(f"imec_{kind}_{band}", "case_imec", {"kind": kind, "band": band, "n": b["sites"], "extra_imro": 0}))
    cs.append(Case("imec_3B2_ap_recent_header", "case_imec", {"kind": "3B2", "band": "ap", "n": b["sites"], "extra_imro": 0, "new_header": True}))
    cs.append(Case("imec_3B2_ap_saved_without_sync", "case_imec", {"kind": "3B2", "band": "ap", "n": b["sites"], "extra_imro": 0, "nsync": 0}))
    cs.append(Case("imec_NP2.1_lf_saved_without_sync", "case_imec", {"kind": "NP2.1", "band": "lf", "n": b["sites"], "extra_imro": 0, "nsync": 0}))
    cs.append(Case("imec_3B2_ap_subset", "case_imec", {"kind": "3B2", "band": "ap", "n": b["sites"], "extra_imro": 2}))
    cs.append(Case("imec_3A_lf_subset", "case_imec", {"kind": "3A", "band": "lf", "n": b["sites"], "extra_imro": 2}))
    for (mn, ma, xa, dw) in ((0, 0, 1, 1), (2, 1, 2, 1), (1, 0, 0, 1)) + (((3, 2, 1, 1),) if tier == "thorough" else ()):
        cs.append(Case(f"nidq_{mn}{ma}{xa}{dw}", "case_nidq", {"mn": mn, "ma": ma, "xa": xa, "dw": dw}))
    # only part of the acquired nidq channels saved: the acquired layout differs from the saved one
    cs.append(Case("nidq_2121_of_4232_acquired", "case_nidq", {"mn": 2, "ma": 1, "xa": 2, "dw": 1, "acq": [4, 2, 3, 2]}))
    cs.append(Case("nidq_0011_of_1121_acquired", "case_nidq", {"mn": 0, "ma": 0, "xa": 1, "dw": 1, "acq": [1, 1, 2, 1]}))
    cs.append(Case("write_read", "case_write_read", {"nlist": b["list_len"]}))
    return cs


def twins(tier):
    m = "spikeglx"
    return [
        Twin("swap_ap_lf_gain", m, 'np.array([1 / np.float32(g.split(" ")[-2]) for g in gain])', 'np.array([1 / np.float32(g.split(" ")[-1]) for g in gain])', ["imec_3B2_ap", "imec_3A_ap"]),
        Twin("gain_not_cut_to_saved", m, ")[:n_chn]", ")", ["imec_3B2_ap_subset", "imec_3A_lf_subset"]),
        Twin("sync_count_from_lf", m, 'nsync = int(md.get("snsApLfSy")[2])', 'nsync = int(md.get("snsApLfSy")[1]) + 1', ["imec_3B2_ap", "imec_3B2_lf", "imec_3A_lf"]),
        Twin("maxsplit_removed", m, 'k, v = a.split("=", maxsplit=1)', 'k, v = a.split("=")[:2]', ["write_read"]),
        Twin("tilde_kept", m, 'd[k.replace("~", "")] = v', "d[k] = v", ["write_read"]),
        Twin("nidq_ma_uses_mn_gain", m, '/ meta_data["niMAGain"]', '/ meta_data["niMNGain"]', ["nidq_2121", "nidq_3211"]),
        Twin("analog_sync_offset", m, "return list(range(int(sum(tr[0:2])), int(sum(tr[0:2])) + nsa))", "return list(range(int(sum(tr[0:1])), int(sum(tr[0:1])) + nsa))", ["nidq_2121"]),
        Twin("np1_maxint_default", m, 'return int(md.get("imMaxInt", 512))', 'return int(md.get("imMaxInt", 8192))', ["imec_3A_ap", "imec_3B1_ap"]),
        Twin("ns_truncated", m, 'return int(np.round(self.meta.get("fileTimeSecs") * self.fs))', 'return int(self.meta.get("fileTimeSecs") * self.fs)', ["imec_3B2_ap"]),
    ]


def replay(case, params, cex):
    m = cex["model"]
    ob = cex["obligation"]
    if case.startswith("imec"):
        kind, band, n, extra = params["kind"], params["band"], params["n"], params["extra_imro"]
        gains = [(m[f"ap{i}"], m[f"lf{i}"]) for i in range(n)]
        T = float(Fraction(m["fileTimeSecs"]))
        return f"""
import sys, tempfile, pathlib
sys.path.insert(0, '/verif')
from symex import sglx
import spikeglx
kind, band, n = {kind!r}, {band!r}, {n}
gains = {gains}
sites = [(0, i % 2, i // 2) for i in range(n)]
fs_txt = "30000.390639481" if kind != "3A" else "30000"
T = {T!r}
nsync, new_header = {params.get('nsync', 1)}, {params.get('new_header', False)}
extra_lines = [f"imChan0apGain={{gains[0][0]}}", f"imChan0lfGain={{gains[0][1]}}", "imAnyChanFullBand=false", "imChan0Ref=ext", "imIsSvyRun=false", "imLowLatency=false"] if new_header else None
txt = sglx.imec_meta_text(kind, sites, gains=gains, band=band, ns=repr(T), fs_hz=fs_txt, imro_extra_entries={extra}, nsync=nsync, extra=extra_lines)
d = pathlib.Path(tempfile.mkdtemp())
(d / f'x.imec.{{band}}.meta').write_text(txt)
sr = spikeglx.Reader(d / f'x.imec.{{band}}.meta', open=False)
P = sglx.PROBE_TYPES[kind]
maxint = {MAXINT[kind]}
k = float(P['rng']) / maxint
exp = np.array([(k / (g[0] if band == 'ap' else g[1])) if (P['major'] == 1 or kind == 'NPultra') else k / 80 for g in gains] + [1.0] * nsync)
s2v = sr.sample2volts
print(sr.version, sr.type, sr.nc, sr.nsync, sr.ns, s2v, exp)
bad = []
if sr.version != {VERSIONS[kind]!r}: bad.append('version')
if sr.type != band: bad.append('type')
if sr.nc != n + nsync or sr.nsync != nsync: bad.append(('counts', sr.nc, sr.nsync))
if spikeglx._get_sync_trace_indices_from_meta(sr.meta) != list(range(n, n + nsync)): bad.append(('sync idx', spikeglx._get_sync_trace_indices_from_meta(sr.meta)))
if s2v.shape != exp.shape or not np.allclose(s2v, exp, rtol=1e-6): bad.append('factor')
if abs(sr.ns - T * float(fs_txt)) > 0.5 + 1e-6: bad.append('ns')
if not np.allclose(sr.range_volts[:n], s2v[:n] * maxint): bad.append('range_volts')
if bad: reproduced(str(bad))
not_reproduced()
"""
    if case.startswith("nidq"):
        mn, ma, xa, dw = params["mn"], params["ma"], params["xa"], params["dw"]
        return f"""
import sys, tempfile, pathlib
sys.path.insert(0, '/verif')
from symex import sglx
import spikeglx
mn, ma, xa, dw = {mn}, {ma}, {xa}, {dw}
gmn, gma = {m['niMNGain']}, {m['niMAGain']}
txt = sglx.nidq_meta_text(mn, ma, xa, dw, mn_gain=gmn, ma_gain=gma, ns='10.5', acq={params.get('acq')!r})
d = pathlib.Path(tempfile.mkdtemp()); (d / 'x.nidq.meta').write_text(txt)
sr = spikeglx.Reader(d / 'x.nidq.meta', open=False)
k = 5.0 / 32768
exp = np.array([k / gmn] * mn + [k / gma] * ma + [k] * xa + [1.0] * dw)
n = mn + ma + xa + dw
print(sr.sample2volts, exp)
bad = []
if sr.sample2volts.shape != exp.shape or not np.allclose(sr.sample2volts, exp, rtol=1e-9): bad.append('factor')
if spikeglx._get_sync_trace_indices_from_meta(sr.meta) != list(range(n - dw, n)): bad.append('sync')
if spikeglx._get_analog_sync_trace_indices_from_meta(sr.meta) != list(range(mn + ma, mn + ma + xa)): bad.append('analog')
if bad: reproduced(str(bad))
not_reproduced()
"""
    if case == "write_read":
        lst = [m[f"l{i}"] for i in range(params["nlist"])]
        return f"""
import tempfile, pathlib, spikeglx
d = dict({TRICKY!r})
d['nSavedChans'] = float({m['scalar_int']}); d['fileTimeSecs'] = float(Fraction({str(m['scalar_real'])!r}))
d['snsApLfSy'] = [float(x) for x in {lst}]; d['typeThis'] = 'imec'; d['imDatPrb_type'] = 0.0
p = pathlib.Path(tempfile.mkdtemp()) / 'out.meta'
spikeglx.write_meta_data(d, p)
try:
    back = spikeglx.read_meta_data(p)
except Exception as e:
    reproduced('a file written by write_meta_data cannot be parsed again: ' + repr(e))
print(p.read_text()); print(dict(back))
bad = [k for k, v in d.items() if k not in back or (back[k] != v and not (isinstance(v, float) and abs(back[k] - v) <= 1e-12 * abs(v)))]
if set(back) - set(d) - {{'neuropixelVersion', 'serial'}}: bad.append('extra keys')
(p.parent / 't.meta').write_text('~snsShankMap=(1,2,480)(0:0:0:1)\\nimDatPrb_type=0\\ntypeThis=imec\\n')
if 'snsShankMap' not in spikeglx.read_meta_data(p.parent / 't.meta'): bad.append('tilde')
(p.parent / 't2.meta').write_text('~nShankSel=4\\n~userList=1,2,3\\n~snsShankMap=(1,2,480)(0:0:0:1)\\nimDatPrb_type=0\\ntypeThis=imec\\n')
a1 = spikeglx.read_meta_data(p.parent / 't2.meta'); spikeglx.write_meta_data(a1, p.parent / 't3.meta'); a2 = spikeglx.read_meta_data(p.parent / 't3.meta')
for k in ('nShankSel', 'userList', 'snsShankMap'):
    if k not in a1 or k not in a2 or type(a1[k]) is not type(a2[k]) or a1[k] != a2[k]: bad.append(('tilde key does not round-trip', k, a1.get(k), a2.get(k)))
if bad: reproduced(str(bad))
not_reproduced()
"""
    return None

# level text addendum (cases added after the seeded-change rounds)
LEVEL_TEXT = LEVEL_TEXT + " Also: acquired vs saved nidq layouts, recent-style headers, streams saved without a sync channel, '%g'-formatted lists."
LEVEL_TEXT = LEVEL_TEXT + ' Round 6: string values made of digits, dashes, commas and dots only (dates, ranges, placeholders).'
LEVEL_TEXT = LEVEL_TEXT + ' Round 7: tilde-prefixed keys with plain numeric values in the read-write-read law.'
