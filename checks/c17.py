"""
C17 - Sliding windows cover, overlap, partition and splice exactly.

Real code executed symbolically: ibldsp.utils.WindowGenerator (__init__, firstlast, firstlast_valid,
firstlast_splicing, slice, tscale) with ns, nswin, overlap as z3 Ints.
"""
import numpy as np
import z3

from symex import arrays, core, larr, stubs
from symex.core import SInt, all_, and_, implies, mkbool, or_
from symex.harness import Case, Twin

PROPERTY = "C17"
FUNCTIONS = ["ibldsp.utils.WindowGenerator.__init__", "WindowGenerator.firstlast", "WindowGenerator.firstlast_valid",
             "WindowGenerator.firstlast_splicing", "WindowGenerator.slice", "WindowGenerator.tscale"]
ASSUMPTIONS = [
    "1 <= ns, 1 <= nswin, 0 <= overlap < nswin (the property's precondition), and at most K windows (stated bound; a path needing more is inconclusive, not a pass)",
    "floats as exact reals in the window-count formula and tscale (values are far below 2^53); additionally the window-count formula is decided in exact IEEE double arithmetic (cvc5) for lengths < 64 / windows < 16 (quick), < 512 / < 64 (thorough)",
    "splicing: the Hann ramp is modelled as free reals w_i constrained only by the code's own assertion w_i + w_(ov-1-i) == 1 and 0<=w_i<=1; overlap is concrete per case",
]
OUTSIDE = ["more than K windows per signal", "scipy.signal.windows.hann numerics (only its symmetry, which the code asserts, is used)"]
EXPLANATION = "ns/nswin/overlap are symbolic; each feasible window count is one path."
LEVEL_TEXT = ("Every obligation (cover, exact overlap, announced count, centre time scale, valid-range tiling, splicing amplitudes "
              "summing to one at an arbitrary sample) is decided by z3 for ALL (ns, nswin, overlap) with at most K windows "
              "(K=6 quick / 12 thorough, ns<=1e6, nswin<=1e5), not for sampled triples; beyond K windows nothing is claimed.")
LEVEL_NOTE = ("Trusted: z3; the SInt/SReal scalar model (floats as exact reals) and the lazy-array model of np.ones/slice assignment "
              "(symex/larr.py); scipy's Hann ramp is replaced by free reals constrained by the symmetry the code itself asserts.")


def bounds(tier):
    return {"max_windows_K": 6 if tier == "quick" else 24, "ns_max": 10 ** 6, "nswin_max": 10 ** 5,
            "splicing_overlaps": [0, 2, 4, 8] if tier == "quick" else [0, 1, 2, 3, 4, 5, 6, 8, 12, 16]}


def setup():
    import ibldsp.utils as u
    larr.patch_module(u)



def _inputs(ctx, K, overlap=None):
    ns = ctx.int("ns", 1, 10 ** 6)
    nswin = ctx.int("nswin", 1, 10 ** 5)
    ov = ctx.int("overlap", 0, 10 ** 5) if overlap is None else overlap
    ctx.assume(ov < nswin)
    # bound: at most K windows  <=>  ns <= nswin + (K-1)*(nswin-overlap)
    ctx.assume(ns <= nswin + (K - 1) * (nswin - ov))
    return ns, nswin, ov


def case_firstlast(ctx, K):
    import ibldsp.utils as u
    ns, nswin, ov = _inputs(ctx, K)
    wg = u.WindowGenerator(ns, nswin, ov)
    wins = []
    for first, last in wg.firstlast:
        wins.append((first, last))
        if len(wins) > K:
            raise core.BoundExceeded("more windows than the stated bound K")
    n = len(wins)
    ctx.oblige("starts_at_zero", core.eq(wins[0][0], 0))
    ctx.oblige("ends_at_ns", core.eq(wins[-1][1], ns))
    for k in range(n):
        f, l = wins[k]
        ctx.oblige("window_nonempty_and_le_nswin", and_(l - f >= 1, l - f <= nswin))
        if k < n - 1:
            ctx.oblige("only_last_window_shorter", core.eq(l - f, nswin))
            ctx.oblige("overlap_exact", core.eq(l - wins[k + 1][0], ov))
            ctx.oblige("starts_increase", wins[k + 1][0] > f)
            ctx.oblige("no_gap", wins[k + 1][0] <= l)
    ctx.oblige("nwin_equals_produced", core.eq(wg.nwin, n), detail={"nwin": wg.nwin, "produced": n})
    # iw after the loop = index of the last window
    ctx.oblige("iw_is_last_index", core.eq(wg.iw, n - 1))
    # slices
    sl = list(wg.slice)
    ctx.oblige("slice_matches_firstlast", all_([and_(core.eq(s.start, w[0]), core.eq(s.stop, w[1])) for s, w in zip(sl, wins)] + [len(sl) == n]))
    # time scale = centre of each window
    fs = ctx.int("fs", 1, 10 ** 5)
    ts = wg.tscale(fs)
    for k in range(n):
        f, l = wins[k]
        ctx.oblige("tscale_is_window_centre", core.eq(ts[k] * fs * 2, core._as_real(f + l - 1)))
    # a second request with another sampling rate is answered for that rate
    fs2 = ctx.int("fs2", 1, 10 ** 5)
    ts2 = wg.tscale(fs2)
    for k in range(n):
        f, l = wins[k]
        ctx.oblige("tscale_second_rate_is_window_centre", core.eq(ts2[k] * fs2 * 2, core._as_real(f + l - 1)))
    return n


def case_slice_array(ctx, ns, nswin, overlap, ndim, axis):
    """slice_array hands out sig[first:last] along the requested axis (negative axes count from the end, NumPy convention)"""
    import ibldsp.utils as u
    shape = {1: (ns,), 2: (2, ns), 3: (2, 2, ns)}[ndim]
    ax = axis % ndim
    if ax != ndim - 1:
        shape = tuple(ns if i == ax else 2 for i in range(ndim))
    els = [ctx.real(f"s{i}", -100, 100) for i in range(int(np.prod(shape)))]
    sig = arrays.mk(els, shape=shape)
    wg = u.WindowGenerator(ns, nswin, overlap)
    wins = list(u.WindowGenerator(ns, nswin, overlap).firstlast)
    got = list(wg.slice_array(sig, axis=axis)) if axis != -1 else list(wg.slice_array(sig))
    if not ctx.oblige("slice_array_one_piece_per_window", len(got) == len(wins), detail={"got": len(got)}):
        return
    ref = np.array(els, dtype=object).reshape(shape)
    for (f, l), g in zip(wins, got):
        idx = tuple(slice(f, l) if i == ax else slice(None) for i in range(ndim))
        exp = ref[idx]
        if not ctx.oblige("slice_array_piece_shape", tuple(np.shape(g)) == exp.shape, detail={"window": [f, l], "got": str(np.shape(g)), "expected": str(exp.shape)}):
            continue
        for a, b in zip(np.asarray(g, dtype=object).ravel().tolist(), exp.ravel().tolist()):
            ctx.oblige("slice_array_piece_values", core.eq(a, b), detail={"window": [f, l]})


def case_valid(ctx, K, odd=False):
    import ibldsp.utils as u
    ns, nswin, ov = _inputs(ctx, K)
    h = ctx.int("half_overlap", 0, 10 ** 5)
    ctx.assume(core.eq(ov, 2 * h + (1 if odd else 0)))
    wg = u.WindowGenerator(ns, nswin, ov)
    out = []
    gen = wg.firstlast_valid
    if odd:
        # an odd overlap has no middle: the generator may refuse it (it does, with an AssertionError); if it answers, the valid ranges
        # must still contain every sample exactly once
        try:
            first_item = next(gen)
        except AssertionError:
            ctx.oblige("odd_overlap_refused_before_any_window_is_handed_out", len(out) == 0)
            return 0
        out.append(first_item)
    for tup in gen:
        out.append(tup)
        if len(out) > K:
            raise core.BoundExceeded("more windows than the stated bound K")
    n = len(out)
    ctx.oblige("valid_starts_at_zero", core.eq(out[0][2], 0))
    ctx.oblige("valid_ends_at_ns", core.eq(out[-1][3], ns))
    for k in range(n):
        f, l, fv, lv = out[k]
        ctx.oblige("valid_inside_window", and_(f <= fv, lv <= l))
        ctx.oblige("valid_nonempty", fv < lv, detail={"k": k, "first_valid": fv, "last_valid": lv})
        if k < n - 1:
            ctx.oblige("valid_tiles", core.eq(lv, out[k + 1][2]))
    return n


def case_splicing(ctx, K, overlap):
    """amplitudes of the windows containing an arbitrary sample t sum to one (overlap <= nswin/2)"""
    import ibldsp.utils as u
    import scipy.signal
    ns, nswin, ov = _inputs(ctx, K, overlap)
    ctx.assume(2 * ov <= nswin)
    # Hann ramp as free reals with the code's own symmetry assertion
    ws = [ctx.real(f"w{i}", 0, 1) for i in range(overlap)]
    for i in range(overlap):
        ctx.assume(core.eq(ws[i] + ws[overlap - 1 - i], 1))

    def fake_hann(M, sym=True):
        assert M == (overlap + 1) * 2 + 1 and sym
        return arrays.mk([0.0] + ws + [1.0] + ws[::-1] + [0.0])

    class _W:
        hann = staticmethod(fake_hann)

    class _S:
        windows = _W

    class _Sc:
        signal = _S

    u.scipy = _Sc
    wg = u.WindowGenerator(ns, nswin, ov)
    t = ctx.int("t", 0)
    ctx.assume(t < ns)
    total = 0
    n = 0
    try:
        for first, last, amp in wg.firstlast_splicing:
            n += 1
            if n > K:
                raise core.BoundExceeded("more windows than the stated bound K")
            ctx.oblige("amp_length_is_window_length", core.eq(amp.shape[0], last - first))
            inside = and_(first <= t, t < last)
            if bool(inside):
                a = amp[t - first]
                ctx.oblige("amp_in_unit_interval", and_(a >= 0, a <= 1))
                total = total + a
    except (ValueError, IndexError, AssertionError) as e:
        ctx.oblige("splicing_no_exception", False, detail={"exception": repr(e), "window": n})
        return n
    ctx.oblige("amplitudes_sum_to_one", core.eq(total, 1), detail={"sum": total, "nwindows": n})
    return n


def case_valid_interleaved(ctx, K, other):
    """two generators of ONE WindowGenerator advanced in lock-step (the usual `zip(wg.firstlast_valid, wg.<other>)` loop):
    the valid ranges must still tile [0, ns)"""
    import ibldsp.utils as u
    ns, nswin, ov = _inputs(ctx, K)
    h = ctx.int("half_overlap", 0, 10 ** 5)
    ctx.assume(core.eq(ov, 2 * h))
    wg = u.WindowGenerator(ns, nswin, ov)
    second = wg.firstlast if other == "firstlast" else wg.slice
    out = []
    for tup, _ in zip(wg.firstlast_valid, second):
        out.append(tup)
        if len(out) > K:
            raise core.BoundExceeded("more windows than the stated bound K")
    n = len(out)
    ctx.oblige("valid_starts_at_zero", core.eq(out[0][2], 0))
    ctx.oblige("valid_ends_at_ns", core.eq(out[-1][3], ns), detail={"last_valid": out[-1][3]})
    for k in range(n):
        f, l, fv, lv = out[k]
        ctx.oblige("valid_inside_window", and_(f <= fv, lv <= l))
        if k < n - 1:
            ctx.oblige("valid_tiles", core.eq(lv, out[k + 1][2]), detail={"k": k})
    return n


def case_splicing_collected(ctx, nswin, overlap, K):
    """all (first, last, amp) triples are collected first (list(wg.firstlast_splicing)) and used afterwards: every amplitude
    vector must still be the one of its window.  Window length and overlap concrete (real NumPy views), ns symbolic."""
    import ibldsp.utils as u
    ns = ctx.int("ns", 1, nswin + (K - 1) * (nswin - overlap))
    ws = [ctx.real(f"w{i}", 0, 1) for i in range(overlap)]
    for i in range(overlap):
        ctx.assume(core.eq(ws[i] + ws[overlap - 1 - i], 1))

    def fake_hann(M, sym=True):
        assert M == (overlap + 1) * 2 + 1 and sym
        return arrays.mk([0.0] + ws + [1.0] + ws[::-1] + [0.0])
    u.scipy = stubs.Namespace(__import__("scipy"), signal=stubs.Namespace(__import__("scipy").signal, windows=stubs.Namespace(__import__("scipy").signal.windows, hann=fake_hann)))
    wg = u.WindowGenerator(ns, nswin, overlap)
    items = ctx.call("collect", lambda: list(wg.firstlast_splicing))
    t = ctx.int("t", 0)
    ctx.assume(t < ns)
    total = 0
    for first, last, amp in items:
        ctx.oblige("amp_length_is_window_length", core.eq(amp.shape[0], last - first), detail={"first": first, "last": last})
        if bool(and_(first <= t, t < last)):
            total = total + amp[t - first]
    ctx.oblige("collected_amplitudes_sum_to_one", core.eq(total, 1), detail={"sum": total, "nwindows": len(items)})


def case_nwin_ieee(ctx, bits_ns, bits_win):
    """the announced count, with the float formula evaluated in IEEE double arithmetic (cvc5), equals the produced count"""
    from symex import fp
    import ibldsp.utils as u
    W = 16                                   # working width: no overflow for the stated sizes
    arrays.KEEP_BV_INT[0] = 64
    try:
        ns = z3.BitVec("ns", W)
        nswin = z3.BitVec("nswin", W)
        ov = z3.BitVec("overlap", W)
        for nme, t in (("ns", ns), ("nswin", nswin), ("overlap", ov)):
            ctx.inputs[nme] = t
        ctx.solver.add(z3.ULE(1, ns), z3.ULT(ns, 1 << bits_ns), z3.ULE(1, nswin), z3.ULT(nswin, 1 << bits_win), z3.ULT(ov, nswin))
        wg = ctx.call("window_generator", u.WindowGenerator, core.SBV(ns, True), core.SBV(nswin, True), core.SBV(ov, True))
        nwin = wg.nwin
        stride = nswin - ov
        produced = z3.If(z3.ULE(ns, nswin), z3.BitVecVal(1, W), z3.UDiv(ns - nswin + stride - 1, stride) + 1)
        got = nwin.t if isinstance(nwin, core.SBV) else z3.BitVecVal(int(nwin), W)
        if got.size() != W:
            got = z3.Extract(W - 1, 0, got)
        fp.oblige_fp(ctx, "nwin_float_formula_equals_produced_count", got == produced, {"ns": ns, "nswin": nswin, "overlap": ov}, timeout_s=1500)
    finally:
        arrays.KEEP_BV_INT[0] = 0


def cases(tier):
    K = bounds(tier)["max_windows_K"]
    cs = [Case("firstlast", "case_firstlast", {"K": K}), Case("valid", "case_valid", {"K": K}), Case("valid_odd_overlap", "case_valid", {"K": min(K, 6), "odd": True})]
    for ov in bounds(tier)["splicing_overlaps"]:
        cs.append(Case(f"splicing_ov{ov}", "case_splicing", {"K": min(K, 6 if tier == "quick" else 10), "overlap": ov}, timeout_s=3000))
    for other in ("firstlast", "slice"):
        cs.append(Case(f"valid_interleaved_with_{other}", "case_valid_interleaved", {"K": min(K, 8), "other": other}))
    for (nw, ov) in ((6, 2), (5, 0)) if tier == "quick" else ((6, 2), (5, 0), (8, 4), (7, 2), (9, 3)):
        cs.append(Case(f"splicing_collected_w{nw}_ov{ov}", "case_splicing_collected", {"nswin": nw, "overlap": ov, "K": 4}, timeout_s=1500))
    for (nd, ax) in ((1, -1), (1, 0), (2, -1), (2, 1), (2, 0), (2, -2), (3, -1), (3, 1), (3, -2)):
        cs.append(Case(f"slice_array_{nd}d_axis{ax}", "case_slice_array", {"ns": 7, "nswin": 3, "overlap": 1, "ndim": nd, "axis": ax}))
    b = (6, 4) if tier == "quick" else (9, 6)     # lengths below 2^b[0], windows below 2^b[1]
    cs.append(Case(f"nwin_ieee_{b[0]}_{b[1]}", "case_nwin_ieee", {"bits_ns": b[0], "bits_win": b[1]}, timeout_s=3000))
    return cs


def twins(tier):
    m = "ibldsp.utils"
    return [
        Twin("stride_plus_one", m, "first += self.nswin - self.overlap", "first += self.nswin - self.overlap + 1", ["firstlast"]),
        Twin("stop_one_early", m, "            if last == self.ns:\n                break", "            if last >= self.ns - 1:\n                break", ["firstlast"]),
        Twin("valid_full_overlap", m, "first_valid = 0 if first == 0 else first + self.overlap // 2", "first_valid = 0 if first == 0 else first + self.overlap", ["valid"]),
        Twin("nwin_floor", m, "int(np.ceil(float(ns - nswin) / float(nswin - overlap)))",
             "int(np.floor(float(ns - nswin) / float(nswin - overlap)))", ["firstlast"]),
        Twin("splice_head_always_ramp", m, "amp[:self.overlap] = 1 if first == 0 else w", "amp[:self.overlap] = w", ["splicing_ov2", "splicing_ov4"]),
    ]


def replay(case, params, cex):
    m = cex["model"]
    ns, nswin, ov = m.get("ns", params.get("ns")), m.get("nswin", params.get("nswin")), m.get("overlap", params.get("overlap"))
    body = f"""
from ibldsp.utils import WindowGenerator
ns, nswin, overlap = {ns}, {nswin}, {ov}
obligation = {cex['obligation']!r}
wg = WindowGenerator(ns, nswin, overlap)
"""
    if case.startswith("nwin_ieee"):
        body += """
wins = list(wg.firstlast)
print('nwin', wg.nwin, 'produced', len(wins))
if wg.nwin != len(wins): reproduced(f'nwin={wg.nwin} but {len(wins)} windows are produced for ns={ns} nswin={nswin} overlap={overlap}')
not_reproduced()
"""
    elif case == "firstlast":
        body += """
wins = list(wg.firstlast)
n = len(wins)
bad = []
if wins[0][0] != 0: bad.append('starts_at_zero')
if wins[-1][1] != ns: bad.append('ends_at_ns')
for k, (f, l) in enumerate(wins):
    if not (1 <= l - f <= nswin): bad.append('window_nonempty_and_le_nswin')
    if k < n - 1:
        if l - f != nswin: bad.append('only_last_window_shorter')
        if l - wins[k + 1][0] != overlap: bad.append('overlap_exact')
        if not wins[k + 1][0] > f: bad.append('starts_increase')
        if not wins[k + 1][0] <= l: bad.append('no_gap')
if wg.nwin != n: bad.append('nwin_equals_produced')
if wg.iw != n - 1: bad.append('iw_is_last_index')
fs = %d
ts = wg.tscale(fs)
for k, (f, l) in enumerate(wins):
    if abs(ts[k] * fs * 2 - (f + l - 1)) > 1e-6 * max(1, f + l): bad.append('tscale_is_window_centre')
fs2 = %d
ts2 = wg.tscale(fs2)
for k, (f, l) in enumerate(wins):
    if abs(ts2[k] * fs2 * 2 - (f + l - 1)) > 1e-6 * max(1, f + l): bad.append('tscale_second_rate_is_window_centre')
print('windows', wins[:8], 'nwin', wg.nwin, 'produced', n)
if obligation in bad: reproduced(f'{obligation} fails for ns={ns} nswin={nswin} overlap={overlap}: nwin={wg.nwin} produced={n}')
not_reproduced(str(bad))
""" % (m.get("fs", 1), m.get("fs2", 1))
    elif case.startswith("slice_array"):
        body = f"""
from ibldsp.utils import WindowGenerator
ns, nswin, overlap, ndim, axis = {params['ns']}, {params['nswin']}, {params['overlap']}, {params['ndim']}, {params['axis']}
ax = axis % ndim
shape = tuple(ns if i == ax else 2 for i in range(ndim))
sig = np.arange(int(np.prod(shape)), dtype=float).reshape(shape)
wg = WindowGenerator(ns, nswin, overlap)
wins = list(WindowGenerator(ns, nswin, overlap).firstlast)
got = list(wg.slice_array(sig, axis=axis)) if axis != -1 else list(wg.slice_array(sig))
if len(got) != len(wins): reproduced(f'{{len(got)}} pieces for {{len(wins)}} windows')
for (f, l), g in zip(wins, got):
    exp = sig[tuple(slice(f, l) if i == ax else slice(None) for i in range(ndim))]
    if np.shape(g) != exp.shape or not np.array_equal(g, exp): reproduced(f'slice_array(axis={{axis}}) piece of window ({{f}}, {{l}}) has shape {{np.shape(g)}}, expected {{exp.shape}} = sig[first:last] along that axis')
not_reproduced()
"""
    elif case.startswith("valid_interleaved"):
        body += f"""
other = {params['other']!r}
out = [a for a, _ in zip(wg.firstlast_valid, wg.firstlast if other == 'firstlast' else wg.slice)]
bad = []
if out[0][2] != 0: bad.append('valid_starts_at_zero')
if out[-1][3] != ns: bad.append('valid_ends_at_ns')
for k, (f, l, fv, lv) in enumerate(out):
    if not (f <= fv and lv <= l): bad.append('valid_inside_window')
    if k < len(out) - 1 and lv != out[k + 1][2]: bad.append('valid_tiles')
print(out[:8])
if obligation in bad: reproduced(f'{{obligation}} fails for ns={{ns}} nswin={{nswin}} overlap={{overlap}} when firstlast_valid is advanced together with wg.{{other}}: {{out[:6]}}')
not_reproduced(str(bad))
"""
    elif case.startswith("splicing_collected"):
        body = f"""
from ibldsp.utils import WindowGenerator
ns, nswin, overlap, t = {ns}, {params['nswin']}, {params['overlap']}, {m.get('t', 0)}
wg = WindowGenerator(ns, nswin, overlap)
items = list(wg.firstlast_splicing)
tot = np.zeros(ns)
for first, last, amp in items:
    if len(amp) != last - first: reproduced(f'amplitude vector of window ({{first}}, {{last}}) has {{len(amp)}} entries')
    tot[first:last] += amp
print(tot)
if not np.allclose(tot, 1): reproduced(f'amplitudes collected with list(wg.firstlast_splicing) sum to {{tot.tolist()}} for ns={{ns}} nswin={{nswin}} overlap={{overlap}}')
not_reproduced()
"""
    elif case in ("valid", "valid_odd_overlap"):
        body += """
try:
    out = list(wg.firstlast_valid)
except AssertionError as e:
    not_reproduced('the generator refuses this overlap: ' + str(e))
bad = []
if out[0][2] != 0: bad.append('valid_starts_at_zero')
if out[-1][3] != ns: bad.append('valid_ends_at_ns')
cover = [0] * ns
for k, (f, l, fv, lv) in enumerate(out):
    if not (f <= fv and lv <= l): bad.append('valid_inside_window')
    if not fv < lv: bad.append('valid_nonempty')
    if k < len(out) - 1 and lv != out[k + 1][2]: bad.append('valid_tiles')
print(out[:8])
if obligation in bad: reproduced(f'{obligation} fails for ns={ns} nswin={nswin} overlap={overlap}')
not_reproduced(str(bad))
"""
    else:
        body += f"""
t = {m.get('t', 0)}
try:
    tot = np.zeros(ns)
    for first, last, amp in wg.firstlast_splicing:
        if amp.shape[0] != last - first and obligation == 'amp_length_is_window_length':
            reproduced('amp length differs from the window length')
        tot[first:last] += amp
except Exception as e:
    reproduced(f'firstlast_splicing raised {{type(e).__name__}}: {{e}} for ns={{ns}} nswin={{nswin}} overlap={{overlap}}')
print('sum at t', tot[t], 'min/max', tot.min(), tot.max())
if obligation == 'amplitudes_sum_to_one' and abs(tot[t] - 1) > 1e-9:
    reproduced(f'amplitudes sum to {{tot[t]}} at sample {{t}} for ns={{ns}} nswin={{nswin}} overlap={{overlap}}')
if obligation == 'amp_in_unit_interval' and (tot.min() < -1e-9):
    reproduced('amp outside [0,1]')
not_reproduced()
"""
    return body

# level text addendum (cases added after the seeded-change rounds)
LEVEL_TEXT = LEVEL_TEXT + ' Also: firstlast_valid advanced together with a second generator of the same object, splicing amplitudes collected before use.'
LEVEL_TEXT = LEVEL_TEXT + ' Round 6: slice_array along every axis (negative ones included) of 1-D to 3-D arrays, tscale asked twice with different rates.'
LEVEL_TEXT = LEVEL_TEXT + ' Round 7: odd overlaps - refused, or else the valid ranges still tile.'
