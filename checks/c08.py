"""
C08 - Probe geometry is a consistent, jointly permuted description of the sites.
"""
from fractions import Fraction

import numpy as np
import z3

from symex import arrays, core, purity, fakefs, sglx
from symex.core import all_, and_, implies, ite, not_, or_
from symex.fakefs import FakePath
from symex.harness import Case, Twin

PROPERTY = "C08"
FUNCTIONS = ["spikeglx.geometry_from_meta", "spikeglx._map_channels_from_meta", "spikeglx._split_geometry_into_shanks", "spikeglx.read_meta_data",
             "neuropixel.xy2rc", "neuropixel.rc2xy", "neuropixel.adc_shifts", "neuropixel.dense_layout", "neuropixel.trace_header", "neuropixel.split_trace_header"]
ASSUMPTIONS = [
    "site tables are metadata text whose shank/col/row (or shank/x/y) numbers are placeholder tokens: free integers on the probe grid of the generation",
    "the relation between the two metadata encodings (shank map vs geometry map) is the SpikeGLX convention: NP1 x=27+32c-16(r mod 2), y=20r; NP2 x=27+32c, y=15r (derived from the fixture pair sample3B_g0_t0.imec1 / sample3B_version202304)",
    "saved channels are a prefix of the probe's channels (the code takes the first nc table rows for ADC/delay)",
    "floats as exact reals (all coordinates are small integers, exact in float32)",
]
OUTSIDE = ["files whose snsSaveChanSubset is not a prefix of the probe's channels", "more sites than the stated bound per case (the permutation logic is size-independent; the bound is on the solver query)"]
EXPLANATION = "np.lexsort on symbolic keys forks into every feasible ordering; per ordering the joint-permutation obligations are decided."
LEVEL_TEXT = ("For ALL assignments of n sites (n up to the bound) to grid positions of each probe generation, in any file order and in both metadata encodings, z3 decides: "
              "sorting is a permutation ordered by (shank,row,-col) with stable ties that moves every attribute jointly; x/y and row/col are exact inverses; both encodings agree; "
              "a split shank is the order-preserving restriction of its parent; the ADC/delay tables satisfy the closed-form law for every channel 0..383.")
LEVEL_NOTE = "Trusted: z3, the SymArray model, the placeholder-token model of text->number parsing, the stated SpikeGLX encoding convention."

GRID = {1: dict(DX=16, X0=11, DY=20, Y0=20), 2: dict(DX=32, X0=27, DY=15, Y0=20), "NPultra": dict(DX=6, X0=0, DY=6, Y0=0)}
KEYS = ["x", "y", "row", "col", "shank", "adc", "sample_shift", "ind", "flag"]


def bounds(tier):
    return {"sites": 3 if tier == "quick" else 4, "kinds": ["3B2", "NP2.1", "NP2.4", "NPultra", "3A"]}


def setup():
    sglx.patch()


def _sites(ctx, kind, n):
    P = sglx.PROBE_TYPES[kind]
    out = []
    for i in range(n):
        if kind == "NP2.4":
            s = ctx.int(f"shank{i}", 0, 3)
        else:
            s = 0
        if kind == "NPultra":
            c = ctx.int(f"col{i}", 0, 7)
            r = ctx.int(f"row{i}", 0, 47)
        elif P["major"] == 1:
            c = ctx.int(f"col{i}", 0, 1)
            r = ctx.int(f"row{i}", 0, 479)
        else:
            c = ctx.int(f"col{i}", 0, 1)
            r = ctx.int(f"row{i}", 0, 639)
        out.append((s, c, r))
    return out


def _grid(kind):
    mj = sglx.PROBE_TYPES[kind]["major"]
    return GRID["NPultra" if mj == "NPultra" else (1 if mj == 1 else 2)]


def _expected_rc(kind, s, c, r):
    """row/col reported by the geometry for shank-map entry (s, c, r)"""
    if sglx.PROBE_TYPES[kind]["major"] == 1:
        return r, 2 - 2 * c + (r % 2)
    return r, c


def _geom_entry(kind, s, c, r):
    """geometry-map (x_um, y_um) text entry for the same site, SpikeGLX convention"""
    if sglx.PROBE_TYPES[kind]["major"] == 1:
        return 27 + 32 * c - 16 * (r % 2), 20 * r
    if kind == "NPultra":
        return 6 * c, 6 * r - 20 + 20  # NPultra grid origin (Y0=0): y_um = 6 r ; the code adds 20 then subtracts Y0=0
    return 27 + 32 * c, 15 * r


def case_sorted_geometry(ctx, kind, n, geom_map):
    import spikeglx
    import neuropixel
    sites = _sites(ctx, kind, n)
    G = _grid(kind)
    if geom_map:
        if kind == "NPultra":
            ctx.assume(False) if False else None
        ent = [(s,) + _geom_entry(kind, s, c, r) for (s, c, r) in sites]
    else:
        ent = sites
    txt = sglx.imec_meta_text(kind, ent, ns="1.0", geom_map=geom_map)
    F, binp = sglx.install_recording("/d/x.imec.ap", txt)
    md = ctx.call("read_meta", spikeglx.read_meta_data, FakePath("/d/x.imec.ap.meta"))
    import copy as _copy
    md0 = _copy.deepcopy(md)
    thu = ctx.call("geometry_unsorted", spikeglx.geometry_from_meta, md, sort=False)
    res = ctx.call("geometry_sorted", spikeglx.geometry_from_meta, md, return_index=True, sort=True)
    thu2 = ctx.call("geometry_unsorted", spikeglx.geometry_from_meta, md, sort=False)
    purity.oblige_same_result(ctx, "second_identical_call_gives_the_same_geometry", {k: thu[k] for k in sorted(thu)}, {k: thu2[k] for k in sorted(thu2)})
    th, inds = res
    inds = [int(i) for i in inds]
    ctx.oblige("index_is_a_permutation", sorted(inds) == list(range(n)), detail={"inds": inds})
    ctx.oblige("returned_index_equals_ind_key", [int(v) for v in th["ind"]] == inds)
    for k in th.keys():
        if not ctx.oblige("every_key_has_one_entry_per_site", len(th[k]) == n and len(thu[k]) == n, detail={"key": k}):
            return
        for i in range(n):
            ctx.oblige("every_attribute_moves_with_the_permutation", core.eq(th[k][i], thu[k][inds[i]]), detail={"key": k, "i": i})
    for k in ("x", "y", "row", "col", "shank", "adc", "sample_shift", "ind"):
        ctx.oblige("geometry_has_key", k in th, detail={"key": k})
    # unsorted geometry describes the sites in file order
    mj = sglx.PROBE_TYPES[kind]["major"]
    ss, aa = ctx.call("adc_shifts", neuropixel.adc_shifts, version=mj, nc=384)
    for i, (s, c, r) in enumerate(sites):
        er, ec = _expected_rc(kind, s, c, r)
        if kind == "NPultra" and geom_map:
            # y_um = 6r, code: y += 20 then row = (y - 0)/6  (NPultra grid has Y0 = 0): documented as-is, not asserted
            pass
        else:
            ctx.oblige("row_col_describe_the_site", and_(core.eq(thu["row"][i], er), core.eq(thu["col"][i], ec)), detail={"i": i, "row": thu["row"][i], "col": thu["col"][i]})
            ctx.oblige("x_y_on_the_probe_grid", and_(core.eq(thu["x"][i], ec * G["DX"] + G["X0"]), core.eq(thu["y"][i], er * G["DY"] + G["Y0"])), detail={"i": i})
        ctx.oblige("shank_describes_the_site", core.eq(thu["shank"][i], s), detail={"i": i})
        ctx.oblige("adc_and_delay_follow_original_channel_number", and_(core.eq(thu["adc"][i], float(aa[i])), core.eq(thu["sample_shift"][i], float(ss[i]))), detail={"i": i})
        ctx.oblige("ind_is_original_index_when_unsorted", core.eq(thu["ind"][i], i))
    # ordering by (shank, row, -col), stable
    for i in range(n - 1):
        a = (th["shank"][i], th["row"][i], -th["col"][i])
        b = (th["shank"][i + 1], th["row"][i + 1], -th["col"][i + 1])
        lt = or_(a[0] < b[0], and_(core.eq(a[0], b[0]), or_(a[1] < b[1], and_(core.eq(a[1], b[1]), a[2] < b[2]))))
        same = and_(core.eq(a[0], b[0]), and_(core.eq(a[1], b[1]), core.eq(a[2], b[2])))
        ctx.oblige("ordered_by_shank_row_descending_col", or_(lt, same), detail={"i": i})
        ctx.oblige("ties_keep_file_order", implies(same, inds[i] < inds[i + 1]), detail={"i": i})


def case_encodings_agree(ctx, kind, n):
    import spikeglx
    sites = _sites(ctx, kind, n)
    t1 = sglx.imec_meta_text(kind, sites, ns="1.0", geom_map=False)
    t2 = sglx.imec_meta_text(kind, [(s,) + _geom_entry(kind, s, c, r) for (s, c, r) in sites], ns="1.0", geom_map=True)
    F, _ = sglx.install_recording("/d/a.imec.ap", t1)
    sglx.install_recording("/d/b.imec.ap", t2, fsys=F)
    g1 = ctx.call("geometry_shankmap", lambda: spikeglx.geometry_from_meta(spikeglx.read_meta_data(FakePath("/d/a.imec.ap.meta")), sort=False))
    g2 = ctx.call("geometry_geommap", lambda: spikeglx.geometry_from_meta(spikeglx.read_meta_data(FakePath("/d/b.imec.ap.meta")), sort=False))
    for k in ("x", "y", "row", "col", "shank"):
        for i in range(n):
            ctx.oblige("both_encodings_give_same_geometry", core.eq(g1[k][i], g2[k][i]), detail={"key": k, "i": i, "shankmap": g1[k][i], "geommap": g2[k][i]})


def case_split_shank(ctx, n, shank):
    import spikeglx
    import neuropixel
    sites = _sites(ctx, "NP2.4", n)
    t_parent = sglx.imec_meta_text("NP2.4", sites, ns="1.0")
    t_child = sglx.imec_meta_text("NP2.4", sites, ns="1.0", extra=[f"NP2.4_shank={shank}"])
    F, _ = sglx.install_recording("/d/p.imec.ap", t_parent)
    sglx.install_recording("/d/c.imec.ap", t_child, fsys=F)
    for srt in (False, True):
        gp = ctx.call("geometry_parent", lambda: spikeglx.geometry_from_meta(spikeglx.read_meta_data(FakePath("/d/p.imec.ap.meta")), sort=srt))
        gc = ctx.call("geometry_child", lambda: spikeglx.geometry_from_meta(spikeglx.read_meta_data(FakePath("/d/c.imec.ap.meta")), sort=srt))
        keep = [i for i in range(n) if bool(core.eq(gp["shank"][i], shank))]
        if not ctx.oblige("split_has_the_shank_site_count", len(gc["x"]) == len(keep), detail={"child": len(gc["x"]), "expected": len(keep)}):
            return
        for k in ("x", "y", "row", "col", "shank", "adc", "sample_shift"):
            for j, i in enumerate(keep):
                ctx.oblige("split_is_restriction_of_parent", core.eq(gc[k][j], gp[k][i]), detail={"key": k, "j": j, "sorted": srt})
        if not srt:
            # 'ind' is the position inside the (split) file - what the reader uses as raw channel order
            ctx.oblige("split_ind_is_index_within_the_file", [int(v) for v in gc["ind"]] == list(range(len(keep))), detail={"ind": [int(v) for v in gc["ind"]]})
    # neuropixel.split_trace_header on the parent equals the same restriction
    gp = spikeglx.geometry_from_meta(spikeglx.read_meta_data(FakePath("/d/p.imec.ap.meta")), sort=False)
    hs = ctx.call("split_trace_header", neuropixel.split_trace_header, gp, shank=shank)
    keep = [i for i in range(n) if bool(core.eq(gp["shank"][i], shank))]
    if ctx.oblige("split_trace_header_count", len(hs["x"]) == len(keep)):
        for k in ("x", "y", "row", "col", "ind"):
            for j, i in enumerate(keep):
                ctx.oblige("split_trace_header_is_restriction", core.eq(hs[k][j], gp[k][i]), detail={"key": k})


def case_rc_xy_inverse(ctx, version):
    import neuropixel
    r = ctx.int("row", 0, 10000)
    c = ctx.int("col", 0, 100)
    xy = ctx.call("rc2xy", neuropixel.rc2xy, core._as_real(r), core._as_real(c), version=version)
    rc = ctx.call("xy2rc", neuropixel.xy2rc, xy["x"], xy["y"], version=version)
    ctx.oblige("xy2rc_inverts_rc2xy", and_(core.eq(rc["row"], r), core.eq(rc["col"], c)))
    G = GRID[1 if version == 1 else ("NPultra" if version == "NPultra" else 2)]
    x = ctx.real("x")
    y = ctx.real("y")
    rc2 = neuropixel.xy2rc(x, y, version=version)
    xy2 = neuropixel.rc2xy(rc2["row"], rc2["col"], version=version)
    ctx.oblige("rc2xy_inverts_xy2rc", and_(core.eq(xy2["x"], x), core.eq(xy2["y"], y)))
    ctx.oblige("grid_constants", and_(core.eq(xy["x"], c * G["DX"] + G["X0"]), core.eq(xy["y"], r * G["DY"] + G["Y0"])))


def case_adc_table(ctx, version):
    """table lemma: the real adc_shifts output, for a symbolic channel c"""
    import neuropixel
    ss, aa = ctx.call("adc_shifts", neuropixel.adc_shifts, version=version)
    m, cyc = (12, 13) if version in (1, "NPultra") else (16, 16)
    ctx.oblige("adc_table_length_384", len(ss) == 384 and len(aa) == 384)
    c = ctx.int("c", 0, 383)
    adc = core.SInt(z3.IntVal(0))
    sh = core._as_real(0)
    for i in range(383, -1, -1):
        adc = ite(core.eq(c, i), int(aa[i]), adc)
        sh = ite(core.eq(c, i), Fraction(float(ss[i])), sh)
    ctx.oblige("adc_group_law", core.eq(adc, 2 * (c // (2 * m)) + c % 2), detail={"adc": adc})
    exp = core._as_real((c // 2) % m) / cyc
    # table entries are doubles of k/cycles: compare with a 1e-12 tolerance (exact for /16)
    ctx.oblige("delay_law", and_(sh - exp <= Fraction(1, 10 ** 12), exp - sh <= Fraction(1, 10 ** 12)), detail={"shift": sh})
    # channels of one ADC have pairwise distinct delays: a second symbolic channel d on the same ADC
    d = ctx.int("d", 0, 383)
    adcd = core.SInt(z3.IntVal(0))
    shd = core._as_real(0)
    for i in range(383, -1, -1):
        adcd = ite(core.eq(d, i), int(aa[i]), adcd)
        shd = ite(core.eq(d, i), Fraction(float(ss[i])), shd)
    ctx.oblige("one_adc_serves_its_channels_at_distinct_delays", implies(and_(core.eq(adc, adcd), not_(core.eq(c, d))), not_(core.eq(sh, shd))))
    # subset request
    s5, a5 = neuropixel.adc_shifts(version=version, nc=5)
    ctx.oblige("subset_is_prefix", list(s5) == list(ss[:5]) and list(a5) == list(aa[:5]))


def case_dense_layout(ctx, version, nshank):
    import neuropixel
    import spikeglx
    h = neuropixel.trace_header(version=version, nshank=nshank)
    pts = {(float(h["shank"][i]), float(h["row"][i]), float(h["col"][i])) for i in range(384)}
    ctx.oblige("dense_layout_sites_distinct", len(pts) == 384)
    ctx.oblige("dense_layout_has_384_entries", all(len(h[k]) == 384 for k in h))
    G = GRID[1 if version == 1 else ("NPultra" if version == "NPultra" else 2)]
    ctx.oblige("dense_layout_xy_on_grid", bool(np.all(h["x"] == h["col"] * G["DX"] + G["X0"]) and np.all(h["y"] == h["row"] * G["DY"] + G["Y0"])))
    order = np.lexsort(np.c_[-h["col"], h["row"], h["shank"]].T)
    if version == 1:
        ctx.oblige("np1_dense_layout_sort_is_identity", list(order) == list(range(384)))
    ctx.oblige("dense_ind_is_arange", list(h["ind"]) == list(range(384)))


def cases(tier):
    b = bounds(tier)
    cs = []
    for kind in b["kinds"]:
        cs.append(Case(f"sorted_{kind}_shankmap", "case_sorted_geometry", {"kind": kind, "n": b["sites"], "geom_map": False}, timeout_s=1500))
        if kind in ("3B2", "NP2.4", "NP2.1"):
            cs.append(Case(f"sorted_{kind}_geommap", "case_sorted_geometry", {"kind": kind, "n": b["sites"], "geom_map": True}, timeout_s=1500))
            cs.append(Case(f"encodings_{kind}", "case_encodings_agree", {"kind": kind, "n": b["sites"]}))
    for sh in (0, 2):
        cs.append(Case(f"split_shank{sh}", "case_split_shank", {"n": b["sites"], "shank": sh}, timeout_s=1500))
    for v in (1, 2, 2.4, "NPultra"):
        cs.append(Case(f"rc_xy_{v}", "case_rc_xy_inverse", {"version": v}))
        cs.append(Case(f"adc_table_{v}", "case_adc_table", {"version": v}))
    for v, nsh in ((1, 1), (2, 1), (2, 4), ("NPultra", 1)):
        cs.append(Case(f"dense_{v}_{nsh}", "case_dense_layout", {"version": v, "nshank": nsh}))
    return cs


def twins(tier):
    m = "spikeglx"
    s = ["sorted_3B2_shankmap", "sorted_NP2.4_shankmap", "sorted_NP2.1_shankmap"]
    return [
        Twin("lexsort_key_order", m, "sort_keys = np.c_[-th['col'], th['row'], th['shank']]", "sort_keys = np.c_[th['shank'], th['row'], -th['col']]", s),
        Twin("col_ascending", m, "sort_keys = np.c_[-th['col'], th['row'], th['shank']]", "sort_keys = np.c_[th['col'], th['row'], th['shank']]", s),
        Twin("no_np1_flip", m, 'th["x"] = 70 - (th["x"])', 'th["x"] = (th["x"])', ["encodings_3B2", "sorted_3B2_geommap"]),
        Twin("no_tip_offset", m, 'th["y"] += 20', 'th["y"] += 0', ["encodings_NP2.4", "encodings_3B2"]),
        Twin("sort_skips_one_key", m, "th = {k: v[inds] for k, v in th.items()}", "th = {k: (v[inds] if k != 'sample_shift' else v) for k, v in th.items()}", s),
        Twin("adc_groups", "neuropixel", "adc = np.floor(np.arange(NC) / (adc_channels * 2)) * 2 + np.mod(np.arange(NC), 2)", "adc = np.floor(np.arange(NC) / adc_channels) * 2 + np.mod(np.arange(NC), 2)", ["adc_table_1", "adc_table_2"]),
        Twin("split_wrong_shank", m, 'shank_idx = np.where(th["shank"] == int(meta_data["NP2.4_shank"]))[0]', 'shank_idx = np.where(th["shank"] >= int(meta_data["NP2.4_shank"]))[0]', ["split_shank0", "split_shank2"]),
        Twin("grid_np2_dy", "neuropixel", "2: dict(DX=32, X0=27, DY=15, Y0=20)", "2: dict(DX=32, X0=27, DY=20, Y0=20)", ["rc_xy_2", "encodings_NP2.4"]),
        Twin("ind_before_split", m, '    th = _split_geometry_into_shanks(th, meta_data)\n    th["ind"] = np.arange(th["col"].size)', '    th["ind"] = np.arange(th["col"].size)\n    th = _split_geometry_into_shanks(th, meta_data)', ["split_shank2"]),
    ]


def replay(case, params, cex):
    m = cex["model"]
    if case.startswith(("sorted_", "encodings_", "split_")):
        kind = params.get("kind", "NP2.4")
        n = params["n"]
        sites = [(m.get(f"shank{i}", 0), m[f"col{i}"], m[f"row{i}"]) for i in range(n)]
        return f"""
import sys, tempfile, pathlib
sys.path.insert(0, '/verif')
from symex import sglx
import checks.c08 as c8
import spikeglx, neuropixel
kind, n, sites = {kind!r}, {n}, {sites}
case = {case!r}
d = pathlib.Path(tempfile.mkdtemp())
def geom(ent, gm, extra=None, **kw):
    p = d / 'x.ap.meta'; p.write_text(sglx.imec_meta_text(kind, ent, ns='1.0', geom_map=gm, extra=extra))
    return spikeglx.geometry_from_meta(spikeglx.read_meta_data(p), **kw)
G = c8._grid(kind)
def exp_rc(s, c, r): return c8._expected_rc(kind, s, c, r)
bad = []
gent = [(s,) + c8._geom_entry(kind, s, c, r) for (s, c, r) in sites]
if case.startswith('sorted_'):
    gm = {params.get('geom_map', False)}
    ent = gent if gm else sites
    thu = geom(ent, gm, sort=False); th, inds = geom(ent, gm, sort=True, return_index=True)
    if sorted(inds.tolist()) != list(range(n)): bad.append('perm')
    for nm, g in (('unsorted', thu), ('sorted', th)):
        for k in g:
            if len(g[k]) != n: bad.append(f'{{nm}} geometry: {{k}} has {{len(g[k])}} entries for {{n}} recorded sites')
    for k in th:
        if not np.array_equal(th[k], thu[k][inds]): bad.append('joint ' + k)
    keys = [(th['shank'][i], th['row'][i], -th['col'][i]) for i in range(n)]
    for i in range(n - 1):
        if keys[i] > keys[i + 1] or (keys[i] == keys[i + 1] and inds[i] > inds[i + 1]): bad.append('order')
    ss, aa = neuropixel.adc_shifts(version=sglx.PROBE_TYPES[kind]['major'], nc=384)
    for i, (s, c, r) in enumerate(sites):
        er, ec = exp_rc(s, c, r)
        if not (kind == 'NPultra' and gm):
            if thu['row'][i] != er or thu['col'][i] != ec: bad.append('rowcol')
            if thu['x'][i] != ec * G['DX'] + G['X0'] or thu['y'][i] != er * G['DY'] + G['Y0']: bad.append('xy')
        if thu['shank'][i] != s or thu['adc'][i] != aa[i] or thu['sample_shift'][i] != ss[i] or thu['ind'][i] != i: bad.append('attrs')
    print(thu, th, inds)
elif case.startswith('encodings_'):
    g1 = geom(sites, False, sort=False); g2 = geom(gent, True, sort=False)
    for k in ('x', 'y', 'row', 'col', 'shank'):
        if not np.array_equal(g1[k], g2[k]): bad.append(k)
    print(g1, g2)
else:
    sh = {params.get('shank', 0)}
    for srt in (False, True):
        gp = geom(sites, False, sort=srt); gc = geom(sites, False, extra=[f'NP2.4_shank={{sh}}'], sort=srt)
        keep = np.where(gp['shank'] == sh)[0]
        for k in ('x', 'y', 'row', 'col', 'shank', 'adc', 'sample_shift'):
            if not np.array_equal(gc[k], gp[k][keep]): bad.append(f'split {{k}} sorted={{srt}}')
        if not srt and gc['ind'].tolist() != list(range(len(keep))): bad.append(f"split file: 'ind' is {{gc['ind'].tolist()}}, not the position within the split file")
    gp = geom(sites, False, sort=False); hs = neuropixel.split_trace_header(gp, shank=sh); keep = np.where(gp['shank'] == sh)[0]
    for k in ('x', 'y', 'row', 'col', 'ind'):
        if not np.array_equal(hs[k], gp[k][keep]): bad.append('split_trace_header ' + k)
if bad: reproduced(str(bad))
not_reproduced()
"""
    if case.startswith("rc_xy"):
        v = params["version"]
        return f"""
import neuropixel
v = {v!r}
G = {{1: dict(DX=16, X0=11, DY=20, Y0=20), 2: dict(DX=32, X0=27, DY=15, Y0=20), 2.4: dict(DX=32, X0=27, DY=15, Y0=20), 'NPultra': dict(DX=6, X0=0, DY=6, Y0=0)}}[v]
r, c = np.arange(0, 700.0), np.arange(0, 700.0) % 8
xy = neuropixel.rc2xy(r, c, version=v); rc = neuropixel.xy2rc(xy['x'], xy['y'], version=v)
bad = []
if not (np.array_equal(rc['row'], r) and np.array_equal(rc['col'], c)): bad.append('inverse')
if not (np.array_equal(xy['x'], c * G['DX'] + G['X0']) and np.array_equal(xy['y'], r * G['DY'] + G['Y0'])): bad.append('grid')
if bad: reproduced(str(bad))
not_reproduced()
"""
    if case.startswith("adc_table"):
        v = params["version"]
        return f"""
import neuropixel
v = {v!r}
ss, aa = neuropixel.adc_shifts(version=v)
m, cyc = (12, 13) if v in (1, 'NPultra') else (16, 16)
c = np.arange(384)
bad = []
if not np.array_equal(aa, 2 * (c // (2 * m)) + c % 2): bad.append('adc law')
if not np.allclose(ss, ((c // 2) % m) / cyc, atol=1e-12): bad.append('delay law')
for a in np.unique(aa):
    if len(np.unique(ss[aa == a])) != np.sum(aa == a): bad.append('distinct')
if bad: reproduced(str(bad))
not_reproduced()
"""
    if case.startswith("dense"):
        return f"""
import neuropixel
h = neuropixel.trace_header(version={params['version']!r}, nshank={params['nshank']})
pts = set(zip(h['shank'], h['row'], h['col']))
if len(pts) != 384: reproduced('dense layout sites not distinct')
if {params['version']!r} == 1 and list(np.lexsort(np.c_[-h['col'], h['row'], h['shank']].T)) != list(range(384)): reproduced('np1 sort not identity')
not_reproduced()
"""
    return None

# level text addendum (cases added after the seeded-change rounds)
LEVEL_TEXT = LEVEL_TEXT + ' Also: the same request repeated gives the same geometry (no state carried between calls).'
