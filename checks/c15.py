"""
C15 - Bad-channel repair touches only bad channels (interpolation) and file labels are the per-channel
mode over batches.  The detector itself (welch/medfilt/coherence numerics) is outside.
"""
import numpy as np
import scipy
import scipy.stats
import math
import z3

from symex import arrays, core, stubs
from symex.core import SInt, all_, and_, any_, implies, ite, not_, or_
from symex.harness import Case, Twin

PROPERTY = "C15"
FUNCTIONS = ["ibldsp.voltage.interpolate_bad_channels", "ibldsp.voltage.detect_bad_channels_cbin"]
ASSUMPTIONS = [
    "integer data: a small array subclass answers dtype int16 and stores values by truncation toward zero (NumPy's cast on assignment); the repaired channel must stay within the range of its contributors",
    "interpolation: geometry = excerpts (m consecutive sites; the bad set ranges over every subset of a window of `free` sites in the middle, the surrounding sites are good or outside-brain) of the real NP1 / NP2 / NP2.4 trace headers; labels free integers in {0,1,2,3} per site (np.where forks over the bad set); data free reals; weights are computed by the real code on concrete numbers per path, data stay symbolic (outputs are linear terms)",
    "mode over batches: detect_bad_channels is replaced by an arbitrary label per (channel, batch); scipy.stats.mode is modelled by its contract (most frequent value, smallest on ties)",
    "floats as exact reals for the data; weights are the doubles NumPy computes",
]
OUTSIDE = ["detect_bad_channels (Welch PSD, median filter, coherence: DSP numerics) - 'silent => dead, noisy => noisy, top block => outside' is not decidable here"]
EXPLANATION = "each label vector's bad set is one path; outputs are linear combinations of symbolic rows with concrete weights."
LEVEL_TEXT = ("For every label vector over {0,1,2,3} on m consecutive sites of each probe layout and all real data, z3 decides: good and outside-brain rows are returned as the identical input, a bad row without usable neighbour is zero, "
              "otherwise it lies between the min and max of its contributors at every sample (convex combination), and no bad row contributes; file labels are a most frequent label per channel with batch slices inside the recording.")
LEVEL_NOTE = "Trusted: z3 LRA, SymArray matmul model, the mode contract."


def bounds(tier):
    return {"m": 16 if tier == "quick" else 20, "free": 5 if tier == "quick" else 8, "layouts": ["np1", "np2", "np24"], "offsets": [0, 284] if tier == "quick" else [0, 90, 284, 364]}


class _Stats:
    @staticmethod
    def mode(a, axis=0, **kw):
        A = np.asarray(arrays._plain(a), dtype=object)
        if A.ndim != 2:
            raise core.Unsupported("mode stub: 2-D only")
        if axis == 0:
            A = A.T
        elif axis not in (1, -1):
            raise core.Unsupported("mode axis")
        modes, counts = [], []
        for row in A:
            best_v, best_c = None, None
            for k in range(4):
                c = 0
                for e in row.tolist():
                    c = c + arrays._num(core.eq(e, float(k)) if not isinstance(e, core.Sym) else core.eq(e, k))
                if best_v is None:
                    best_v, best_c = k, c
                else:
                    better = c > best_c
                    best_v = ite(better, k, best_v)
                    best_c = ite(better, c, best_c)
            modes.append(best_v)
            counts.append(best_c)
        return arrays.mk(modes), arrays.mk(counts)


def setup():
    import ibldsp.voltage as v
    arrays.patch_module(v)
    v.scipy = stubs.Namespace(scipy, stats=stubs.Namespace(scipy.stats, mode=_Stats.mode))


def _geometry(layout, m, off):
    import neuropixel
    h = neuropixel.trace_header(version=1) if layout == "np1" else neuropixel.trace_header(version=2, nshank=1 if layout == "np2" else 4)
    return h["x"][off:off + m].astype(float), h["y"][off:off + m].astype(float)


def case_interpolate(ctx, layout, m, off, free, ns=2, run=False):
    import ibldsp.voltage as v
    x, y = _geometry(layout, m, off)
    labels = [ctx.int(f"label{i}", 0, 3) for i in range(m)]
    lo_free = (m - free) // 2
    if run:
        # one run of adjacent bad channels [start, start + length) of symbolic position, length and kind (dead / noisy);
        # long runs leave their inner channels without any good channel in reach
        start = ctx.int("run_start", 0, m - 1)
        length = ctx.int("run_length", 1, m)
        kind = ctx.int("run_kind", 1, 2)
        ctx.assume(start + length <= m)
        for i in range(m):
            ctx.assume(core.eq(labels[i], ite(and_(start <= i, i < start + length), kind, 0)))
    for i in range(m):
        if not run and not lo_free <= i < lo_free + free:
            # sites around the free window are good or outside-brain (still symbolic), so that the window has real neighbours
            ctx.assume(or_(core.eq(labels[i], 0), core.eq(labels[i], 3)))
    rows = [[ctx.real(f"d{i}_{t}") for t in range(ns)] for i in range(m)]
    data = arrays.mk([e for r in rows for e in r], shape=(m, ns), tag=np.dtype(np.float32))
    lab = arrays.mk(labels, tag=np.dtype(float))
    out = ctx.call("interpolate", v.interpolate_bad_channels, data, lab, x, y)
    if not ctx.oblige("shape_preserved", tuple(out.shape) == (m, ns)):
        return
    isbad = [bool(or_(core.eq(l, 1), core.eq(l, 2))) for l in labels]     # already decided on this path by the code's np.where
    bad = [i for i in range(m) if isbad[i]]
    good = [i for i in range(m) if not isbad[i]]
    lv = ["bad" if b else "ok" for b in isbad]
    for i in good:
        for t in range(ns):
            ctx.oblige("good_and_outside_rows_returned_identical", out[i, t] is rows[i][t] or core.eq(out[i, t], rows[i][t]) is True, detail={"row": i, "labels": lv})
    # independent contributor set: non-bad channels whose decayed weight survives the 0.005 cut
    for i in bad:
        w = np.exp(-((np.abs(x - x[i] + 1j * (y - y[i])) / 20) ** 1.3))
        w[bad] = 0
        w[w < 0.005] = 0
        contrib = [j for j in range(m) if w[j] > 0]
        for t in range(ns):
            o = out[i, t]
            if not contrib:
                ctx.oblige("bad_row_without_neighbour_is_zero", core.eq(o, 0), detail={"row": i, "labels": lv})
                continue
            # the output is a linear term in the data: read its coefficients (= the weights actually used)
            coef = _coefficients(o, [[rows[j][tt] for tt in range(ns)] for j in range(m)])
            if not ctx.oblige("output_is_linear_in_the_data", coef is not None, detail={"row": i}):
                continue
            total = sum(coef[j][t] for j in contrib)
            ctx.oblige("weights_are_non_negative", all(coef[j][tt] >= 0 for j in range(m) for tt in range(ns)), detail={"row": i, "labels": lv})
            ctx.oblige("weights_sum_to_one", abs(total - 1) <= 1e-9, detail={"row": i, "labels": lv, "contributors": contrib, "sum": float(total)})
            ctx.oblige("only_contributors_at_the_same_sample_carry_weight",
                       all(coef[j][tt] == 0 for j in range(m) for tt in range(ns) if (j not in contrib) or tt != t), detail={"row": i, "labels": lv})
            ctx.oblige("no_bad_row_contributes", all(coef[b][tt] == 0 for b in bad for tt in range(ns)), detail={"row": i, "labels": lv})


class _Int16Data(arrays.SymArray):
    """recording held as int16: `dtype` answers int16 and values stored into it are truncated toward zero, as NumPy does"""

    @property
    def dtype(self):
        return np.dtype(np.int16)

    def __setitem__(self, key, value):
        v = np.asarray(arrays._plain(value), dtype=object) if isinstance(value, np.ndarray) else value
        if isinstance(v, np.ndarray):
            c = np.empty(v.shape, dtype=object)
            for pos in np.ndindex(*v.shape):
                c[pos] = arrays.cast_scalar(arrays._num(v[pos]), np.int16) if isinstance(v[pos], core.Sym) or v[pos] != int(v[pos]) else int(v[pos])
            v = c
        elif isinstance(v, core.Sym) or isinstance(v, float):
            v = arrays.cast_scalar(v, np.int16) if isinstance(v, core.Sym) else int(v)
        np.ndarray.__setitem__(self.view(np.ndarray), key, v)


def case_interpolate_int16(ctx, layout, m, bad_at):
    """raw integer data: the repaired channel must still lie within the range of its contributing neighbours (and not be zeroed)"""
    import ibldsp.voltage as v
    x, y = _geometry(layout, m, 0)
    kind = ctx.int("kind", 1, 2)
    labels = [0] * m
    vals = [ctx.int(f"d{i}", -32768, 32767) for i in range(m)]
    base = arrays.mk(list(vals), shape=(m, 1), tag=np.dtype(np.int16))
    data = base.view(_Int16Data)
    lab = arrays.mk([kind if i == bad_at else 0 for i in range(m)], tag=np.dtype(float))
    out = ctx.call("interpolate", v.interpolate_bad_channels, data, lab, x, y)
    if not ctx.oblige("shape_preserved", tuple(out.shape) == (m, 1)):
        return
    w = np.exp(-((np.abs(x - x[bad_at] + 1j * (y - y[bad_at])) / 20) ** 1.3))
    w[bad_at] = 0
    w[w < 0.005] = 0
    contrib = [j for j in range(m) if w[j] > 0]
    o = np.asarray(arrays._plain(out), dtype=object)[bad_at, 0]
    lo, hi = vals[contrib[0]], vals[contrib[0]]
    for j in contrib[1:]:
        lo = ite(vals[j] < lo, vals[j], lo)
        hi = ite(vals[j] > hi, vals[j], hi)
    ctx.oblige("integer_data_repaired_channel_within_neighbour_range", and_(o >= lo, o <= hi), detail={"out": o, "lo": lo, "hi": hi, "contributors": contrib})
    for i in range(m):
        if i != bad_at:
            oi = np.asarray(arrays._plain(out), dtype=object)[i, 0]
            ctx.oblige("good_and_outside_rows_returned_identical", oi is vals[i] or core.eq(oi, vals[i]) is True, detail={"row": i})


def case_interpolate_nan_in_bad_channel(ctx, layout, m, bad_at):
    """the bad channel's own samples are NaN (left by an upstream division): its repaired row is built from the neighbours only, hence finite"""
    import ibldsp.voltage as v
    x, y = _geometry(layout, m, 0)
    kind = ctx.int("kind", 1, 2)
    rows = [[float("nan")] if i == bad_at else [ctx.real(f"d{i}", -1000, 1000)] for i in range(m)]
    data = arrays.mk([e for r in rows for e in r], shape=(m, 1), tag=np.dtype(np.float32))
    lab = arrays.mk([kind if i == bad_at else 0 for i in range(m)], tag=np.dtype(float))
    out = ctx.call("interpolate", v.interpolate_bad_channels, data, lab, x, y)
    if not ctx.oblige("shape_preserved", tuple(out.shape) == (m, 1)):
        return
    w = np.exp(-((np.abs(x - x[bad_at] + 1j * (y - y[bad_at])) / 20) ** 1.3))
    w[bad_at] = 0
    w[w < 0.005] = 0
    contrib = [j for j in range(m) if w[j] > 0]
    o = np.asarray(arrays._plain(out), dtype=object)[bad_at, 0]
    finite = (not (isinstance(o, float) and (math.isnan(o) or math.isinf(o)))) if not isinstance(o, core.Sym) else not_(o.isnan())
    if not ctx.oblige("repaired_row_is_finite_when_only_the_bad_channel_held_nan", finite, detail={"out": o}):
        return
    lo, hi = rows[contrib[0]][0], rows[contrib[0]][0]
    for j in contrib[1:]:
        lo = ite(rows[j][0] < lo, rows[j][0], lo)
        hi = ite(rows[j][0] > hi, rows[j][0], hi)
    ctx.oblige("repaired_row_within_neighbour_range", and_(o >= lo - 1e-6, o <= hi + 1e-6), detail={"out": o, "contributors": contrib})


def _coefficients(o, var_rows):
    """o = sum c[j][t] * var_rows[j][t]; returns c as Fractions (None if o is not such a linear term)"""
    from fractions import Fraction
    if not isinstance(o, core.Sym):
        return None if o != 0 else [[Fraction(0)] * len(r) for r in var_rows]
    allv = [v.t for r in var_rows for v in r]
    zero = [(v, z3.RealVal(0)) for v in allv]
    base = z3.simplify(z3.substitute(o.t, *zero))
    if not z3.is_rational_value(base) or base.numerator_as_long() != 0:
        return None
    out = []
    acc = z3.RealVal(0)
    for r in var_rows:
        row = []
        for v in r:
            sub = [(u, z3.RealVal(1) if u.eq(v.t) else z3.RealVal(0)) for u in allv]
            c = z3.simplify(z3.substitute(o.t, *sub))
            if not z3.is_rational_value(c):
                return None
            row.append(Fraction(c.numerator_as_long(), c.denominator_as_long()))
            acc = acc + c * v.t
        out.append(row)
    # linearity: the term equals the reconstructed combination (decided by z3)
    s = z3.Solver()
    s.add(o.t != acc)
    if s.check() != z3.unsat:
        return None
    return out


def _vars(e):
    out = set()
    if not isinstance(e, core.Sym):
        return out

    def rec(t):
        if z3.is_const(t) and t.decl().kind() == z3.Z3_OP_UNINTERPRETED:
            out.add(t)
        for c in t.children():
            rec(c)
    rec(z3.simplify(e.t))
    return out


class _FakeSR:
    def __init__(self, ns, fs, nc, nsync, log):
        self.ns, self.fs, self.nc, self.nsync = ns, fs, nc, nsync
        self.log = log

    @property
    def rl(self):
        return self.ns / self.fs

    def __getitem__(self, key):
        sl, cs = key
        self.log.append((sl.start, sl.stop, cs))
        return _Tok(len(self.log) - 1)


class _Tok:
    def __init__(self, i):
        self.i = i

    @property
    def T(self):
        return self


def case_mode(ctx, nch, n_batches):
    import ibldsp.voltage as v
    import spikeglx
    ns = ctx.int("ns", 30000, 10 ** 9)
    log = []
    labels = [[ctx.int(f"L{c}_{b}", 0, 3) for b in range(n_batches)] for c in range(nch)]
    calls = []

    def fake_detect(raw, fs, **kw):
        b = raw.i
        calls.append(b)
        return arrays.mk([labels[c][b] for c in range(nch)], tag=np.dtype(float)), {}
    v.detect_bad_channels = fake_detect
    sr = _FakeSR(ns, 30000, nch + 1, 1, log)
    v.spikeglx = stubs.Namespace(spikeglx, Reader=_FakeSR)
    res = ctx.call("detect_cbin", v.detect_bad_channels_cbin, sr, n_batches=n_batches, batch_duration=0.3)
    ctx.oblige("one_detection_per_batch", calls == list(range(n_batches)), detail={"calls": calls})
    for (a, b, cs) in log:
        ctx.oblige("batch_slice_inside_recording", and_(a >= 0, and_(a < b, b <= ns)), detail={"slice": [a, b]})
        ctx.oblige("batch_reads_electrodes_only", cs == slice(None, nch) or (isinstance(cs, slice) and cs.start in (None, 0) and cs.stop == nch))
    if log:
        # evenly spaced from the first sample up to the end of the file (the last batch ends within a sample or two of it: int() truncation)
        ctx.oblige("batches_span_the_recording", and_(core.eq(log[0][0], 0), and_(log[-1][1] >= ns - 2, log[-1][1] <= ns)), detail={"first": [log[0][0], log[0][1]], "last": [log[-1][0], log[-1][1]]})
    res = np.asarray(arrays._plain(res), dtype=object).reshape(-1)
    if not ctx.oblige("one_label_per_channel", res.shape[0] == nch, detail={"shape": str(res.shape)}):
        return
    for c in range(nch):
        r = res[c]
        cnt = lambda k: sum([arrays._num(core.eq(labels[c][b], k)) for b in range(n_batches)])
        cr = sum([arrays._num(core.eq(labels[c][b], r)) for b in range(n_batches)])
        ctx.oblige("label_is_a_most_frequent_one", all_([cr >= cnt(k) for k in range(4)]), detail={"channel": c, "result": r})
        ctx.oblige("label_is_one_of_the_batch_labels", any_([core.eq(r, labels[c][b]) for b in range(n_batches)]), detail={"channel": c})
        # the mode as scipy.stats.mode (and NumPy's unique-based modes) define it: among equally frequent labels the SMALLEST one,
        # i.e. a channel that is fine in half of the batches stays fine
        ctx.oblige("ties_go_to_the_smallest_label", all_([implies(core.eq(cnt(k), cr), r <= k) for k in range(4)]), detail={"channel": c, "result": r})


def cases(tier):
    b = bounds(tier)
    cs = []
    for lay in b["layouts"]:
        for off in b["offsets"]:
            cs.append(Case(f"interp_{lay}_m{b['m']}_off{off}", "case_interpolate", {"layout": lay, "m": b["m"], "off": off, "free": b["free"]}, timeout_s=3000, max_paths=300000))
    for lay, mm in ([("np1", 20)] if tier == "quick" else [("np1", 24), ("np2", 20), ("np24", 20)]):
        cs.append(Case(f"interp_{lay}_run_of_bad_m{mm}", "case_interpolate", {"layout": lay, "m": mm, "off": 0, "free": 0, "run": True, "ns": 1}, timeout_s=3000, max_paths=300000))
    for lay, bad_at in (("np1", 3),) if tier == "quick" else (("np1", 3), ("np1", 0), ("np2", 4), ("np24", 7)):
        cs.append(Case(f"interp_{lay}_int16_bad{bad_at}", "case_interpolate_int16", {"layout": lay, "m": 8, "bad_at": bad_at}, timeout_s=1500))
    for lay, bad_at in (("np1", 3),) if tier == "quick" else (("np1", 3), ("np2", 4)):
        cs.append(Case(f"interp_{lay}_nanbad_bad{bad_at}", "case_interpolate_nan_in_bad_channel", {"layout": lay, "m": 8, "bad_at": bad_at}, timeout_s=1500))
    cs.append(Case("mode_1ch_2batches", "case_mode", {"nch": 1, "n_batches": 2}))      # even counts: ties between batches
    cs.append(Case("mode_1ch_4batches", "case_mode", {"nch": 1, "n_batches": 4}))
    cs.append(Case("mode_2ch_3batches", "case_mode", {"nch": 2, "n_batches": 3}))
    cs.append(Case("mode_2ch_4batches", "case_mode", {"nch": 2, "n_batches": 4}))
    cs.append(Case("mode_1ch_5batches", "case_mode", {"nch": 1, "n_batches": 5}))
    if tier == "thorough":
        cs.append(Case("mode_2ch_7batches", "case_mode", {"nch": 2, "n_batches": 7}))
        cs.append(Case("mode_3ch_10batches", "case_mode", {"nch": 3, "n_batches": 10}))
    return cs


def twins(tier):
    m = "ibldsp.voltage"
    b = bounds(tier)
    ic = [f"interp_{lay}_m{b['m']}_off0" for lay in b["layouts"]]
    return [
        Twin("bad_neighbours_contribute", m, "        weights[bad_channels] = 0\n", "        weights[i] = 0\n", ic),
        Twin("interpolates_outside_too", m, "np.logical_or(channel_labels == 1, channel_labels == 2)", "np.logical_or(channel_labels == 1, channel_labels >= 2)", ic),
        Twin("all_rows_times_weights", m, "interp = gp.matmul(weights[imult], data[imult, :])", "interp = gp.matmul(weights[imult], data[imult, :]) * 2", ic),
        Twin("integer_data_truncated", m, "            interp = gp.rint(interp)\n", "            pass\n", ["interp_np1_int16_bad3"]),
        Twin("no_neighbour_left_untouched", m, "        if imult.size == 0:\n            data[i, :] = 0\n            continue\n", "        if imult.size == 0:\n            continue\n", ["interp_np1_run_of_bad_m20", "interp_np1_run_of_bad_m24"]),
        Twin("not_normalised", m, "        weights = weights / gp.sum(weights)\n", "        weights = weights / 1.0\n", ic),
        Twin("mode_over_channels", m, "channel_flags, _ = scipy.stats.mode(channel_labels, axis=1)", "channel_flags, _ = scipy.stats.mode(channel_labels.T, axis=1)", ["mode_2ch_3batches"]),
        Twin("last_batch_ignored", m, "channel_flags, _ = scipy.stats.mode(channel_labels, axis=1)", "channel_flags, _ = scipy.stats.mode(channel_labels[:, :-1], axis=1)", ["mode_2ch_3batches"]),
        Twin("batches_past_the_end", m, "np.linspace(0, sr.rl - batch_duration, n_batches)", "np.linspace(0, sr.rl, n_batches)", ["mode_2ch_3batches"]),
    ]


def replay(case, params, cex):
    m = cex["model"]
    if "_nanbad_" in case:
        from fractions import Fraction
        mm, bad_at = params["m"], params["bad_at"]
        vals = [float(Fraction(str(m.get(f"d{i}", 0)))) if i != bad_at else float("nan") for i in range(mm)]
        return f"""
import ibldsp.voltage as v, neuropixel
layout, m, bad_at = {params['layout']!r}, {mm}, {bad_at}
h = neuropixel.trace_header(version=1) if layout == 'np1' else neuropixel.trace_header(version=2, nshank=1 if layout == 'np2' else 4)
x, y = h['x'][:m].astype(float), h['y'][:m].astype(float)
d = np.array({[None if v != v else v for v in vals]!r}, dtype=float)[:, None] * np.ones((1, 3))      # None -> NaN
labels = np.zeros(m); labels[bad_at] = {m.get('kind', 1)}
out = v.interpolate_bad_channels(d.copy(), labels, x, y)
print(d[:, 0], out[:, 0])
if not np.all(np.isfinite(out[bad_at])): reproduced(f'the bad channel {{bad_at}} held NaN; after the repair it still holds {{out[bad_at].tolist()}} although all its neighbours are finite')
not_reproduced()
"""
    if "_int16_" in case:
        mm, bad_at = params["m"], params["bad_at"]
        vals = [int(str(m[f"d{i}"])) for i in range(mm)]
        return f"""
import ibldsp.voltage as v, neuropixel
layout, m, bad_at = {params['layout']!r}, {mm}, {bad_at}
h = neuropixel.trace_header(version=1) if layout == 'np1' else neuropixel.trace_header(version=2, nshank=1 if layout == 'np2' else 4)
x, y = h['x'][:m].astype(float), h['y'][:m].astype(float)
d = np.array({vals}, dtype=np.int16)[:, None] * np.ones((1, 3), dtype=np.int16)
labels = np.zeros(m); labels[bad_at] = {m.get('kind', 1)}
out = v.interpolate_bad_channels(d.copy(), labels, x, y)
w = np.exp(-((np.abs(x - x[bad_at] + 1j * (y - y[bad_at])) / 20) ** 1.3)); w[bad_at] = 0; w[w < 0.005] = 0
contrib = np.where(w > 0)[0]
lo, hi = d[contrib, 0].min(), d[contrib, 0].max()
print(out[:, 0], contrib, lo, hi)
if out.dtype != np.int16 or not (lo <= out[bad_at, 0] <= hi): reproduced(f'int16 data: repaired channel {{bad_at}} = {{out[bad_at, 0]}} outside the range [{{lo}}, {{hi}}] of its contributing neighbours {{contrib.tolist()}}')
keep = [i for i in range(m) if i != bad_at]
if not np.array_equal(out[keep], d[keep]): reproduced('a channel that is not bad was modified')
not_reproduced()
"""
    if case.startswith("interp"):
        mm, ns = params["m"], 2
        from fractions import Fraction
        labels = [m[f"label{i}"] for i in range(mm)]
        return f"""
import ibldsp.voltage as v, neuropixel
layout, m, off = {params['layout']!r}, {mm}, {params['off']}
h = neuropixel.trace_header(version=1) if layout == 'np1' else neuropixel.trace_header(version=2, nshank=1 if layout == 'np2' else 4)
x, y = h['x'][off:off + m].astype(float), h['y'][off:off + m].astype(float)
labels = np.array({labels}, dtype=float)
bad = np.where((labels == 1) | (labels == 2))[0]
problems = []
for trial in range(4):
    rs = np.random.default_rng(trial)
    data = rs.normal(size=(m, 3)) if trial else np.ones((m, 3))
    out = v.interpolate_bad_channels(data.copy(), labels, x, y)
    for i in range(m):
        if i not in bad:
            if not np.array_equal(out[i], data[i]): problems.append(('good row changed', i))
            continue
        w = np.exp(-((np.abs(x - x[i] + 1j * (y - y[i])) / 20) ** 1.3)); w[bad] = 0; w[w < 0.005] = 0
        c = np.where(w > 0)[0]
        if c.size == 0:
            if np.any(out[i] != 0): problems.append(('no neighbour but non zero', i))
        else:
            lo, hi = data[c].min(0), data[c].max(0)
            if np.any(out[i] < lo - 1e-12) or np.any(out[i] > hi + 1e-12): problems.append(('outside the range of its contributors', i, out[i].tolist(), lo.tolist(), hi.tolist()))
        d2 = data.copy(); d2[bad] = 1e6; o2 = v.interpolate_bad_channels(d2, labels, x, y)
        if not np.allclose(o2[i], out[i]): problems.append(('a bad row contributes', i))
print(labels, problems[:4])
if problems: reproduced(str(problems[:3]))
not_reproduced()
"""
    if case.startswith("mode"):
        nch, nb = params["nch"], params["n_batches"]
        L = [[m[f"L{c}_{b}"] for b in range(nb)] for c in range(nch)]
        return f"""
import ibldsp.voltage as v
L = np.array({L}, dtype=float); nch, nb = L.shape; ns = {m['ns']}
calls = []; slices = []
_ns = ns
class SR:
    nc = nch + 1; nsync = 1; fs = 30000; rl = _ns / 30000; ns = _ns
    def __getitem__(self, k):
        slices.append((k[0].start, k[0].stop)); return np.zeros((k[0].stop - k[0].start, nch))
def fake(raw, fs, **kw):
    calls.append(len(calls)); return L[:, len(calls) - 1], {{}}
v.detect_bad_channels = fake
v.spikeglx.Reader = SR
res = np.asarray(v.detect_bad_channels_cbin(SR(), n_batches=nb, batch_duration=0.3)).reshape(-1)
bad = []
for c in range(nch):
    vals, cnts = np.unique(L[c], return_counts=True)
    if res[c] not in vals[cnts == cnts.max()]: bad.append(('not a mode', c, res[c], L[c].tolist()))
    elif res[c] != vals[cnts == cnts.max()].min(): bad.append(('tie between batches not resolved to the smallest label', c, res[c], L[c].tolist()))
for a, b in slices:
    if not (0 <= a < b <= ns): bad.append(('slice', a, b))
if slices and (slices[0][0] != 0 or not (ns - 2 <= slices[-1][1] <= ns)): bad.append(('batches do not span the recording from its first to its last sample', slices[0], slices[-1], ns))
print(res, bad)
if bad: reproduced(str(bad))
not_reproduced()
"""
    return None

# level text addendum (cases added after the seeded-change rounds)
LEVEL_TEXT = LEVEL_TEXT + " Also: runs of adjacent bad channels, int16 data (the repaired channel stays within its contributors' range), scipy's tie rule for the per-batch mode."
LEVEL_TEXT = LEVEL_TEXT + " Round 6: NaN samples in the bad channel itself (0 * NaN stays NaN in the engine's matrix product)."
LEVEL_TEXT = LEVEL_TEXT + ' Round 7: the batches span the recording from its first sample to within two samples of its last.'
