"""
C03 - NP2.4 shank splitting is lossless and reconstruction is its exact inverse.
 (a) value round trip: IEEE float32 lemma over all 65536 words per volts-per-bit setting (cvc5)
 (b) which sample goes where: real NP2Converter._process_NP24 on the symbolic file system, symbolic length
 (c) inverse: channel-list text round trip and real NP2Reconstructor on the split output
"""
from fractions import Fraction

import numpy as np
import z3

from symex import arrays, core, fakefs, fp, larr, np2env, sglx
from symex.core import SBV, SFP, SInt, all_, and_, implies, not_, or_
from symex.fakefs import FakePath
from symex.harness import Case, Twin
from symex.larr import LArr

PROPERTY = "C03"
FUNCTIONS = ["neuropixel.NP2Converter.__init__/init_params/check_metadata/process/_process_NP24/_prepare_files_NP24/_ind2save/_split2shanks/_closefiles/_writemetadata_ap",
             "neuropixel.NP2Reconstructor.process/_prepare_files/get_params/_get_chans/_reconstruct/write_metadata", "spikeglx._get_savedChans_subset",
             "spikeglx.Reader.read", "spikeglx._conversion_sample2v_from_meta", "ibldsp.utils.WindowGenerator"]
ASSUMPTIONS = [
    "(a) exact IEEE float32: cast int16->float32, multiply by the float32 factor (RNE), divide by it (RNE), cast to int16 (round toward zero) - one cvc5 query per volts-per-bit setting over all 65536 words",
    "(b,c) values as exact reals/ints (the rounding is what (a) covers); raw samples are an uninterpreted function RAW(sample, channel); recording length ns symbolic with at most K windows; ns >= 577 (shorter than one overlap: outside)",
    "mtscomp.compress/decompress and scipy.signal.sosfiltfilt are stubs (compression content is C02's subject, LFP values are C12's)",
    "shank maps are concrete per case (contiguous, interleaved, single shank, unbalanced) on 4-6 channels",
]
OUTSIDE = ["zlib losslessness (third-party C code)", "recordings shorter than 577 samples", "384-channel instantiation (the column logic is size-independent; bounded by solver time)"]
EXPLANATION = "the converter's window loop runs on a lazy array with symbolic length; each feasible window count is a path; a skolem row stands for every sample."
LEVEL_TEXT = ("(a) for each full-scale/max-int/gain setting SpikeGLX writes for NP2 probes, cvc5 decides over ALL 65536 int16 words that scale->unscale->int16 returns the word; "
              "(b) for every recording length (<= K windows, window sizes multiple of 12) and each shank map, z3 decides that every per-shank AP file has exactly ns rows, written back to back, "
              "row p column j == RAW(p, chns[j]) with the sync last, and that the metadata describes it; (c) the channel-list encoding is inverted exactly and reassembly reproduces every original sample and metadata field.")
LEVEL_NOTE = "Trusted: cvc5/z3, lazy-array and fake-file models, the mtscomp and filter stubs."

SETTINGS = {"0.5_8192": ("0.5", 8192), "0.62_2048": ("0.62", 2048), "0.62_8192": ("0.62", 8192), "0.6_512": ("0.6", 512), "0.5_2048": ("0.5", 2048)}
MAPS = {"contig": [0, 0, 1, 1], "interleaved": [0, 1, 0, 1], "single": [2, 2, 2, 2], "unbalanced": [0, 1, 1, 1, 3], "four": [0, 1, 2, 3, 0, 1],
        "without_shank0": [1, 3, 1, 3]}        # sites on shanks b and d only


def bounds(tier):
    return {"K": 3 if tier == "quick" else 4, "windows": [1200] if tier == "quick" else [1200, 2400, 60000],
            "maps": ["contig", "interleaved", "single"] if tier == "quick" else list(MAPS), "settings": list(SETTINGS)}


def setup():
    np2env.patch()


# --------------------------------------------------------------------------------------------- (a)
def case_value_roundtrip(ctx, setting):
    import spikeglx
    import neuropixel
    rng, maxint = SETTINGS[setting]
    w = ctx.bv("word", 16)
    sy = ctx.bv("sync", 16)
    content = arrays.mk([w, sy], shape=(1, 2), tag=np.dtype(np.int16))
    txt = sglx.imec_meta_text("NP2.4", [(0, 0, 0)], ns=format(1 / 30000.0, ".20f"), fs_hz="30000", rng=rng, maxint=maxint, file_size=4)
    F = fakefs.install(fakefs.FakeFS())
    F.add("/s/probe00/x.imec0.ap.meta", True, len(txt), [{"pos": 0, "text": txt}])
    F.add("/s/probe00/x.imec0.ap.bin", True, 4, content)
    conv = ctx.call("converter_init", neuropixel.NP2Converter, FakePath("/s/probe00/x.imec0.ap.bin"), post_check=False, compress=False)
    wg = neuropixel.WindowGenerator(conv.nsamples, conv.samples_window, conv.samples_overlap)
    wins = list(wg.firstlast)
    first, last = wins[0]
    chunk_ap = ctx.call("read", lambda: conv.sr[first:last, : conv.napch].T)
    chunk_sy = ctx.call("read", lambda: conv.sr[first:last, conv.idxsyncch:].T)
    out = ctx.call("ind2save", conv._ind2save, chunk_ap, chunk_sy, wg, ratio=1, etype="ap")
    if not ctx.oblige("one_row_two_columns", tuple(out.shape) == (1, 2), detail={"shape": str(out.shape)}):
        return
    e0, e1 = out[0, 0], out[0, 1]
    if not (isinstance(e0, SBV) and isinstance(e1, SBV)):
        ctx.oblige("value_path_is_float32_then_int16", False, detail={"types": [type(e0).__name__, type(e1).__name__]})
        return
    fp.oblige_fp(ctx, "split_word_equals_original_word", e0.t == w.t, {"word": w.t}, detail={"setting": setting})
    fp.oblige_fp(ctx, "split_sync_equals_original_sync", e1.t == sy.t, {"sync": sy.t}, detail={"setting": setting})


# --------------------------------------------------------------------------------------------- (b)
def build_np24(ctx, shank_of, window, K, ns_min=577, post_check=False, compress=False, delete_original=False, ns_name="ns", fs_txt="30000", rng="0.5", maxint=8192, flags=None):
    """original NP2.4 recording with symbolic length on a fresh fake fs; returns (converter, fs, ns, nc)"""
    import neuropixel
    n = len(shank_of)
    nc = n + 1
    ns = ctx.int(ns_name, ns_min, 10 ** 9)
    ov = 576
    ctx.assume(ns <= window + (K - 1) * (window - ov))
    T = core._as_real(ns) / Fraction(float(fs_txt))
    txt = np2env.np24_meta_text(n, shank_of, sglx.S(T), extra=["fileSHA1=ABCDEF", f"fileSizeBytes={sglx.S(ns * nc * 2)}"], fs_txt=fs_txt, rng=rng, maxint=maxint, flags=flags)
    F = fakefs.install(fakefs.FakeFS())
    F.add("/s/probe00/x.imec0.ap.meta", True, len(txt), [{"pos": 0, "text": txt}])
    F.add("/s/probe00/x.imec0.ap.bin", True, ns * nc * 2, np2env.raw_array(ns, nc))
    conv = ctx.call("converter_init", neuropixel.NP2Converter, FakePath("/s/probe00/x.imec0.ap.bin"), post_check=post_check, compress=compress,
                    delete_original=delete_original)
    conv.init_params(nwindow=window, extra="_t")
    return conv, F, ns, nc


def shank_channels(shank_of, s):
    return [i for i, x in enumerate(shank_of) if x == s] + [len(shank_of)]


def check_split_file(ctx, F, path, ns, chns, what="ap", ratio=1):
    f = F.get(path)
    if not ctx.oblige(f"{what}_file_exists", f is not None and bool(f.exists), detail={"path": path}):
        return None
    recs = f.content
    if not ctx.oblige(f"{what}_file_has_records", isinstance(recs, list) and len(recs) > 0):
        return None
    ncols = len(chns)
    nrows = ns if ratio == 1 else (ns + ratio - 1) // ratio
    pos = 0
    ok = True
    for r in recs:
        ok &= ctx.oblige(f"{what}_records_are_back_to_back", core.eq(r["pos"], pos), detail={"pos": r["pos"], "expected": pos})
        ok &= ctx.oblige(f"{what}_record_width", bool(larr._dim_eq(r["array"].shape[1], ncols)), detail={"shape": str(r["array"].shape)})
        ctx.oblige(f"{what}_record_is_int16", r["itemsize"] == 2)
        pos = pos + r["array"].shape[0] * ncols * 2
    ok &= ctx.oblige(f"{what}_file_has_exactly_the_expected_rows", core.eq(pos, nrows * ncols * 2), detail={"bytes": pos, "rows_expected": nrows})
    ctx.oblige(f"{what}_file_size_matches", core.eq(f.size, nrows * ncols * 2))
    if not ok:
        return None
    return np2env.records_view(recs, ncols)


def case_split(ctx, mapname, window, K, fs_txt="30000", rerun=False, unflagged_shank=None):
    import spikeglx
    import neuropixel
    shank_of = MAPS[mapname]
    # unflagged_shank: every site of that shank has its "used" flag at 0 in the shank map (still saved channels: they must be split too)
    flags = None if unflagged_shank is None else [0 if s == unflagged_shank else 1 for s in shank_of]
    conv, F, ns, nc = build_np24(ctx, shank_of, window, K, fs_txt=fs_txt, flags=flags)
    status = ctx.call("process", conv.process)
    ctx.oblige("status_is_one", status == 1, detail={"status": status})
    if rerun:
        # the split is run again over its own (uncompressed) output with overwrite=True: the files must hold ONE copy of the samples
        conv2 = ctx.call("converter_init", neuropixel.NP2Converter, FakePath("/s/probe00/x.imec0.ap.bin"), post_check=False, compress=False, delete_original=False)
        conv2.init_params(nwindow=window, extra="_t")
        status = ctx.call("process_again", conv2.process, overwrite=True)
        ctx.oblige("status_is_one", status == 1, detail={"status": status, "run": 2})
    shanks = sorted(set(shank_of))
    p = ctx.int("p", 0)
    ctx.assume(p < ns)
    for s in shanks:
        chns = shank_channels(shank_of, s)
        path = f"/s/probe00{chr(97 + s)}_t/x.imec0.ap.bin"
        view = check_split_file(ctx, F, path, ns, chns, "ap")
        if view is None:
            continue
        for j, c in enumerate(chns):
            ctx.oblige("ap_row_p_column_j_is_original_sample", core.eq(view.fn(p, j), np2env.raw_elem(p, c)), detail={"shank": s, "j": j, "p": p, "got": view.fn(p, j)})
        # metadata of the split file, parsed back by the real parser
        md = ctx.call("read_meta", spikeglx.read_meta_data, FakePath(path).with_suffix(".meta"))
        n_ch = len(chns)
        ctx.oblige("meta_nSavedChans", core.eq(md["nSavedChans"], n_ch))
        ctx.oblige("meta_snsApLfSy", isinstance(md["snsApLfSy"], list) and all(bool(core.eq(a, b)) for a, b in zip(md["snsApLfSy"], [n_ch - 1, 0, 1])), detail={"got": str(md["snsApLfSy"])})
        ctx.oblige("meta_fileSizeBytes", core.eq(md["fileSizeBytes"], ns * n_ch * 2), detail={"got": md["fileSizeBytes"]})
        ctx.oblige("meta_shank_flag", core.eq(md["NP2.4_shank"], s))
        ctx.oblige("meta_subset", md["snsSaveChanSubset"] == f"0:{n_ch - 1}")
        back = ctx.call("get_chans", lambda: _get_chans(md))
        back = back if isinstance(back, LArr) else np.atleast_1d(back)
        okl = ctx.oblige("meta_original_channels_count", core.eq(back.shape[0], len(chns)), detail={"got": back.shape[0]})
        if okl:
            ctx.oblige("meta_original_channels_recorded", all_([core.eq(back[i], chns[i]) for i in range(len(chns))]), detail={"expected": chns})
        ctx.oblige("meta_duration_unchanged", core.eq(md["fileTimeSecs"] * Fraction(float(fs_txt)), core._as_real(ns)))
    # original untouched
    o = F.get("/s/probe00/x.imec0.ap.bin")
    ctx.oblige("original_still_there", bool(o.exists) and isinstance(o.content, LArr))


def _get_chans(md):
    import neuropixel
    r = neuropixel.NP2Reconstructor.__new__(neuropixel.NP2Reconstructor)
    return r._get_chans(md)


# --------------------------------------------------------------------------------------------- (c)
def case_chans_text_roundtrip(ctx, n):
    import spikeglx
    # ascending channel list: c0 < c1 < ... (sync index last), symbolic
    cs = [ctx.int(f"c{i}", 0, 800) for i in range(n)]
    for i in range(n - 1):
        ctx.assume(cs[i] < cs[i + 1])
    arr = arrays.mk(cs, tag=np.dtype(np.int64))
    txt = ctx.call("get_savedChans_subset", spikeglx._get_savedChans_subset, arr)
    back = ctx.call("get_chans", lambda: _get_chans({"snsSaveChanSubset_orig": txt}))
    if not isinstance(back, LArr):
        back = np.atleast_1d(back)
    if not ctx.oblige("parsed_list_has_same_length", core.eq(back.shape[0], n), detail={"text": repr(txt), "len": back.shape[0]}):
        return
    for i in range(n):
        ctx.oblige("parsed_channel_equals_original", core.eq(back[i], cs[i]), detail={"i": i})


def case_reconstruct(ctx, mapname, window, K, fs_txt="30000"):
    import neuropixel
    import spikeglx
    shank_of = MAPS[mapname]
    conv, F, ns, nc = build_np24(ctx, shank_of, window, K, fs_txt=fs_txt)
    conv.init_params(nwindow=window, extra="")
    ctx.call("process", conv.process)
    # move the original away, reassemble into /s/probe00
    orig = F.get("/s/probe00/x.imec0.ap.bin")
    orig_meta_txt = "".join(r["text"] for r in F.get("/s/probe00/x.imec0.ap.meta").content)
    F.files.pop("/s/probe00/x.imec0.ap.bin")
    F.files.pop("/s/probe00/x.imec0.ap.meta")
    rec = neuropixel.NP2Reconstructor(FakePath("/s"), "probe00", compress=False)
    status = ctx.call("reconstruct", rec.process)
    ctx.oblige("reconstruct_status_one", status == 1, detail={"status": status})
    out = F.get("/s/probe00/x.imec0.ap.bin")
    if not ctx.oblige("reconstructed_file_exists", out is not None and bool(out.exists)):
        return
    view = check_split_file(ctx, F, "/s/probe00/x.imec0.ap.bin", ns, list(range(nc)), "reconstructed")
    if view is None:
        return
    p = ctx.int("p", 0)
    ctx.assume(p < ns)
    for c in range(nc):
        ctx.oblige("reconstructed_sample_equals_original", core.eq(view.fn(p, c), np2env.raw_elem(p, c)), detail={"c": c, "got": view.fn(p, c)})
    md = ctx.call("read_meta", spikeglx.read_meta_data, FakePath("/s/probe00/x.imec0.ap.meta"))
    F.add("/s/orig.meta", True, len(orig_meta_txt), [{"pos": 0, "text": orig_meta_txt}])
    mo = spikeglx.read_meta_data(FakePath("/s/orig.meta"))
    for k in mo:
        if not ctx.oblige("reconstructed_meta_has_every_original_field", k in md, detail={"key": k}):
            continue
        a, b = mo[k], md[k]
        if isinstance(a, list):
            same = isinstance(b, list) and len(a) == len(b) and all(bool(core.eq(x, y)) for x, y in zip(a, b))
        elif isinstance(a, str):
            same = a == b
        else:
            same = core.eq(a, b) if not isinstance(b, (str, list)) else False
        ctx.oblige("reconstructed_meta_field_equals_original", same, detail={"key": k, "orig": repr(a)[:80], "got": repr(b)[:80]})
    extra = set(md.keys()) - set(mo.keys())
    ctx.oblige("only_provenance_flag_added", extra <= {"original_meta"}, detail={"extra": sorted(extra)})


def case_reconstruct_words(ctx, setting):
    """whatever int16 words the shank files hold, the reassembled file holds exactly these words at the original channel
    positions - for every word value and every volts-per-bit setting (bit-vector words, IEEE semantics if floats get involved)"""
    import neuropixel
    rng, maxint = SETTINGS[setting]
    shank_of = MAPS["contig"]
    conv, F, ns, nc = build_np24(ctx, shank_of, 1200, 2, rng=rng, maxint=maxint)
    conv.init_params(nwindow=1200, extra="")
    ctx.call("process", conv.process)
    F.files.pop("/s/probe00/x.imec0.ap.bin")
    F.files.pop("/s/probe00/x.imec0.ap.meta")
    words = {}
    for s_ in sorted(set(shank_of)):
        chns = shank_channels(shank_of, s_)
        path = f"/s/probe00{chr(97 + s_)}/x.imec0.ap.bin"
        f = F.get(path)
        ws = [ctx.bv(f"word_shank{s_}_col{j}", 16) for j in range(len(chns))]
        words[s_] = ws

        def fn(r, c, ws=ws):
            if not isinstance(c, core.Sym):
                return ws[int(c)]
            out = ws[-1]
            for j in range(len(ws) - 2, -1, -1):
                out = core.ite(core.eq(c, j), ws[j], out)
            return out
        arr = LArr((ns, len(chns)), fn, aid=larr.const_aid(f"words_shank{s_}"), tag=np.dtype(np.int16))
        f.content = [{"pos": 0, "array": arr, "itemsize": 2, "nbytes": ns * len(chns) * 2}]
    rec = neuropixel.NP2Reconstructor(FakePath("/s"), "probe00", compress=False)
    status = ctx.call("reconstruct", rec.process)
    ctx.oblige("reconstruct_status_one", status == 1, detail={"status": status})
    view = check_split_file(ctx, F, "/s/probe00/x.imec0.ap.bin", ns, list(range(nc)), "reconstructed")
    if view is None:
        return
    p = ctx.int("p", 0)
    ctx.assume(p < ns)
    for s_ in sorted(set(shank_of)):
        chns = shank_channels(shank_of, s_)
        for j, c in enumerate(chns):
            if c == nc - 1 and s_ != sorted(set(shank_of))[0]:
                continue            # the sync column is taken from the first shank file
            got = view.fn(p, c)
            w = words[s_][j]
            if isinstance(got, SFP):
                got = arrays.cast_scalar(got, np.int16)          # the value went through floats: C cast back to int16
            if isinstance(got, SBV):
                if "fp." not in got.t.sexpr():
                    ctx.oblige("reconstructed_word_is_the_shank_files_word", core.eq(got, w), detail={"setting": setting, "shank": s_, "col": j, "channel": c})
                else:
                    # the word went through IEEE arithmetic: decided by cvc5 (logic ALL: bit-vectors + IEEE + the integer path condition
                    # on ns and the row p) for all 65536 values
                    res, model, dt = fp.cvc5_decide(list(ctx.solver.assertions()) + [z3.Not(got.t == w.t)], 900, logic="ALL")
                    ctx.ex.stats.solver_s += dt
                    if res == "unsat":
                        ctx.oblige("reconstructed_word_is_the_shank_files_word", True)
                    elif res == "sat":
                        ctx.solver.push()
                        ctx.solver.add(w.t == z3.BitVecVal(model[f"word_shank{s_}_col{j}"], 16))
                        ctx.oblige("reconstructed_word_is_the_shank_files_word", False, detail={"setting": setting, "shank": s_, "col": j, "channel": c})
                        ctx.solver.pop()
                    else:
                        raise core.SolverUnknown(f"cvc5 {res} {model}")
            else:
                ctx.oblige("reconstructed_word_is_the_shank_files_word", False, detail={"type": type(got).__name__, "shank": s_, "col": j})


def cases(tier):
    b = bounds(tier)
    cs = []
    for st in (["0.62_2048"] if tier == "quick" else list(SETTINGS)):
        cs.append(Case(f"reconstruct_words_{st}", "case_reconstruct_words", {"setting": st}, timeout_s=2400))
    for st in b["settings"]:
        cs.append(Case(f"value_roundtrip_{st}", "case_value_roundtrip", {"setting": st}, timeout_s=2400))
    for mp in b["maps"]:
        for w in b["windows"]:
            cs.append(Case(f"split_{mp}_w{w}", "case_split", {"mapname": mp, "window": w, "K": b["K"]}, timeout_s=2400))
    cs.append(Case("split_interleaved_w1200_shank1_sites_unflagged", "case_split", {"mapname": "interleaved", "window": 1200, "K": 2, "unflagged_shank": 1}, timeout_s=2400))
    cs.append(Case("split_contig_w1200_rerun_overwrite", "case_split", {"mapname": "contig", "window": 1200, "K": 2, "rerun": True}, timeout_s=2400))
    for n in (2, 3, 4) if tier == "quick" else (2, 3, 4, 5, 6):
        cs.append(Case(f"chans_text_{n}", "case_chans_text_roundtrip", {"n": n}))
    for mp in (["contig", "interleaved", "single", "without_shank0"] if tier == "quick" else list(MAPS)):
        cs.append(Case(f"reconstruct_{mp}", "case_reconstruct", {"mapname": mp, "window": 1200, "K": 2}, timeout_s=2400))
    # long recordings at the fractional rates SpikeGLX really reports (duration x nominal rate != sample count)
    cs.append(Case("reconstruct_contig_fs30000.39", "case_reconstruct", {"mapname": "contig", "window": 60000, "K": 2, "fs_txt": "30000.390639481"}, timeout_s=2400))
    cs.append(Case("reconstruct_interleaved_fs29999.76", "case_reconstruct", {"mapname": "interleaved", "window": 60000, "K": 2, "fs_txt": "29999.757983"}, timeout_s=2400))
    cs.append(Case("split_contig_w60000_fs30000.39", "case_split", {"mapname": "contig", "window": 60000, "K": 2, "fs_txt": "30000.390639481"}, timeout_s=2400))
    return cs


def twins(tier):
    m = "neuropixel"
    sp = ["split_contig_w1200", "split_interleaved_w1200"]
    return [
        Twin("keep_from_one_taper", m, "            int(self.samples_taper * 2 / ratio),\n            int((self.samples_window - self.samples_taper * 2) / ratio),",
             "            int(self.samples_taper / ratio),\n            int((self.samples_window - self.samples_taper * 2) / ratio),", sp),
        Twin("last_window_test", m, "if wg.iw == wg.nwin - 1:", "if wg.iw == wg.nwin:", sp),
        Twin("first_window_not_from_zero", m, "        if wg.iw == 0:\n            ind2save[0] = 0", "        if wg.iw == 0:\n            ind2save[0] = 0 if self.samples_window > 100000 else ind2save[0]", sp),
        Twin("sync_dropped_from_shank", m, "np.array(spikeglx._get_sync_trace_indices_from_meta(self.sr.meta)),\n            ]\n\n            probe_path",
             "np.array(spikeglx._get_sync_trace_indices_from_meta(self.sr.meta)) - 1,\n            ]\n\n            probe_path", sp),
        Twin("truncate_instead_of_round", m, "chunk2save = np.rint(\n            np.c_[", "chunk2save = (\n            np.c_[", ["value_roundtrip_0.62_2048", "value_roundtrip_0.6_512"]),
        Twin("range_end_exclusive", "spikeglx", 'f"{chns[chn_grps[i]]}:{chns[chn_grps[i + 1] - 1]}"', 'f"{chns[chn_grps[i]]}:{chns[chn_grps[i + 1] - 1] + 1}"', ["chans_text_3", "chans_text_4"]),
        Twin("get_chans_exclusive", m, "chns = np.arange(int(sub[0]), int(sub[1]) + 1)", "chns = np.arange(int(sub[0]), int(sub[1]))", ["chans_text_3", "chans_text_4"]),
        Twin("reconstruct_drops_scatter", m, "chunk[:, self.shank_info[sh][\"chns\"][:-1]] = self.shank_info[sh][\"sr\"]._raw[first:last, :-1]",
             "chunk[:, self.shank_info[sh][\"chns\"][1:]] = self.shank_info[sh][\"sr\"]._raw[first:last, 1:]", ["reconstruct_contig", "reconstruct_interleaved"]),
        Twin("meta_size_of_lf", m, 'meta_shank["fileSizeBytes"] = self.shank_info[sh]["ap_file"].stat().st_size', 'meta_shank["fileSizeBytes"] = self.shank_info[sh]["lf_file"].stat().st_size', sp),
    ]


def replay(case, params, cex):
    m = cex["model"]
    common = '''
import sys, tempfile, pathlib, shutil
sys.path.insert(0, '/verif')
from symex import sglx, np2env
import spikeglx, neuropixel
def make(shank_of, ns, rng="0.5", maxint=8192, data=None, fs_txt="30000", flags=None):
    d = pathlib.Path(tempfile.mkdtemp()) / 's' / 'probe00'; d.mkdir(parents=True)
    n = len(shank_of); nc = n + 1
    if data is None:
        rs = np.random.default_rng(0); data = rs.integers(-32768, 32767, size=(ns, nc)).astype(np.int16)
    txt = np2env.np24_meta_text(n, shank_of, format(ns / float(fs_txt), '.12f'), rng=rng, maxint=maxint, extra=['fileSHA1=ABCDEF', f'fileSizeBytes={ns * nc * 2}'], fs_txt=fs_txt, flags=flags)
    (d / 'x.imec0.ap.meta').write_text(txt); data.tofile(d / 'x.imec0.ap.bin')
    return d, data
'''
    if case.startswith("value_roundtrip"):
        rng, maxint = SETTINGS[params["setting"]]
        word = m.get("word", 0)
        sync = m.get("sync", 0)
        return common + f"""
word, sync = np.array([{word}, {sync}], dtype=np.uint16).astype(np.int16)
ns = 1000
data = np.zeros((ns, 2), dtype=np.int16); data[:, 0] = word; data[:, 1] = sync
d, data = make([0], ns, rng={rng!r}, maxint={maxint}, data=data)
conv = neuropixel.NP2Converter(d / 'x.imec0.ap.bin', post_check=False, compress=False)
conv.init_params(nwindow=1200, extra='_t')
conv.process()
out = np.fromfile(d.parent / 'probe00a_t' / 'x.imec0.ap.bin', dtype=np.int16).reshape(-1, 2)
print('word', word, 'written', np.unique(out[:, 0]), 'sync', sync, np.unique(out[:, 1]))
if not np.array_equal(out, data): reproduced(f'split file differs from the original for word {{word}} with range/maxint {rng}/{maxint}: wrote {{np.unique(out[:, 0])}}')
not_reproduced()
"""
    if case.startswith("split_"):
        ns = m["ns"]
        return common + f"""
shank_of = {MAPS[params['mapname']]}; ns = {ns}; window = {params['window']}
if ns > 3_000_000: not_reproduced('too long to materialise')
unflagged = {params.get('unflagged_shank')!r}
d, data = make(shank_of, ns, fs_txt={params.get('fs_txt', '30000')!r}, flags=None if unflagged is None else [0 if s == unflagged else 1 for s in shank_of])
conv = neuropixel.NP2Converter(d / 'x.imec0.ap.bin', post_check=False, compress=False)
conv.init_params(nwindow=window, extra='_t')
try:
    st = conv.process()
    if {bool(params.get('rerun'))}:
        conv2 = neuropixel.NP2Converter(d / 'x.imec0.ap.bin', post_check=False, compress=False)
        conv2.init_params(nwindow=window, extra='_t')
        st = conv2.process(overwrite=True)
        for sh in conv2.shank_info.values():
            for k, f in sh.items():
                if k.endswith('open_file') and not f.closed: f.flush()
except Exception as e:
    reproduced(f'process raised {{type(e).__name__}}: {{e}} for ns={{ns}} window={{window}}')
bad = []
for s in sorted(set(shank_of)):
    chns = [i for i, x in enumerate(shank_of) if x == s] + [len(shank_of)]
    f = d.parent / f'probe00{{chr(97 + s)}}_t' / 'x.imec0.ap.bin'
    if not f.exists(): bad.append(('no file for shank', s, sorted(p.name for p in d.parent.iterdir()))); continue
    out = np.fromfile(f, dtype=np.int16)
    if out.size != ns * len(chns): bad.append(('rows', s, out.size / len(chns), ns)); continue
    if not np.array_equal(out.reshape(ns, len(chns)), data[:, chns]): bad.append(('values', s))
    md = spikeglx.read_meta_data(f.with_suffix('.meta'))
    if md['nSavedChans'] != len(chns) or md['fileSizeBytes'] != ns * len(chns) * 2 or md['NP2.4_shank'] != s or md['snsApLfSy'] != [len(chns) - 1, 0, 1]: bad.append(('meta', s))
    r = neuropixel.NP2Reconstructor.__new__(neuropixel.NP2Reconstructor)
    if list(np.atleast_1d(r._get_chans(md))) != chns: bad.append(('chans', s))
print(bad)
if bad: reproduced(str(bad))
not_reproduced()
"""
    if case.startswith("chans_text"):
        n = params["n"]
        cs = [m[f"c{i}"] for i in range(n)]
        return f"""
import spikeglx, neuropixel
cs = np.array({cs})
txt = spikeglx._get_savedChans_subset(cs)
r = neuropixel.NP2Reconstructor.__new__(neuropixel.NP2Reconstructor)
try:
    back = np.atleast_1d(r._get_chans({{'snsSaveChanSubset_orig': txt}}))
except Exception as e:
    reproduced(f'_get_chans raised {{e!r}} on {{txt!r}}')
print(cs, txt, back)
if list(back) != list(cs): reproduced(f'channel list {{cs.tolist()}} -> {{txt!r}} -> {{back.tolist()}}')
not_reproduced()
"""
    if case.startswith("reconstruct_words"):
        rng, maxint = SETTINGS[params["setting"]]
        ws = {k: v for k, v in m.items() if k.startswith("word_shank")}
        return common + f"""
shank_of = {MAPS['contig']}; ns = 1300; ws = {ws}
d, data = make(shank_of, ns, rng={rng!r}, maxint={maxint})
conv = neuropixel.NP2Converter(d / 'x.imec0.ap.bin', post_check=False, compress=False)
conv.init_params(nwindow=1200, extra='')
conv.process()
(d / 'x.imec0.ap.bin').unlink(); (d / 'x.imec0.ap.meta').unlink()
# the shank files now get the witness words (all 65536 values appear in column 0 of shank 0 as well)
expect = np.zeros((ns, len(shank_of) + 1), dtype=np.int16)
for s in sorted(set(shank_of)):
    chns = [i for i, x in enumerate(shank_of) if x == s] + [len(shank_of)]
    f = d.parent / f'probe00{{chr(97 + s)}}' / 'x.imec0.ap.bin'
    a = np.fromfile(f, dtype=np.int16).reshape(ns, len(chns))
    for j in range(len(chns)):
        w = ws.get(f'word_shank{{s}}_col{{j}}')
        if w is not None: a[:, j] = np.array([w], dtype=np.uint16).astype(np.int16)[0]
    if s == 0: a[:, 0] = (np.arange(ns) * 50 - 32768).clip(-32768, 32767).astype(np.int16)
    a.tofile(f)
    if s == sorted(set(shank_of))[0]: expect[:, chns] = a
    else: expect[:, chns[:-1]] = a[:, :-1]
rec = neuropixel.NP2Reconstructor(d.parent, 'probe00', compress=False)
try:
    st = rec.process()
except Exception as e:
    reproduced(f'reconstruction raised {{type(e).__name__}}: {{e}}')
out = np.fromfile(d / 'x.imec0.ap.bin', dtype=np.int16).reshape(ns, -1)
diff = np.argwhere(out != expect)
print(len(diff), diff[:5])
if out.shape != expect.shape or len(diff): reproduced(f'the reassembled file differs from the shank files in {{len(diff)}} words (range/maxint {rng}/{maxint}), e.g. {{[(int(r), int(c), int(expect[r, c]), int(out[r, c])) for r, c in diff[:4]]}}')
not_reproduced()
"""
    if case.startswith("reconstruct"):
        ns = m["ns"]
        return common + f"""
shank_of = {MAPS[params['mapname']]}; ns = {ns}
d, data = make(shank_of, ns, fs_txt={params.get('fs_txt', '30000')!r})
conv = neuropixel.NP2Converter(d / 'x.imec0.ap.bin', post_check=False, compress=False)
conv.init_params(nwindow={params['window']}, extra='')
conv.process()
orig_meta = spikeglx.read_meta_data(d / 'x.imec0.ap.meta')
(d / 'x.imec0.ap.bin').unlink(); (d / 'x.imec0.ap.meta').unlink()
rec = neuropixel.NP2Reconstructor(d.parent, 'probe00', compress=False)
try:
    st = rec.process()
except Exception as e:
    reproduced(f'reconstruction raised {{type(e).__name__}}: {{e}}')
out = np.fromfile(d / 'x.imec0.ap.bin', dtype=np.int16)
bad = []
if out.size != data.size or not np.array_equal(out.reshape(data.shape), data): bad.append('bytes differ')
md = spikeglx.read_meta_data(d / 'x.imec0.ap.meta')
for k in orig_meta:
    if k not in md or md[k] != orig_meta[k]: bad.append(('meta', k, orig_meta[k], md.get(k)))
if set(md) - set(orig_meta) - {{'original_meta'}}: bad.append(('extra', set(md) - set(orig_meta)))
print(bad)
if bad: reproduced(str(bad)[:600])
not_reproduced()
"""
    return None

# level text addendum (cases added after the seeded-change rounds)
LEVEL_TEXT = LEVEL_TEXT + ' Also: a second split over its own output, and reconstruction from shank files holding arbitrary 16-bit words decided bit-exactly (cvc5, bit-vectors + IEEE + integers).'
LEVEL_TEXT = LEVEL_TEXT + ' Round 6: shank maps that do not use shank 0 in the reconstruction cases of the quick tier.'
LEVEL_TEXT = LEVEL_TEXT + " Round 7: a shank whose sites all carry the 'unused' flag in the shank map still gets its shard."
