"""
C01 - Reader returns calibrated voltages aligned with the probe geometry.
Real spikeglx.Reader (__init__ metadata branch, open, __getitem__, read, read_samples) on the symbolic
file system; raw words, site positions and gains symbolic.
"""
import itertools
from fractions import Fraction

import numpy as np
import z3

from symex import arrays, core, fakefs, sglx
from symex.core import SBV, SFP, all_, and_, implies, not_, or_
from symex.fakefs import FakePath
from symex.harness import Case, Twin

PROPERTY = "C01"
FUNCTIONS = ["spikeglx.Reader.__init__", "Reader.open", "Reader.__getitem__", "Reader.read", "Reader.read_samples", "Reader.read_sync/read_sync_digital/read_sync_analog",
             "spikeglx.geometry_from_meta", "spikeglx._conversion_sample2v_from_meta", "spikeglx._get_sync_trace_indices_from_meta", "spikeglx.read_meta_data"]
ASSUMPTIONS = [
    "np.memmap is modelled as the file's array content (after the size pre-condition ns*nc*2 <= file size); the .cbin branch uses a stub mtscomp.Reader with the same NumPy indexing surface (forward slices)",
    "value level: raw words are z3 Ints in int16 range, float32(raw) x factor is an exact real product (rounding is covered by the IEEE lemma case, which runs the same two lines on bit-vector words with float32 semantics)",
    "site positions free on the probe grid; gains positive integers",
    "both-selectors-fancy (sr[I, J]) is outside the claim (NumPy pairs them, the reader's documented semantics is outer)",
]
OUTSIDE = ["sr[I, J] with two index arrays", "zlib/mtscomp decompression itself (see C02)", "more than the stated number of sites/samples per case"]
EXPLANATION = "all selector shapes in the bound are applied to one symbolic recording per path; expected = NumPy indexing of the calibrated array built independently from raw words, gain table and the characterised channel order."
LEVEL_TEXT = ("For ALL int16 contents of an ns x (n+1) recording, all site placements (hence all channel orders) and gain tables within the bound, and for every int / slice (all start/stop/step "
              "in [-(len+1), len+1] x {+-1,+-2,+-3}) / index-list selector on either axis, z3 decides that the reader returns raw[sample, order[i]] x factor[order[i]] laid out as NumPy would, sync unscaled, "
              "geometry entry i describing column i, sort=False the disk order; plus the IEEE lemma that the value is exactly fp32(word) *RNE factor32 for all 65536 words.")
LEVEL_NOTE = "Trusted: z3 (LIA + FP theory), SymArray indexing (real NumPy structural ops), memmap/mtscomp stubs, placeholder-token text parsing."


def bounds(tier):
    if tier == "quick":
        return {"sites": 3, "ns": 3, "slice_vals": [None, -4, -2, 0, 1, 3, 5], "steps": [None, 2, -1, -2], "kinds": ["3B2", "NP2.4", "NPultra", "3A"]}
    return {"sites": 3, "ns": 3, "slice_vals": [None] + list(range(-5, 6)), "steps": [None, 1, 2, 3, -1, -2, -3], "kinds": ["3B2", "NP2.4", "NP2.1", "NPultra", "3A", "3B1"]}


class _MtsReader:
    """stub of mtscomp.Reader: same indexing surface as the decompressed array"""

    def __init__(self, *a, **k):
        self._c = None

    def open(self, cbin, ch=None):
        f = fakefs.fs().get(str(cbin))
        if f is None or not bool(f.exists):
            raise FileNotFoundError(str(cbin))
        self._c = f.content
        self.shape = self._c.shape

    def __getitem__(self, key):
        return self._c[key]

    def close(self):
        pass


class _Mts:
    Reader = _MtsReader


def setup():
    sglx.patch(mtscomp=_Mts)


def _site_vars(ctx, kind, n):
    P = sglx.PROBE_TYPES[kind]
    out = []
    for i in range(n):
        s = ctx.int(f"shank{i}", 0, 3) if kind.startswith("NP2.4") else 0
        if kind == "NPultra":
            c, r = ctx.int(f"col{i}", 0, 7), ctx.int(f"row{i}", 0, 47)
        else:
            c, r = ctx.int(f"col{i}", 0, 1), ctx.int(f"row{i}", 0, 479 if P["major"] == 1 else 639)
        out.append((s, c, r))
    return out


def _selectors(b, ln):
    vals, steps = b["slice_vals"], b["steps"]
    out = []
    for a, bb, c in itertools.product(vals, vals, steps):
        out.append(slice(a, bb, c))
    return out


def _build(ctx, kind, n, ns, sym_gain, sort, cbin, band="ap"):
    import spikeglx
    P = sglx.PROBE_TYPES[kind]
    sites = _site_vars(ctx, kind, n)
    if sym_gain:
        gains = [(ctx.int(f"ap{i}", 1, 5000), ctx.int(f"lf{i}", 1, 5000)) for i in range(n)]
        raw = [[(7 + 13 * s + 101 * c) * (-1) ** (s + c) for c in range(n + 1)] for s in range(ns)]
    else:
        gains = [(500 + 37 * i, 250 + 11 * i) for i in range(n)]
        raw = [[ctx.int(f"w{s}_{c}", -32768, 32767) for c in range(n + 1)] for s in range(ns)]
    content = arrays.mk([e for r in raw for e in r], shape=(ns, n + 1), tag=np.dtype(np.int16))
    T = format(ns / 30000.0, ".20f")
    txt = sglx.imec_meta_text(kind, sites, gains=gains, band=band, ns=T, fs_hz="30000", file_size=ns * (n + 1) * 2)
    base = "/d/x.imec." + band
    F = fakefs.install(fakefs.FakeFS())
    F.add(base + ".meta", True, len(txt), [{"pos": 0, "text": txt}])
    if cbin:
        F.add(base + ".cbin", True, 17, content)
        F.add(base + ".ch", True, 10, "ch")
        path = FakePath(base + ".cbin")
    else:
        F.add(base + ".bin", True, ns * (n + 1) * 2, content)
        path = FakePath(base + ".bin")
    sr = ctx.call("reader_open", spikeglx.Reader, path, sort=sort)
    return sr, sites, gains, raw


def _expected_factor(kind, band, gains, c, n):
    if c >= n:
        return 1
    P = sglx.PROBE_TYPES[kind]
    maxint = {"3A": 512, "3B1": 512, "3B2": 512, "NPultra": 512}.get(kind, P["maxint"])
    k = Fraction(float(P["rng"]) / maxint)
    if P["major"] == 1 or kind == "NPultra":
        g = gains[c][0] if band == "ap" else gains[c][1]
        return core._as_real(k) / g
    return None   # NP2: concrete float32(k/80), taken from an independent float computation below


def _check_order(ctx, sr, sites, n, sort):
    order = [int(v) for v in sr.raw_channel_order]
    ctx.oblige("order_is_permutation_fixing_sync", sorted(order[:n]) == list(range(n)) and order[n:] == [n], detail={"order": order})
    if not sort:
        ctx.oblige("unsorted_order_is_identity", order == list(range(n + 1)), detail={"order": order})
        return order
    kind_major1 = None
    for i in range(n - 1):
        a, b = sites[order[i]], sites[order[i + 1]]
        ka = (a[0], a[2], a[1]) if sr.major_version != 1 else (a[0], a[2], -(2 - 2 * a[1] + a[2] % 2) * -1)
        # key = (shank, row, -col) with col = reported column (NP1: 2-2c+(r mod 2)); descending col <=> ascending -col
        def key(sit):
            s, c, r = sit
            col = (2 - 2 * c + (r % 2)) if sr.major_version == 1 else c
            return (s, r, -col)
        ka, kb = key(a), key(b)
        lt = or_(ka[0] < kb[0], and_(core.eq(ka[0], kb[0]), or_(ka[1] < kb[1], and_(core.eq(ka[1], kb[1]), ka[2] < kb[2]))))
        same = and_(core.eq(ka[0], kb[0]), and_(core.eq(ka[1], kb[1]), core.eq(ka[2], kb[2])))
        ctx.oblige("columns_ordered_by_shank_row_descending_col", or_(lt, same), detail={"i": i, "order": order})
        ctx.oblige("ties_keep_disk_order", implies(same, order[i] < order[i + 1]), detail={"i": i, "order": order})
    return order


def _compare(ctx, name, got, exp, detail):
    gs = np.shape(got)
    es = np.shape(exp)
    if not ctx.oblige(name + "_shape_as_numpy", tuple(gs) == tuple(es), detail=dict(detail, got=str(gs), expected=str(es))):
        return
    G = np.asarray(arrays._plain(got) if isinstance(got, np.ndarray) else got, dtype=object).reshape(-1)
    E = np.asarray(arrays._plain(exp) if isinstance(exp, np.ndarray) else exp, dtype=object).reshape(-1)
    ok = all_([core.eq(a, b) for a, b in zip(G.tolist(), E.tolist())])
    ctx.oblige(name + "_values", ok, detail=detail)


def case_reader(ctx, kind, sym_gain, sort, cbin, tier, band="ap"):
    import spikeglx
    b = bounds(tier)
    n, ns = b["sites"], b["ns"]
    sr, sites, gains, raw = _build(ctx, kind, n, ns, sym_gain, sort, cbin, band)
    order = _check_order(ctx, sr, sites, n, sort)
    ctx.oblige("shape_is_ns_by_nc", tuple(int(v) for v in sr.shape) == (ns, n + 1), detail={"shape": str(sr.shape)})
    # geometry entry i describes column i
    g = sr.geometry
    for i in range(n):
        s, c, r = sites[order[i]]
        col = (2 - 2 * c + (r % 2)) if sr.major_version == 1 else c
        ctx.oblige("geometry_entry_i_describes_column_i", and_(core.eq(g["shank"][i], s), and_(core.eq(g["row"][i], r), core.eq(g["col"][i], col))), detail={"i": i})
        ctx.oblige("geometry_ind_is_disk_column", core.eq(g["ind"][i], order[i]), detail={"i": i})
    # calibrated array built independently
    P = sglx.PROBE_TYPES[kind]
    fac = []
    for c in range(n + 1):
        f = _expected_factor(kind, band, gains, c, n)
        if f is None:
            f = float(np.float32(float(P["rng"]) / P["maxint"] / 80))
        fac.append(f)
    s2v = sr.sample2volts
    for c in range(n + 1):
        if not isinstance(s2v[c], core.Sym):
            # concrete gains: the code's factor is a float32; compare within float32 resolution, then use it
            fexp = float(fac[c]) if isinstance(fac[c], (int, float)) else float(Fraction(str(z3.simplify(fac[c].t).as_fraction())))
            ctx.oblige("factor_per_disk_channel", abs(float(s2v[c]) - fexp) <= 2e-7 * abs(fexp), detail={"c": c, "got": float(s2v[c]), "expected": fexp})
            fac[c] = s2v[c]
        else:
            ctx.oblige("factor_per_disk_channel", core.eq(s2v[c], fac[c]), detail={"c": c, "got": s2v[c]})
    CAL = arrays.mk([raw[s][order[i]] * fac[order[i]] for s in range(ns) for i in range(n + 1)], shape=(ns, n + 1), tag=np.dtype(np.float32))
    nsel_list = list(range(-ns, ns)) + (_selectors(b, ns) if not cbin else [slice(None), slice(0, 2), slice(1, None), slice(0, ns, 2)])
    csel_list = list(range(-(n + 1), n + 1)) + _selectors(b, n + 1)
    fancy_c = [[0], [n, 0], [1, 1, 2], [-1, 0], [], np.array([2, 0]), np.array([True, False, True, False][: n + 1] + [False] * max(0, n - 3))]
    fancy_n = [[0], [2, 0], [1, 1], [-1], [], np.array([1, 2]), [-2, -1], np.array([-3, -2, -1]), [0, 1, 2], [-1, 0]]
    # 1. one selector (samples)
    for nsel in nsel_list:
        got = ctx.call("getitem", lambda: sr[nsel])
        _compare(ctx, "sample_selector", got, CAL[nsel], {"nsel": str(nsel)})
    # 2. (all samples, channel selector) and (int sample, channel selector)
    for csel in csel_list + fancy_c:
        got = ctx.call("getitem", lambda: sr[:, csel])
        _compare(ctx, "channel_selector", got, CAL[:][..., csel], {"csel": str(csel)})
        got = ctx.call("getitem", lambda: sr[1, csel])
        _compare(ctx, "int_sample_channel_selector", got, CAL[1][..., csel], {"csel": str(csel)})
    # 3. sample index lists (uncompressed files) with a slice / int of channels
    if not cbin:
        for I in fancy_n:
            got = ctx.call("getitem", lambda: sr[I, :])
            _compare(ctx, "sample_list_selector", got, CAL[I][..., :], {"nsel": str(I)})
            got = ctx.call("getitem", lambda: sr[I, 1])
            _compare(ctx, "sample_list_int_channel", got, CAL[I][..., 1], {"nsel": str(I)})
    # 4. mixed slices
    for nsel, csel in ((slice(1, None), slice(None, None, -1)), (slice(None, None, 2), slice(1, 3)), (slice(0, 0), slice(None)), (slice(None), slice(2, 2))):
        if cbin and (nsel.step or 1) < 0:
            continue
        got = ctx.call("getitem", lambda: sr[nsel, csel])
        _compare(ctx, "slice_slice", got, CAL[nsel][..., csel], {"nsel": str(nsel), "csel": str(csel)})
    # 5. read / read_samples
    got = ctx.call("read_samples", lambda: sr.read_samples(0, 2, channels=None))
    _compare(ctx, "read_samples", got[0], CAL[0:2], {})
    # numpy slicing convention for every pair of bounds, the empty ones included (stop 0, stop before start)
    for a in [None] + list(range(-1, ns + 1)):
        for bb in list(range(-1, ns + 2)) + [None]:
            got = ctx.call("read_samples", lambda: sr.read_samples(a, bb))
            _compare(ctx, "read_samples_bounds", got[0] if isinstance(got, tuple) else got, CAL[a:bb], {"first": a, "last": bb})
    got = ctx.call("read", lambda: sr.read(nsel=slice(0, 2), csel=[0, n], sync=False))
    _compare(ctx, "read_list", got, CAL[0:2][..., [0, n]], {})
    # 6. sync column unscaled
    got = ctx.call("getitem", lambda: sr[:, n])
    _compare(ctx, "sync_left_unscaled", got, arrays.mk([raw[s][n] for s in range(ns)]), {})


def case_fp_lemma(ctx, kind, band):
    """the two value lines of Reader.read on bit-vector words with IEEE float32 semantics"""
    import spikeglx
    n, ns = 2, 1
    sites = [(0, 0, 0), (0, 1, 0)]
    gains = [(500, 250), (125, 50)]
    words = [ctx.bv(f"w{c}", 16) for c in range(n + 1)]
    content = arrays.mk(words, shape=(1, n + 1), tag=np.dtype(np.int16))
    txt = sglx.imec_meta_text(kind, sites, gains=gains, band=band, ns=format(1 / 30000.0, ".20f"), fs_hz="30000", file_size=(n + 1) * 2)
    F = fakefs.install(fakefs.FakeFS())
    F.add("/d/x.imec.ap.meta", True, len(txt), [{"pos": 0, "text": txt}])
    F.add("/d/x.imec.ap.bin", True, (n + 1) * 2, content)
    sr = ctx.call("reader_open", spikeglx.Reader, FakePath("/d/x.imec.ap.bin"), sort=False)
    s2v = sr.sample2volts
    ctx.oblige("factor_vector_is_float32", np.asarray(s2v).dtype == np.float32 or all(isinstance(x, (np.float32, float)) for x in np.asarray(s2v, dtype=object).tolist()),
               detail={"dtype": str(np.asarray(s2v).dtype)})
    out = ctx.call("getitem", lambda: sr[0, :])
    ctx.oblige("result_is_float32", getattr(out, "tag", None) == np.dtype(np.float32))
    for c in range(n + 1):
        e = out[c]
        f32 = z3.FPVal(float(np.float32(s2v[c])), z3.Float32())
        exp = z3.fpMul(z3.RNE(), z3.fpSignedToFP(z3.RNE(), words[c].t, z3.Float32()), f32)
        ctx.oblige("value_is_fp32_word_times_fp32_factor", isinstance(e, SFP) and core.mkbool(z3.simplify(e.t == exp)) if isinstance(e, SFP) else False, detail={"c": c})


def case_read_sync(ctx, xa, floor=True):
    """nidq: digital lines first, thresholded analog lines after them, one row per sample"""
    import spikeglx
    mn, ma, dw = 0, 0, 1
    ns = 3
    nc = xa + dw
    txt = sglx.nidq_meta_text(mn, ma, xa, dw, ns=format(ns / 30003.0003, ".20f"))
    words = [[ctx.real(f"a{s}_{c}", -32768, 32767, integer_valued=True) for c in range(xa)] + [ctx.bv(f"d{s}", 16)] for s in range(ns)]
    content = arrays.mk([e for r in words for e in r], shape=(ns, nc), tag=np.dtype(np.int16))
    F = fakefs.install(fakefs.FakeFS())
    F.add("/d/x.nidq.meta", True, len(txt), [{"pos": 0, "text": txt}])
    F.add("/d/x.nidq.bin", True, ns * nc * 2, content)
    sr = ctx.call("reader_open", spikeglx.Reader, FakePath("/d/x.nidq.bin"))
    thr = Fraction(6, 5)
    if floor:
        out = ctx.call("read_sync", lambda: sr.read_sync(slice(0, ns), threshold=float(thr)))
    else:
        # floor removal switched off (floor_percentile=False): the raw voltage is compared with the threshold
        out = ctx.call("read_sync_no_floor", lambda: sr.read_sync(slice(0, ns), threshold=float(thr), floor_percentile=False))
    if not ctx.oblige("sync_shape_one_row_per_sample", tuple(out.shape) == (ns, 16 + xa), detail={"shape": str(out.shape)}):
        return
    if floor:
        block = ctx.call("getitem_nidq", lambda: sr[0:2, :])
        ctx.oblige("nidq_reads_are_single_precision_too", getattr(block, "tag", None) == np.dtype(np.float32), detail={"dtype": str(getattr(block, "tag", None))})
    k = Fraction(5.0 / 32768)
    for s in range(ns):
        for b in range(16):
            e = out[s, b]
            v = e.to_int() if isinstance(e, SBV) else e
            ctx.oblige("digital_line_k_is_bit_k", core.eq(v, core.SInt(z3.BV2Int(z3.Extract(b, b, words[s][xa].t), is_signed=False))), detail={"s": s, "k": b})
    def analog_oracle(res, first, last, name, floor=True):
        m_ = last - first
        for j in range(xa):
            col = [core._as_real(words[s][j]) * k for s in range(first, last)]
            srt = arrays._cswap_sorted(col)
            # 10th percentile, linear interpolation: position 0.1*(m-1)
            pos = Fraction(1, 10) * (m_ - 1)
            lo = int(pos)
            p10 = (srt[lo] + (srt[min(lo + 1, m_ - 1)] - srt[lo]) * (pos - lo)) if floor else core._as_real(0)
            for s in range(m_):
                hi = (col[s] - p10) >= core._as_real(Fraction(float(thr)))
                ctx.oblige(name, core.eq(res[s, 16 + j], core.ite(hi, 1, 0)), detail={"s": first + s, "j": j, "got": res[s, 16 + j], "slice": [first, last]})
    if not floor:
        analog_oracle(out, 0, ns, "floor_removal_switched_off_thresholds_the_raw_voltage", floor=False)
        return
    analog_oracle(out, 0, ns, "analog_line_thresholded_after_floor_removal")
    # a later call on another stretch of the same reader: its floor is that stretch's own (nothing carried over from earlier calls)
    out2 = ctx.call("read_sync_again", lambda: sr.read_sync(slice(1, ns), threshold=float(thr)))
    if ctx.oblige("second_call_shape", tuple(out2.shape) == (ns - 1, 16 + xa), detail={"shape": str(out2.shape)}):
        analog_oracle(out2, 1, ns, "later_call_uses_the_floor_of_its_own_stretch")


def cases(tier):
    b = bounds(tier)
    cs = []
    for kind in b["kinds"]:
        cs.append(Case(f"reader_{kind}_sorted", "case_reader", {"kind": kind, "sym_gain": False, "sort": True, "cbin": False, "tier": tier}, timeout_s=3000))
    cs.append(Case("reader_3B2_symgain_sorted", "case_reader", {"kind": "3B2", "sym_gain": True, "sort": True, "cbin": False, "tier": tier}, timeout_s=3000))
    cs.append(Case("reader_3A_lf_symgain", "case_reader", {"kind": "3A", "sym_gain": True, "sort": True, "cbin": False, "tier": tier, "band": "lf"}, timeout_s=3000))
    cs.append(Case("reader_NP2.4_unsorted", "case_reader", {"kind": "NP2.4", "sym_gain": False, "sort": False, "cbin": False, "tier": tier}, timeout_s=3000))
    cs.append(Case("reader_NP2.4_cbin_sorted", "case_reader", {"kind": "NP2.4", "sym_gain": False, "sort": True, "cbin": True, "tier": tier}, timeout_s=3000))
    cs.append(Case("reader_3B2_cbin_sorted", "case_reader", {"kind": "3B2", "sym_gain": False, "sort": True, "cbin": True, "tier": tier}, timeout_s=3000))
    for kind, band in (("3B2", "ap"), ("NP2.4", "ap"), ("3A", "lf"), ("NP2.4b", "ap")):
        cs.append(Case(f"fp_lemma_{kind}_{band}", "case_fp_lemma", {"kind": kind, "band": band}))
    for xa in (1, 2):
        cs.append(Case(f"read_sync_xa{xa}", "case_read_sync", {"xa": xa}))
    cs.append(Case("read_sync_xa1_floor_off", "case_read_sync", {"xa": 1, "floor": False}))
    return cs


def twins(tier):
    m = "spikeglx"
    rs = ["reader_3B2_sorted", "reader_NP2.4_sorted", "reader_3B2_symgain_sorted"]
    return [
        Twin("gain_not_permuted", m,
             "            csel = self.raw_channel_order[csel]\n        darray = self._raw[nsel, :].astype(np.float32, copy=True)[..., csel]\n        darray *= self.channel_conversion_sample2v[self.type][csel]",
             "            csel0, csel = csel, self.raw_channel_order[csel]\n        else:\n            csel0 = csel\n        darray = self._raw[nsel, :].astype(np.float32, copy=True)[..., csel]\n        darray *= self.channel_conversion_sample2v[self.type][csel0]", rs, 1),
        Twin("order_sorted_again", m, "                self.raw_channel_order[:order.size] = order", "                self.raw_channel_order[:order.size] = np.sort(order)", rs),
        Twin("sync_scaled", m, 'sy_gain = np.ones(int(meta_data["snsApLfSy"][-1]), dtype=np.float32)', 'sy_gain = np.ones(int(meta_data["snsApLfSy"][-1]), dtype=np.float32) * int2volt', rs),
        Twin("getitem_swaps_axes", m, "return self.read(nsel=item[0], csel=item[1], sync=False)", "return self.read(nsel=item[1], csel=item[0], sync=False)", rs),
        Twin("read_samples_off_by_one", m, "return self.read(slice(first_sample, last_sample), channels)", "return self.read(slice(first_sample, last_sample + 1), channels)", rs),
        Twin("float64_product", m, "self._raw[nsel, :].astype(np.float32, copy=True)[..., csel]", "self._raw[nsel, :].astype(np.float64, copy=True)[..., csel]", ["fp_lemma_3B2_ap", "fp_lemma_NP2.4_ap"]),
        Twin("analog_threshold_inverted", m, "analog[np.where(analog >= threshold)] = 1", "analog[np.where(analog >= threshold)] = 0", ["read_sync_xa1"]),
        Twin("percentile_not_removed", m, "analog -= np.percentile(analog, 10, axis=0)", "analog -= 0 * np.percentile(analog, 10, axis=0)", ["read_sync_xa1", "read_sync_xa2"]),
    ]


def replay(case, params, cex):
    m = cex["model"]
    if case.startswith("reader_"):
        kind, band = params["kind"], params.get("band", "ap")
        b = bounds(params["tier"])
        n, ns = b["sites"], b["ns"]
        sites = [(m.get(f"shank{i}", 0), m[f"col{i}"], m[f"row{i}"]) for i in range(n)]
        if params["sym_gain"]:
            gains = [(m[f"ap{i}"], m[f"lf{i}"]) for i in range(n)]
            raw = [[(7 + 13 * s + 101 * c) * (-1) ** (s + c) for c in range(n + 1)] for s in range(ns)]
        else:
            gains = [(500 + 37 * i, 250 + 11 * i) for i in range(n)]
            raw = [[m[f"w{s}_{c}"] for c in range(n + 1)] for s in range(ns)]
        return f"""
import sys, tempfile, pathlib, itertools
sys.path.insert(0, '/verif')
from symex import sglx
import spikeglx
kind, band, n, ns, sort, cbin = {kind!r}, {band!r}, {n}, {ns}, {params['sort']}, {params['cbin']}
sites, gains = {sites}, {gains}
raw = np.array({raw}, dtype=np.int16)
d = pathlib.Path(tempfile.mkdtemp())
txt = sglx.imec_meta_text(kind, sites, gains=gains, band=band, ns=format(ns / 30000.0, '.20f'), fs_hz='30000', file_size=raw.nbytes)
(d / f'x.imec.{{band}}.meta').write_text(txt)
raw.tofile(d / f'x.imec.{{band}}.bin')
sr = spikeglx.Reader(d / f'x.imec.{{band}}.bin', sort=sort)
if cbin:
    sr.compress_file(keep_original=False, chunk_duration=1e-4 * 2, n_threads=1, check_after_compress=False) if False else None
P = sglx.PROBE_TYPES[kind]
maxint = {{'3A': 512, '3B1': 512, '3B2': 512, 'NPultra': 512}}.get(kind, P['maxint'])
k = float(P['rng']) / maxint
fac = np.array([np.float32(k / (g[0] if band == 'ap' else g[1])) if (P['major'] == 1 or kind == 'NPultra') else np.float32(k / 80) for g in gains] + [np.float32(1)])
def key(i):
    s, c, r = sites[i]
    col = (2 - 2 * c + (r % 2)) if P['major'] == 1 else c
    return (s, r, -col, i)
order = (sorted(range(n), key=key) if sort else list(range(n))) + [n]
CAL = raw[:, order].astype(np.float32) * fac[order]
bad = []
def cmp(name, got, exp):
    got = np.asarray(got); exp = np.asarray(exp)
    if got.shape != exp.shape or not np.allclose(got, exp, rtol=2e-6, atol=0): bad.append((name, got.shape, exp.shape))
vals = [None] + list(range(-5, 6)); steps = [None, 1, 2, 3, -1, -2, -3]
_real_sr = sr
class _Guard:
    # indexing that records an exception as a finding instead of stopping the script
    def __getattr__(self, k): return getattr(_real_sr, k)
    def __getitem__(self, k):
        try: return _real_sr[k]
        except Exception as e:
            bad.append((f'sr[{{k!r}}] raised', repr(e))); return np.zeros(0)
sr = _Guard()
for a, b, c in itertools.product(vals, vals, steps):
    sl = slice(a, b, c)
    cmp(f'n{{sl}}', sr[sl], CAL[sl]); cmp(f'c{{sl}}', sr[:, sl], CAL[:, sl]); cmp(f'1c{{sl}}', sr[1, sl], CAL[1, sl])
for i in range(-ns, ns): cmp(f'n{{i}}', sr[i], CAL[i])
for j in range(-(n + 1), n + 1): cmp(f'c{{j}}', sr[:, j], CAL[:, j]); cmp(f'1c{{j}}', sr[1, j], CAL[1, j])
for J in ([0], [n, 0], [1, 1, 2], [-1, 0], [], np.array([2, 0]), np.array(([True, False, True, False] + [False] * n)[:n + 1]), ([False, True] + [False] * n)[:n + 1]):
    cmp(f'cl{{J}}', sr[:, J], CAL[:, J]); cmp(f'1cl{{J}}', sr[1, J], CAL[1, J])
for a in [None] + list(range(-1, ns + 1)):
    for b in list(range(-1, ns + 2)) + [None]:
        try: r = sr.read_samples(a, b)
        except Exception as e: bad.append((f'read_samples({{a}},{{b}})', repr(e))); continue
        cmp(f'read_samples({{a}},{{b}})', r[0] if isinstance(r, tuple) else r, CAL[a:b])
for I in ([0], [2, 0], [1, 1], [-1], [], [-2, -1], np.array([-3, -2, -1]), [0, 1, 2], [-1, 0]): cmp(f'nl{{I}}', sr[I, :], CAL[I, :]); cmp(f'nl1{{I}}', sr[I, 1], CAL[I, 1])
cmp('rs', sr.read_samples(0, 2)[0], CAL[0:2]); cmp('sync', sr[:, n], raw[:, n])
g = sr.geometry
for i in range(n):
    s, c, r = sites[order[i]]
    col = (2 - 2 * c + (r % 2)) if P['major'] == 1 else c
    if (g['shank'][i], g['row'][i], g['col'][i], g['ind'][i]) != (s, r, col, order[i]): bad.append(('geometry', i))
if list(sr.raw_channel_order) != order: bad.append(('order', list(sr.raw_channel_order), order))
if not np.allclose(sr.sample2volts, fac, rtol=1e-6): bad.append(('factor', sr.sample2volts.tolist(), fac.tolist()))
print(bad[:10])
if bad: reproduced(str(bad[:6]))
not_reproduced()
"""
    if case.startswith("fp_lemma"):
        return f"""
import sys, tempfile, pathlib
sys.path.insert(0, '/verif')
from symex import sglx
import spikeglx
kind, band = {params['kind']!r}, {params['band']!r}
raw = np.arange(-32768, 32768, dtype=np.int32).astype(np.int16)[:, None].repeat(3, axis=1)
d = pathlib.Path(tempfile.mkdtemp())
txt = sglx.imec_meta_text(kind, [(0, 0, 0), (0, 1, 0)], gains=[(500, 250), (125, 50)], band=band, ns=format(65536 / 30000.0, '.20f'), fs_hz='30000', file_size=raw.nbytes)
(d / 'x.imec.ap.meta').write_text(txt); raw.tofile(d / 'x.imec.ap.bin')
sr = spikeglx.Reader(d / 'x.imec.ap.bin', sort=False)
out = sr[:, :]
exp = raw.astype(np.float32) * sr.sample2volts.astype(np.float32)
print(out.dtype, sr.sample2volts.dtype)
if out.dtype != np.float32 or sr.sample2volts.dtype != np.float32 or not np.array_equal(out, exp): reproduced('reader value is not float32(raw) * float32 factor for some word')
not_reproduced()
"""
    if case.startswith("read_sync"):
        xa, ns = params["xa"], 3
        an = [[int(Fraction(str(m[f'a{s}_{c}']))) for c in range(xa)] for s in range(ns)]
        dg = [m[f"d{s}"] for s in range(ns)]
        return f"""
import sys, tempfile, pathlib
sys.path.insert(0, '/verif')
from symex import sglx
import spikeglx
xa, ns = {xa}, {ns}
an = np.array({an}, dtype=np.int16).reshape(ns, xa); dg = np.array({dg}, dtype=np.uint16).astype(np.int16)
raw = np.c_[an, dg].astype(np.int16)
d = pathlib.Path(tempfile.mkdtemp())
(d / 'x.nidq.meta').write_text(sglx.nidq_meta_text(0, 0, xa, 1, ns=format(ns / 30003.0003, '.20f'))); raw.tofile(d / 'x.nidq.bin')
sr = spikeglx.Reader(d / 'x.nidq.bin')
blk = sr[0:2, :]
exp32 = raw[0:2].astype(np.float32) * sr.sample2volts.astype(np.float32)
if blk.dtype != np.float32 or not np.array_equal(blk, exp32): reproduced(f'a read of a nidq file has dtype {{blk.dtype}} (float32(raw) x factor expected), largest difference {{float(np.max(np.abs(blk - exp32)))}}')
for first in (0, 1):
    out = sr.read_sync(slice(first, ns), threshold=1.2)
    v = an[first:].astype(np.float32) * np.float32(5.0 / 32768)
    v = v - np.percentile(v, 10, axis=0)
    exp = np.c_[np.array([[(int(x) & 0xffff) >> k & 1 for k in range(16)] for x in dg[first:]]), (v >= 1.2).astype(int)]
    print(out, exp, sep='\\n')
    if out.shape != exp.shape or not np.array_equal(out, exp): reproduced(f'read_sync(slice({{first}}, {{ns}})) differs from bits + thresholded analog (floor of that stretch)')
out = sr.read_sync(slice(0, ns), threshold=1.2, floor_percentile=False)
v = an.astype(np.float32) * np.float32(5.0 / 32768)
exp = np.c_[np.array([[(int(x) & 0xffff) >> k & 1 for k in range(16)] for x in dg]), (v >= 1.2).astype(int)]
if out.shape != exp.shape or not np.array_equal(out, exp): reproduced('read_sync(floor_percentile=False) differs from bits + thresholded raw voltage')
not_reproduced()
"""
    return None

# level text addendum (cases added after the seeded-change rounds)
LEVEL_TEXT = LEVEL_TEXT + ' Also: boolean masks and index arrays as channel selectors, read_samples for every pair of bounds (empty ones included), two read_sync calls on different stretches of one reader.'
LEVEL_TEXT = LEVEL_TEXT + ' Round 6: open-ended read_samples bounds (None), runs of consecutive negative / positive sample indices, read_sync with the floor removal switched off.'
LEVEL_TEXT = LEVEL_TEXT + ' Round 7: reads of a nidq file are float32 too; the replay records an exception of any selector as the finding.'
