"""
C18 - Spectral helpers equal their textbook definitions for every length (length/index level).
"""
import os
from fractions import Fraction

import numpy as np
import z3

from symex import arrays, core, larr, purity, stubs
from symex.core import SInt, SReal, UVal, all_, and_, implies, ite, mkbool, not_, or_
from symex.harness import Case, Twin
from symex.larr import LArr

PROPERTY = "C18"
FUNCTIONS = ["ibldsp.fourier.bp / _freq_filter", "ibldsp.fourier.ns_optim_fft", "ibldsp.fourier.convolve", "ibldsp.fourier.freduce", "ibldsp.fourier.fexpand",
             "ibldsp.fourier.fscale", "ibldsp.fourier._freq_vector", "ibldsp.utils.fcn_cosine", "ibldsp.utils._fcn_extrap"]
ASSUMPTIONS = [
    "irfft(rfft(a)*rfft(b)) is modelled as the circular convolution of period P = the length irfft actually returns (n if passed, else 2*(m-1)); "
    "exact only when P equals the padded length - the obligation 'irfft_length_equals_padded_size' guards exactly that, and a failure is replayed against np.convolve",
    "spectra X are opaque complex values with CONJ an uninterpreted involution; Hermitian symmetry X[n-k]=conj X[k] is assumed for the reduce/expand round trip",
    "np.cos is an uninterpreted function constrained by cos(0)=1, cos(pi)=-1, range [-1,1] and monotone decrease on [0,pi] instantiated on the terms of the path",
    "floats as exact reals",
    "band-pass: np.fft.fft is replaced by a probe returning a flat unit spectrum and np.fft.ifft by the identity, so that the real bp/_freq_filter "
    "returns the multiplier it applies per frequency bin (sampling interval symbolic in [1/64, 4], four concrete corner sets incl. overlapping transition bands, ns in {5,6,8,9}, axis 0 of a 2-D array and 1-D)",
]
OUTSIDE = ["dft/dft2 == FFT and lp(x)+hp(x)==x in the time domain (FFT numerics: not encodable)",
           "ns_optim_fft above 2^24 (the function's finite table)", "convolve with nsx+nsw above the stated bound"]
EXPLANATION = "lengths n, nsx, nsw are symbolic Ints; arrays are lazy (symbolic extents); one skolem index stands for every element."
LEVEL_TEXT = ("z3 decides, for EVERY length within the bounds: ns_optim_fft returns the least 2^a3^b >= ns (independent enumeration as oracle); "
              "fexpand(freduce(X),n)==X and freduce(fexpand(Y,n))==Y with the right lengths for both parities and both axes; fscale equals the DFT bin "
              "frequencies; convolve's padded size, irfft length, no-wrap-around condition, output length and 'same' crop offset; element-level "
              "equality with the direct sum for all small (nsx,nsw) pairs; lp+hp==1, bp=product, response 0/1 outside the corners, monotone in between.")
LEVEL_NOTE = "Trusted: z3 (LIA/NIA/EUF), the lazy-array model, the circular-convolution contract of the FFT stub (stated above)."

B_OPTIM = 1 << 24


def bounds(tier):
    if tier == "quick":
        return {"ns_optim_max": B_OPTIM, "n_max": 10 ** 7, "conv_len_max": 300, "conv_value_pairs": [(3, 2), (5, 4), (6, 3), (4, 4), (7, 2), (4, 1), (1, 3), (2, 5)]}
    return {"ns_optim_max": B_OPTIM, "n_max": 10 ** 7, "conv_len_max": 5000,
            "conv_value_pairs": [(a, b) for a in range(1, 13) for b in range(1, 7)] + [(20, 7), (13, 12), (25, 2), (40, 3), (24, 24)]}


class Spectrum:
    """result of the rfft stub"""
    __array_priority__ = 5000

    def __init__(self, parts, n):
        self.parts = parts   # list of (array, n) factors
        self.n = n
        m = n // 2 + 1
        self.m = m

    def __mul__(self, o):
        if isinstance(o, Spectrum):
            if not bool(core.eq(self.n, o.n)):
                raise ValueError("operands could not be broadcast together")
            return Spectrum(self.parts + o.parts, self.n)
        raise core.Unsupported("spectrum times non-spectrum")


_conv_trace = []


def _rfft(a, n=None, axis=-1, **k):
    if axis not in (-1, a.ndim - 1):
        raise core.Unsupported("rfft along a non-last axis")
    nn = a.shape[-1] if n is None else n
    return Spectrum([a], nn)


def _irfft(S, n=None, axis=-1, **k):
    if not isinstance(S, Spectrum):
        raise core.Unsupported("irfft of a non-stub spectrum")
    P = n if n is not None else 2 * (S.m - 1)
    _conv_trace.append({"n_in": S.n, "P": P})
    parts = S.parts
    if len(parts) != 2:
        raise core.Unsupported("irfft of something else than a product of two rffts")
    a, b = parts
    if isinstance(a, LArr) or isinstance(b, LArr):
        # opaque element values: index arithmetic only
        a = a if isinstance(a, LArr) else LArr.from_array(a)
        b = b if isinstance(b, LArr) else LArr.from_array(b)
        aid = larr.op_aid("circconv", a.aid, b.aid, P)
        f = core.ufun("CIRC", larr.ArrSort, z3.IntSort(), z3.RealSort())
        return LArr(tuple(a.shape[:-1]) + (P,), lambda *i: SReal(f(aid, larr._int_term(i[-1]))), aid=aid)
    # concrete sizes: exact circular convolution when P == n, otherwise unconstrained values
    A = np.asarray(arrays._plain(a), dtype=object)
    Bv = np.asarray(arrays._plain(b), dtype=object)
    Pn = int(P)
    if Pn == int(S.n):
        def circ(x, y):
            out = []
            for i in range(Pn):
                acc = 0
                for j in range(Pn):
                    acc = acc + x[j] * y[(i - j) % Pn]
                out.append(acc)
            return out
        if A.ndim == 1:
            return arrays.mk(circ(A.tolist(), Bv.tolist()))
        rows = [circ(A[r].tolist(), (Bv if Bv.ndim == 1 else Bv[r]).tolist()) for r in range(A.shape[0])]
        return arrays.mk([e for r in rows for e in r], shape=(A.shape[0], Pn))
    c = core.cur()
    shape = A.shape[:-1] + (Pn,)
    vals = [SReal(c.fresh_real("irfft_mismatch")) for _ in range(int(np.prod(shape)))]
    return arrays.mk(vals, shape=shape)


PROBE_SPECTRUM = False


def setup():
    import ibldsp.fourier as f
    import ibldsp.utils as u
    stubs.validate_convolve(int(os.environ.get("VERIF_SEED", "0") or 0))
    larr.patch_module(f)
    larr.patch_module(u)
    arrays.EXTRA_FUNCTIONS[np.fft.rfft] = _rfft
    arrays.EXTRA_FUNCTIONS[np.fft.irfft] = _irfft
    larr.FUNCTIONS[np.fft.rfft] = _rfft
    larr.FUNCTIONS[np.fft.irfft] = _irfft

    class _FFT:
        rfft = staticmethod(_rfft)
        irfft = staticmethod(_irfft)

        # probe used by case_bandpass: a flat unit spectrum in, identity out -> the filter returns the very multiplier
        # it applies to each frequency bin
        @staticmethod
        def fft(x, n=None, axis=-1, **kw):
            if not PROBE_SPECTRUM:
                raise core.Unsupported("np.fft.fft on symbolic data")
            shp = list(x.shape)
            if n is not None:
                shp[axis] = int(n)          # a transform length other than the signal's: the spectrum has that many bins
            return arrays.mk([1.0] * int(np.prod(shp)), shape=tuple(shp), tag=np.dtype(float))

        @staticmethod
        def ifft(x, axis=-1, **kw):
            if not PROBE_SPECTRUM:
                raise core.Unsupported("np.fft.ifft on symbolic data")
            return x

        def __getattr__(self, n):
            return getattr(np.fft, n)

    class _NP:
        fft = _FFT()

        def __getattr__(self, n):
            return getattr(larr.NPL, n)
    f.np = _NP()


# ------------------------------------------------------------------------- #
def _smooth_numbers(limit):
    out = set()
    a = 1
    while a <= limit:
        b = a
        while b <= limit:
            out.add(b)
            b *= 3
        a *= 2
    return sorted(out)


def case_ns_optim(ctx, lo, hi):
    import ibldsp.fourier as f
    ctx.ex.concretize_limit = 500
    ns = ctx.int("ns", lo, hi)
    r = ctx.call("ns_optim", f.ns_optim_fft, ns)
    S = _smooth_numbers(1 << 27)
    ctx.oblige("result_not_below_argument", r >= ns, detail={"r": r})
    ctx.oblige("result_is_2a3b", int(r) in set(S), detail={"r": r})
    ctx.oblige("result_is_least_2a3b", all_([not_(and_(ns <= s, s < r)) for s in S if s < int(r)]), detail={"r": r})


def case_fscale(ctx, one_sided, si_num, si_den):
    import ibldsp.fourier as f
    n = ctx.int("n", 1, 10 ** 7)
    si = Fraction(float(Fraction(si_num, si_den)))  # the double actually handed to fscale
    sc = ctx.call("fscale", f.fscale, n, si=float(si), one_sided=one_sided)
    half = n // 2
    if one_sided:
        ok = ctx.oblige("fscale_one_sided_length", core.eq(sc.shape[0], half + 1))
    else:
        ok = ctx.oblige("fscale_length", core.eq(sc.shape[0], n), detail={"len": sc.shape[0]})
    if not ok:
        return
    k = ctx.int("k", 0)
    ctx.assume(k < (half + 1 if one_sided else n))
    v = sc[k]
    expected_num = ite(k <= half, k, k - n)
    # v == expected_num / (n * si)   <=>   v * n * si == expected_num   (n, si > 0)
    ctx.oblige("fscale_is_dft_bin_frequency", core.eq(v * n * si, core._as_real(expected_num)), detail={"k": k, "v": v})


def _hermitian(ctx, X, n, idxs):
    conj = core.ufun("CONJ", core.USort, core.USort)
    v = z3.Const("v", core.USort)
    ctx.solver.add(z3.ForAll([v], conj(conj(v)) == v))
    for j in idxs:
        # X[n-j] == conj X[j] for 0 < j < n ; X[0] real
        ctx.assume(implies(and_(j > 0, j < n), core.eq(X(n - j), UVal(conj(X(j).t)))))
        ctx.assume(implies(core.eq(j, 0), core.eq(X(0), UVal(conj(X(0).t)))))
        ctx.assume(implies(core.eq(2 * j, n), core.eq(X(j), UVal(conj(X(j).t)))))


def case_reduce_expand(ctx, layout):
    import ibldsp.fourier as f
    n = ctx.int("n", 1, 10 ** 7)
    XF = core.ufun("X", z3.IntSort(), z3.IntSort(), core.USort)

    def X(k, r=0):
        return UVal(XF(larr._int_term(r), larr._int_term(k)))
    if layout == "1d":
        arr = LArr((n,), lambda k: X(k), aid=larr.const_aid("X1"))
        axis = None
    elif layout == "rows":
        arr = LArr((2, n), lambda r, k: X(k, r), aid=larr.const_aid("X2"))
        axis = None if ctx is None else -1
    else:
        arr = LArr((n, 2), lambda k, r: X(k, r), aid=larr.const_aid("X3"))
        axis = 0
    R = ctx.call("freduce", f.freduce, arr, axis=axis)
    ax = (arr.ndim - 1) if axis in (None, -1) else axis
    ok1 = ctx.oblige("freduce_length", core.eq(R.shape[ax], n // 2 + 1), detail={"len": R.shape[ax]})
    E = ctx.call("fexpand", f.fexpand, R, ns=n, axis=axis)
    ok2 = ctx.oblige("fexpand_length", core.eq(E.shape[ax], n), detail={"len": E.shape[ax]})
    if not (ok1 and ok2):
        return
    k = ctx.int("k", 0)
    ctx.assume(k < n)
    r = 0 if layout == "1d" else ctx.int("r", 0, 1)
    _hermitian(ctx, lambda j: X(j, r), n, [k, n - k])
    got = E[k] if layout == "1d" else (E[r, k] if layout == "rows" else E[k, r])
    ctx.oblige("expand_of_reduce_is_identity_on_hermitian_spectra", core.eq(got, X(k, r)), detail={"k": k})
    # other direction: freduce(fexpand(Y, n)) == Y
    m = n // 2 + 1
    YF = core.ufun("Y", z3.IntSort(), z3.IntSort(), core.USort)

    def Y(j, rr=0):
        return UVal(YF(larr._int_term(rr), larr._int_term(j)))
    if layout == "1d":
        yarr = LArr((m,), lambda j: Y(j), aid=larr.const_aid("Y1"))
    elif layout == "rows":
        yarr = LArr((2, m), lambda rr, j: Y(j, rr), aid=larr.const_aid("Y2"))
    else:
        yarr = LArr((m, 2), lambda j, rr: Y(j, rr), aid=larr.const_aid("Y3"))
    back = ctx.call("freduce_fexpand", lambda: f.freduce(f.fexpand(yarr, ns=n, axis=axis), axis=axis))
    if not ctx.oblige("reduce_of_expand_length", core.eq(back.shape[ax], m)):
        return
    j = ctx.int("j", 0)
    ctx.assume(j < m)
    gotb = back[j] if layout == "1d" else (back[r, j] if layout == "rows" else back[j, r])
    ctx.oblige("reduce_of_expand_is_identity", core.eq(gotb, Y(j, r)), detail={"j": j})


def case_convolve_lengths(ctx, mode, maxlen):
    import ibldsp.fourier as f
    ctx.ex.concretize_limit = 500
    nsx = ctx.int("nsx", 1, maxlen)
    nsw = ctx.int("nsw", 1, maxlen)
    ctx.assume(nsx + nsw <= maxlen)
    x = LArr((nsx,), lambda i: SReal(core.ufun("XS", z3.IntSort(), z3.RealSort())(larr._int_term(i))), aid=larr.const_aid("convx"), tag=np.dtype(float))
    w = LArr((nsw,), lambda i: SReal(core.ufun("WS", z3.IntSort(), z3.RealSort())(larr._int_term(i))), aid=larr.const_aid("convw"), tag=np.dtype(float))
    del _conv_trace[:]
    out = ctx.call("convolve", f.convolve, x, w, mode=mode)
    tr = _conv_trace[-1]
    ok = ctx.oblige("irfft_length_equals_padded_size", core.eq(tr["P"], tr["n_in"]), detail={"padded": tr["n_in"], "irfft_len": tr["P"]})
    ok &= ctx.oblige("padded_size_avoids_wraparound", tr["n_in"] >= nsx + nsw - 1, detail={"padded": tr["n_in"]})
    if mode == "full":
        ok &= ctx.oblige("full_length_is_nsx_plus_nsw", core.eq(out.shape[0], nsx + nsw), detail={"len": out.shape[0]})
        off = 0
        nout = nsx + nsw
    else:
        ok &= ctx.oblige("same_length_is_nsx", core.eq(out.shape[0], nsx), detail={"len": out.shape[0]})
        off = (nsw - 1) // 2
        nout = nsx
    if not ok:
        return
    i = ctx.int("i", 0)
    ctx.assume(i < nout)
    ctx.assume(i < out.shape[0])
    aidterm = None
    got = out[i]
    # the element must be the circular-convolution sample at i + off
    probe = _irfft_elem(x, w, tr, nsx, nsw, i + off)
    ctx.oblige("crop_offset_matches_numpy", core.eq(got, probe), detail={"i": i, "off": off})


def _irfft_elem(x, w, tr, nsx, nsw, j):
    """what the stub returns at index j for the zero-padded operands (rebuilt independently of fourier.convolve)"""
    ns = tr["n_in"]
    x_ = larr.concat([x, larr.constant((ns - nsx,), 0.0, tag=np.dtype(float))], 0)
    w_ = larr.concat([w, larr.constant((ns - nsw,), 0.0, tag=np.dtype(float))], 0)
    aid = larr.op_aid("circconv", x_.aid, w_.aid, tr["P"])
    f = core.ufun("CIRC", larr.ArrSort, z3.IntSort(), z3.RealSort())
    return SReal(f(aid, larr._int_term(j)))


class _IntSignal(arrays.SymArray):
    """a signal held as integers (raw samples, counts, masks): `dtype` answers int64"""

    @property
    def dtype(self):
        return np.dtype(np.int64)


class _IntAbscissae(arrays.SymArray):
    """sample / trace indices held as integers: dtype int64, values stored by truncation (NumPy's cast on assignment)"""

    @property
    def dtype(self):
        return np.dtype(np.int64)

    def __setitem__(self, key, value):
        v = value
        if isinstance(v, np.ndarray):
            pv = np.asarray(arrays._plain(v), dtype=object)
            c = np.empty(pv.shape, dtype=object)
            for pos in np.ndindex(*pv.shape):
                c[pos] = arrays.cast_scalar(arrays._num(pv[pos]), np.int64) if isinstance(pv[pos], core.Sym) else int(pv[pos])
            v = c
        elif isinstance(v, core.Sym):
            v = arrays.cast_scalar(v, np.int64)
        elif isinstance(v, float):
            v = int(v)
        np.ndarray.__setitem__(self.view(np.ndarray), key, v)


def case_taper_integer_abscissae(ctx, n):
    """fcn_cosine evaluated on integer indices (how the spatial filters build their tapers: fcn_cosine([0, ntr_tap])(np.arange(n)))
    gives the same soft threshold as on the same numbers held as floats"""
    import ibldsp.utils as u
    b0 = ctx.real("b0", 0, n - 1)
    b1 = ctx.real("b1", 0, n - 1)
    ctx.assume(b0 + 1 <= b1)
    xi = arrays.mk(list(range(n)), tag=np.dtype(np.int64)).view(_IntAbscissae)
    xf = arrays.mk([float(i) for i in range(n)], tag=np.dtype(float))
    yi = ctx.call("fcn_cosine_int", lambda: u.fcn_cosine([b0, b1])(xi))
    yf = ctx.call("fcn_cosine_float", lambda: u.fcn_cosine([b0, b1])(xf))
    if not ctx.oblige("taper_keeps_the_length", np.shape(yi) == (n,) and np.shape(yf) == (n,)):
        return
    A = np.asarray(arrays._plain(yi), dtype=object)
    B = np.asarray(arrays._plain(yf), dtype=object)
    for i in range(n):
        ctx.oblige("taper_on_integer_abscissae_equals_taper_on_floats", core.eq(A[i], B[i]), detail={"i": i, "int": A[i], "float": B[i]})


class _UIntAbscissae(_IntAbscissae):
    """indices held as unsigned 16-bit integers: subtracting an integer stays unsigned and wraps (NumPy's rule)"""

    @property
    def dtype(self):
        return np.dtype(np.uint16)

    def __sub__(self, other):
        if isinstance(other, (int, np.integer)) and not isinstance(other, bool):
            vals = [(int(e) - int(other)) % 65536 for e in self.view(np.ndarray).ravel().tolist()]
            return arrays.mk(vals, shape=self.shape, tag=np.dtype(np.uint16)).view(_UIntAbscissae)
        return arrays.SymArray.__sub__(self, other)


def case_taper_unsigned_abscissae(ctx, n, b0, b1):
    """fcn_cosine with integer bounds evaluated on UNSIGNED integer indices (channel / sample numbers are often stored that way):
    same soft threshold as on the same numbers held as floats - 0 below the first bound in particular"""
    import ibldsp.utils as u
    xi = arrays.mk(list(range(n)), tag=np.dtype(np.uint16)).view(_UIntAbscissae)
    xf = arrays.mk([float(i) for i in range(n)], tag=np.dtype(float))
    yi = ctx.call("fcn_cosine_uint", lambda: u.fcn_cosine([b0, b1])(xi))
    yf = ctx.call("fcn_cosine_float", lambda: u.fcn_cosine([b0, b1])(xf))
    if not ctx.oblige("taper_keeps_the_length", np.shape(yi) == (n,) and np.shape(yf) == (n,)):
        return
    A = np.asarray(arrays._plain(yi), dtype=object)
    B = np.asarray(arrays._plain(yf), dtype=object)
    for i in range(n):
        ctx.oblige("taper_on_unsigned_abscissae_equals_taper_on_floats", core.eq(A[i], B[i]), detail={"i": i, "uint": A[i], "float": B[i]})
        if i <= b0:
            ctx.oblige("taper_is_zero_up_to_the_first_bound", core.eq(A[i], 0), detail={"i": i, "got": A[i]})


def case_taper_infinite_abscissae(ctx):
    """the soft threshold is 0 below and 1 above its bounds for EVERY abscissa, infinite ones included (the f-k filter evaluates it on
    a velocity scale that is infinite where the wavenumber is zero)"""
    import ibldsp.utils as u
    b = [1.0, 2.0]
    x1 = ctx.real("x1", 0, 3)
    cosf = core.ufun("uf_cos", z3.RealSort(), z3.RealSort())
    a = (x1 - b[0]) / (b[1] - b[0]) * np.pi
    ctx.solver.add(z3.And(cosf(a.t) >= -1, cosf(a.t) <= 1))
    x = arrays.mk([float("-inf"), x1, float("inf")], tag=np.dtype(float))
    y = ctx.call("fcn_cosine", lambda: u.fcn_cosine(b)(x))
    if not ctx.oblige("taper_keeps_the_shape", np.shape(y) == (3,), detail={"shape": str(np.shape(y))}):
        return
    Y = np.asarray(arrays._plain(y), dtype=object).ravel().tolist()
    isnan = lambda v: bool(v != v) if not isinstance(v, core.Sym) else arrays.s_isnan(v)
    ctx.oblige("taper_is_zero_at_minus_infinity", and_(not_(isnan(Y[0])), core.eq(Y[0], 0)) if isinstance(Y[0], core.Sym) else (Y[0] == 0), detail={"got": Y[0]})
    ctx.oblige("taper_is_one_at_plus_infinity", and_(not_(isnan(Y[2])), core.eq(Y[2], 1)) if isinstance(Y[2], core.Sym) else (Y[2] == 1), detail={"got": Y[2]})


def case_taper_pointwise(ctx, two_d):
    """the cosine soft threshold is a point-wise function of the value: abscissae in any order (and on a 2-D grid, as the
    f-k filter passes them) get 0 below the first bound, 1 above the second and the same value as when evaluated alone"""
    import ibldsp.utils as u
    b = [1.0, 2.0]
    xs = [ctx.real(f"x{i}", 0, 3) for i in range(4)]
    x = arrays.mk(list(xs), shape=(2, 2) if two_d else (4,), tag=np.dtype(float))
    # what is known of the (uninterpreted) cosine on the arguments that occur: cos 0 = 1, cos pi = -1, values in [-1, 1]
    cosf = core.ufun("uf_cos", z3.RealSort(), z3.RealSort())
    pi = core._as_real(np.pi)
    for xi in xs:
        a = (xi - b[0]) / (b[1] - b[0]) * np.pi
        ctx.solver.add(z3.And(cosf(a.t) >= -1, cosf(a.t) <= 1), z3.Implies(a.t == 0, cosf(a.t) == 1), z3.Implies(a.t == pi.t, cosf(a.t) == -1))
    y = ctx.call("fcn_cosine", lambda: u.fcn_cosine(b)(x))
    if not ctx.oblige("taper_keeps_the_shape", np.shape(y) == np.shape(x), detail={"shape": str(np.shape(y))}):
        return
    Y = np.asarray(arrays._plain(y), dtype=object).ravel().tolist()
    for i in range(4):
        alone = ctx.call("fcn_cosine_alone", lambda: u.fcn_cosine(b)(arrays.mk([xs[i]], tag=np.dtype(float))))
        a0 = np.asarray(arrays._plain(alone), dtype=object).ravel().tolist()[0]
        ctx.oblige("taper_value_depends_only_on_the_abscissa", core.eq(Y[i], a0), detail={"i": i, "x": xs[i], "got": Y[i], "alone": a0})
        ctx.oblige("taper_is_zero_below_and_one_above_the_bounds", and_(implies(xs[i] <= b[0], core.eq(Y[i], 0)), implies(xs[i] >= b[1], core.eq(Y[i], 1))), detail={"i": i})


def case_convolve_values(ctx, nsx, nsw, mode, two_d, int_signal=False):
    import ibldsp.fourier as f
    xs = [ctx.real(f"x{i}") for i in range(nsx)] if not int_signal else [ctx.int(f"x{i}", -1000, 1000) for i in range(nsx)]
    ws = [ctx.real(f"w{i}") for i in range(nsw)]
    if two_d:
        xs2 = [ctx.real(f"y{i}") for i in range(nsx)]
        x = arrays.mk(xs + xs2, shape=(2, nsx), tag=np.dtype(float))
    elif int_signal:
        x = arrays.mk(xs, tag=np.dtype(np.int64)).view(_IntSignal)
    else:
        x = arrays.mk(xs, tag=np.dtype(float))
    w = arrays.mk(ws, tag=np.dtype(float))
    del _conv_trace[:]
    out = ctx.call("convolve", f.convolve, x, w, mode=mode)
    again = ctx.call("convolve", f.convolve, x, w, mode=mode)
    purity.oblige_same_result(ctx, "second_identical_call_gives_the_same_result", np.asarray(arrays._plain(out), dtype=object), np.asarray(arrays._plain(again), dtype=object))
    tr = _conv_trace[-1]
    ctx.oblige("irfft_length_equals_padded_size", int(tr["P"]) == int(tr["n_in"]), detail={"padded": int(tr["n_in"]), "irfft_len": int(tr["P"])})
    rows = [xs, xs2] if two_d else [xs]
    for r, row in enumerate(rows):
        direct = stubs.conv_full(row, ws)
        got = out[r] if two_d else out
        if mode == "full":
            ctx.oblige("full_length_is_nsx_plus_nsw", got.shape[0] == nsx + nsw)
            exp = direct + [0]
        else:
            ctx.oblige("same_length_is_nsx", got.shape[0] == nsx, detail={"len": got.shape[0]})
            st = (nsw - 1) // 2
            exp = direct[st:st + nsx]
        if got.shape[0] == len(exp):
            for i in range(len(exp)):
                ctx.oblige("equals_direct_convolution", core.eq(got[i], exp[i]), detail={"i": i, "row": r})


def case_filters(ctx, b0n, b1n):
    """frequency responses of the cosine-tapered filters on symbolic frequencies"""
    import ibldsp.fourier as f
    b0, b1 = b0n / 8.0, b1n / 8.0
    fr = [ctx.real("f1", 0, 2), ctx.real("f2", 0, 2)]
    ctx.assume(fr[0] <= fr[1])
    fv = arrays.mk(list(fr), tag=np.dtype(float))
    cosf = core.ufun("uf_cos", z3.RealSort(), z3.RealSort())
    hp = ctx.call("freq_vector", f._freq_vector, fv, [b0, b1], typ="hp")
    lp = ctx.call("freq_vector", f._freq_vector, arrays.mk(list(fr), tag=np.dtype(float)), [b0, b1], typ="lp")
    # axioms for cos instantiated on the two argument terms
    pi = core._as_real(np.pi)
    args = [((x - b0) / (b1 - b0) * np.pi) for x in fr]
    for a in args:
        ctx.solver.add(z3.And(cosf(a.t) >= -1, cosf(a.t) <= 1))
        ctx.solver.add(z3.Implies(a.t == 0, cosf(a.t) == 1))
        ctx.solver.add(z3.Implies(a.t == pi.t, cosf(a.t) == -1))
    a1, a2 = args
    ctx.solver.add(z3.Implies(z3.And(a1.t >= 0, a1.t <= a2.t, a2.t <= pi.t), cosf(a1.t) >= cosf(a2.t)))
    if not ctx.reachable():
        raise core.PathInfeasible()
    for i in range(2):
        ctx.oblige("lp_plus_hp_is_one", core.eq(hp[i] + lp[i], 1), detail={"i": i})
        ctx.oblige("response_in_unit_interval", and_(hp[i] >= 0, hp[i] <= 1), detail={"i": i, "hp": hp[i]})
        ctx.oblige("hp_zero_below_first_corner", implies(fr[i] <= b0, core.eq(hp[i], 0)), detail={"i": i})
        ctx.oblige("hp_one_above_second_corner", implies(fr[i] >= b1, core.eq(hp[i], 1)), detail={"i": i})
    ctx.oblige("hp_monotone", hp[0] <= hp[1], detail={"hp": [hp[0], hp[1]]})
    # band-pass response = product (real _freq_filter composes them; here the two factors it multiplies)
    c0, c1 = (b1 + 0.25), (b1 + 0.5)
    bp_hp = f._freq_vector(arrays.mk(list(fr), tag=np.dtype(float)), [b0, b1], typ="hp")
    ctx.oblige("bp_first_factor_is_hp", all_([core.eq(bp_hp[i], hp[i]) for i in range(2)]))


def case_bandpass(ctx, ns, corners, two_d, container="list"):
    """the multiplier the real band-pass applies to each frequency bin (read through a flat-spectrum FFT probe) is the
    product of the high-pass response at corners[0:2] and the low-pass response at corners[2:4], mirrored over the
    negative frequencies; sampling interval symbolic, corners concrete (including overlapping transition bands)"""
    global PROBE_SPECTRUM
    import ibldsp.fourier as f
    si = ctx.real("si", Fraction(1, 64), 4)
    PROBE_SPECTRUM = True
    try:
        ts = np.zeros((ns, 2)) if two_d else np.zeros(ns)
        b_arg = {"list": list(corners), "tuple": tuple(corners), "array": np.array(corners, dtype=float)}[container]     # the corners may come in any of these
        got = ctx.call("bp", f.bp, ts, si, b_arg, axis=0 if two_d else None)
    finally:
        PROBE_SPECTRUM = False
    if not ctx.oblige("bp_keeps_the_shape", tuple(got.shape) == tuple(ts.shape), detail={"shape": str(got.shape)}):
        return
    fsc = f.fscale(ns, si=si, one_sided=True)
    hp = f._freq_vector(fsc, list(corners[0:2]), typ="hp")
    lp = f._freq_vector(fsc, list(corners[2:4]), typ="lp")
    for k in range(ns):
        kk = k if k <= ns // 2 else ns - k
        exp = hp[kk] * lp[kk]
        for col in ((0, 1) if two_d else (None,)):
            g = got[k] if col is None else got[k, col]
            ctx.oblige("bandpass_multiplier_is_hp_times_lp", core.eq(g, exp), detail={"bin": k, "corners": list(corners), "got": g, "expected": exp})


def cases(tier):
    b = bounds(tier)
    cs = []
    for name, corners in (("overlap", (1, 4, 2, 6)), ("separate", (1, 2, 3, 4))) if tier == "quick" else (("overlap", (1, 4, 2, 6)), ("separate", (1, 2, 3, 4)), ("touching", (1, 3, 3, 5)), ("nested", (1, 8, 2, 4))):
        for ns, two_d in ((6, False), (5, True)) if tier == "quick" else ((6, False), (5, True), (9, False), (8, True)):
            cs.append(Case(f"bandpass_{name}_ns{ns}{'_2d' if two_d else ''}", "case_bandpass", {"ns": ns, "corners": list(corners), "two_d": two_d}, timeout_s=1500))
    for cont in ("tuple", "array"):
        cs.append(Case(f"bandpass_overlap_ns6_corners_as_{cont}", "case_bandpass", {"ns": 6, "corners": [1, 4, 2, 6], "two_d": False, "container": cont}, timeout_s=1500))
    # ns_optim in slices (each slice forks over the table entries it touches)
    edges = [1, 1000, 100000, 2000000, 14155776, B_OPTIM]
    for lo, hi in zip(edges[:-1], edges[1:]):
        cs.append(Case(f"ns_optim_{lo}_{hi}", "case_ns_optim", {"lo": lo if lo == 1 else lo + 1, "hi": hi}, timeout_s=900))
    for one in (False, True):
        for (sn, sd) in ((1, 1), (1, 30000)) if tier == "thorough" else ((1, 1),):
            cs.append(Case(f"fscale_{'one' if one else 'two'}sided_si{sn}_{sd}", "case_fscale", {"one_sided": one, "si_num": sn, "si_den": sd}))
    for lay in ("1d", "rows", "cols"):
        cs.append(Case(f"reduce_expand_{lay}", "case_reduce_expand", {"layout": lay}))
    for mode in ("full", "same"):
        cs.append(Case(f"convolve_lengths_{mode}", "case_convolve_lengths", {"mode": mode, "maxlen": b["conv_len_max"]}, timeout_s=1500))
    for (a, bb) in b["conv_value_pairs"]:
        for mode in ("full", "same"):
            cs.append(Case(f"convolve_values_{a}_{bb}_{mode}", "case_convolve_values", {"nsx": a, "nsw": bb, "mode": mode, "two_d": a <= 4}))
    # integer-typed signal with a real kernel: the result is the real-valued convolution, not its truncation
    for mode in ("full", "same"):
        cs.append(Case(f"convolve_values_int_signal_4_3_{mode}", "case_convolve_values", {"nsx": 4, "nsw": 3, "mode": mode, "two_d": False, "int_signal": True}))
    cs.append(Case("cosine_taper_pointwise_1d", "case_taper_pointwise", {"two_d": False}, timeout_s=900))
    cs.append(Case("cosine_taper_pointwise_2d", "case_taper_pointwise", {"two_d": True}, timeout_s=900))
    cs.append(Case("bandpass_overlap_ns13", "case_bandpass", {"ns": 13, "corners": [1, 4, 2, 6], "two_d": False}, timeout_s=1500))       # a length with a large prime factor
    cs.append(Case("cosine_taper_integer_abscissae", "case_taper_integer_abscissae", {"n": 6}))
    cs.append(Case("cosine_taper_infinite_abscissae", "case_taper_infinite_abscissae", {}))
    cs.append(Case("cosine_taper_unsigned_abscissae_2_5", "case_taper_unsigned_abscissae", {"n": 8, "b0": 2, "b1": 5}))
    for (p, q) in ((1, 2), (2, 5), (0, 3)) if tier == "thorough" else ((1, 2),):
        cs.append(Case(f"filters_{p}_{q}", "case_filters", {"b0n": p, "b1n": q}))
    return cs


def twins(tier):
    m = "ibldsp.fourier"
    return [
        Twin("same_crop_off_by_one", m, "first = int(gp.floor(nsw / 2)) - ((nsw + 1) % 2)", "first = int(gp.floor(nsw / 2))", ["convolve_lengths_same", "convolve_values_5_4_same"]),
        Twin("pad_too_short", m, "ns = ns_optim_fft(nsx + nsw)", "ns = ns_optim_fft(max(nsx, nsw))", ["convolve_lengths_full", "convolve_values_5_4_full"]),
        Twin("fexpand_ilast", m, "ilast = int((ns + (ns % 2)) / 2)", "ilast = int((ns + 2 + (ns % 2)) / 2)", ["reduce_expand_1d"]),
        Twin("fexpand_no_conj", m, "xcomp = np.conj(np.flip(np.take(x, np.arange(1, ilast), axis=axis), axis=axis))", "xcomp = np.flip(np.take(x, np.arange(1, ilast), axis=axis), axis=axis)", ["reduce_expand_1d"]),
        Twin("fscale_parity", m, "-fsc[slice(-2 + (ns % 2), 0, -1)]", "-fsc[slice(-1, 0, -1)]", ["fscale_twosided_si1_1"]),
        Twin("freduce_len", m, "siz[axis] = int(np.floor(siz[axis] / 2 + 1))", "siz[axis] = int(np.floor((siz[axis] + 1) / 2))", ["reduce_expand_1d"]),
        Twin("optim_searchsorted_right", m, "return sz[np.searchsorted(sz, ns)]", "return sz[np.searchsorted(sz, ns, side='right')]", ["ns_optim_1_1000"]),
        Twin("bp_uses_hp_twice", m, '_freq_vector(f, b[0:2], typ="hp") * _freq_vector(f, b[2:4], typ="lp")', '_freq_vector(f, b[0:2], typ="hp") * _freq_vector(f, b[2:4], typ="hp")', ["bandpass_separate_ns6"]),
        Twin("bp_difference_of_highpasses", m, '_freq_vector(f, b[0:2], typ="hp") * _freq_vector(f, b[2:4], typ="lp")', '_freq_vector(f, b[0:2], typ="hp") - _freq_vector(f, b[2:4], typ="hp")', ["bandpass_overlap_ns6"]),
        Twin("lp_is_hp", m, "        return 1 - filc", "        return filc", ["filters_1_2"]),
    ]


def replay(case, params, cex):
    m = cex["model"]
    ob = cex["obligation"]
    if case.startswith("bandpass"):
        ns, corners, two_d = params["ns"], params["corners"], params["two_d"]
        return f"""
import ibldsp.fourier as f
from fractions import Fraction
ns, corners, si = {ns}, {corners}, float(Fraction({str(m['si'])!r}))
x = np.zeros(({ns}, 2)) if {two_d} else np.zeros(ns)
x[0] = 1                                   # unit impulse: flat unit spectrum
y = f.bp(x, si, corners, axis=0 if {two_d} else None)
mult = np.fft.fft(y, axis=0).real
fsc = f.fscale(ns, si=si, one_sided=True)
exp1 = f._freq_vector(fsc, corners[0:2], typ='hp') * f._freq_vector(fsc, corners[2:4], typ='lp')
exp = np.array([exp1[k if k <= ns // 2 else ns - k] for k in range(ns)])
if {two_d}: exp = exp[:, None] * np.ones((1, 2))
print(si, mult, exp)
if mult.shape != exp.shape or not np.allclose(mult, exp, atol=1e-9): reproduced(f'band-pass gain differs from hp x lp: got {{mult.ravel().tolist()}} expected {{exp.ravel().tolist()}}')
not_reproduced()
"""
    if case.startswith("ns_optim"):
        return f"""
import ibldsp.fourier as f
ns = {m['ns']}
S = sorted({{2 ** a * 3 ** b for a in range(28) for b in range(18)}})
exp = min(s for s in S if s >= ns)
try:
    r = int(f.ns_optim_fft(ns))
except Exception as e:
    reproduced(f'ns_optim_fft({{ns}}) raised {{e!r}}')
print(ns, r, exp)
if r != exp: reproduced(f'ns_optim_fft({{ns}}) = {{r}}, least 2^a3^b >= ns is {{exp}}')
not_reproduced()
"""
    if case.startswith("fscale"):
        si = Fraction(params["si_num"], params["si_den"])
        return f"""
import ibldsp.fourier as f
n, si, one = {m['n']}, {float(si)!r}, {params['one_sided']}
if n > 2000000: not_reproduced('too large to replay')
sc = f.fscale(n, si=si, one_sided=one)
ref = np.fft.fftfreq(n, si)
if n % 2 == 0: ref[n // 2] = -ref[n // 2]
ref = ref[: n // 2 + 1] if one else ref
print(n, sc[:6], ref[:6], sc.shape, ref.shape)
if sc.shape != ref.shape or not np.allclose(sc, ref, rtol=1e-9, atol=0): reproduced(f'fscale({{n}}) differs from the DFT bin frequencies')
not_reproduced()
"""
    if case.startswith("reduce_expand"):
        return f"""
import ibldsp.fourier as f
n = {m['n']}
if n > 2000000: not_reproduced('too large to replay')
rng = np.random.default_rng(0)
x = rng.normal(size=n)
layout = {params['layout']!r}
if layout == '1d':
    X = np.fft.fft(x); R = f.freduce(X); E = f.fexpand(R, ns=n); Y = rng.normal(size=n // 2 + 1) + 1j * rng.normal(size=n // 2 + 1); Bk = f.freduce(f.fexpand(Y, ns=n))
elif layout == 'rows':
    X = np.fft.fft(np.vstack([x, x[::-1]]), axis=-1); R = f.freduce(X, axis=-1); E = f.fexpand(R, ns=n, axis=-1); Y = X[:, : n // 2 + 1] * 1j; Bk = f.freduce(f.fexpand(Y, ns=n, axis=-1), axis=-1)
else:
    X = np.fft.fft(np.vstack([x, x[::-1]]).T, axis=0); R = f.freduce(X, axis=0); E = f.fexpand(R, ns=n, axis=0); Y = X[: n // 2 + 1, :] * 1j; Bk = f.freduce(f.fexpand(Y, ns=n, axis=0), axis=0)
print(X.shape, R.shape, E.shape)
if E.shape != X.shape or not np.allclose(E, X): reproduced(f'fexpand(freduce(X), {{n}}) != X')
if Bk.shape != Y.shape or not np.allclose(Bk, Y): reproduced(f'freduce(fexpand(Y, {{n}})) != Y')
not_reproduced()
"""
    if case.startswith("cosine_taper_pointwise"):
        xs = [float(Fraction(str(m.get(f"x{i}", 0)))) for i in range(4)]
        return f"""
import ibldsp.utils as u
b = [1.0, 2.0]; x = np.array({xs}).reshape({(2, 2) if params['two_d'] else (4,)})
try:
    y = u.fcn_cosine(b)(x.copy())
except Exception as e:
    reproduced(f'fcn_cosine({{b}}) raised {{type(e).__name__}}: {{e}} on abscissae {{x.tolist()}}')
alone = np.array([u.fcn_cosine(b)(np.array([v]))[0] for v in x.ravel()]).reshape(x.shape)
print(x, y, alone)
if np.shape(y) != x.shape or not np.allclose(y, alone, atol=1e-12): reproduced(f'fcn_cosine({{b}}) on {{x.tolist()}} gives {{np.asarray(y).tolist()}}, evaluated value by value {{alone.tolist()}}')
not_reproduced()
"""
    if case.startswith("cosine_taper_infinite"):
        return f"""
import ibldsp.utils as u, warnings
warnings.simplefilter('ignore')
x1 = float(Fraction({str(m.get('x1', 0))!r}))
with np.errstate(all='ignore'):
    y = u.fcn_cosine([1.0, 2.0])(np.array([-np.inf, x1, np.inf]))
print(y)
if np.shape(y) != (3,) or not (y[0] == 0 and y[2] == 1): reproduced(f'fcn_cosine([1, 2]) at -inf / +inf gives {{y[0]}} / {{y[2]}} instead of 0 / 1')
not_reproduced()
"""
    if case.startswith("cosine_taper_unsigned"):
        return f"""
import ibldsp.utils as u
n, b = {params['n']}, [{params['b0']}, {params['b1']}]
yf = u.fcn_cosine(b)(np.arange(n, dtype=float))
for dt in (np.uint16, np.uint32, np.uint64, np.uint8):
    yi = u.fcn_cosine(b)(np.arange(n, dtype=dt))
    print(dt.__name__, yi, yf)
    if np.shape(yi) != np.shape(yf) or not np.allclose(np.asarray(yi, dtype=float), yf, atol=1e-12): reproduced(f'fcn_cosine({{b}}) on {{dt.__name__}} indices gives {{np.asarray(yi).tolist()}}, on the same numbers as floats {{yf.tolist()}}')
not_reproduced()
"""
    if case.startswith("cosine_taper_integer"):
        n = params["n"]
        b0, b1 = float(Fraction(str(m["b0"]))), float(Fraction(str(m["b1"])))
        return f"""
import ibldsp.utils as u
n, b = {n}, [{b0!r}, {b1!r}]
yi = u.fcn_cosine(b)(np.arange(n)); yf = u.fcn_cosine(b)(np.arange(n, dtype=float))
print(yi, yf)
if np.shape(yi) != np.shape(yf) or not np.allclose(np.asarray(yi, dtype=float), yf, atol=1e-12): reproduced(f'fcn_cosine({{b}}) on integer indices gives {{np.asarray(yi).tolist()}}, on the same numbers as floats {{yf.tolist()}}')
not_reproduced()
"""
    if case.startswith("convolve_values_int_signal"):
        nsx, nsw, mode = params["nsx"], params["nsw"], params["mode"]
        xs = [int(str(m[f"x{i}"])) for i in range(nsx)]
        ws = [float(Fraction(str(m[f"w{i}"]))) for i in range(nsw)]
        return f"""
import ibldsp.fourier as f
x = np.array({xs}, dtype=np.int64); w = np.array({ws}); mode = {mode!r}
c = f.convolve(x, w, mode=mode)
ref = np.convolve(x.astype(float), w) if mode == 'full' else np.convolve(x.astype(float), w, mode='same')
got = c[:-1] if mode == 'full' else c
print(x, w, got, ref)
if got.shape != ref.shape or not np.allclose(got, ref, atol=1e-9): reproduced(f'FFT convolution of an integer signal {{x.tolist()}} with {{w.tolist()}} gives {{np.asarray(got).tolist()}}, direct convolution {{ref.tolist()}}')
not_reproduced()
"""
    if case.startswith("convolve"):
        if case.startswith("convolve_lengths"):
            nsx, nsw, mode = m["nsx"], m["nsw"], params["mode"]
        else:
            nsx, nsw, mode = params["nsx"], params["nsw"], params["mode"]
        return f"""
import ibldsp.fourier as f
nsx, nsw, mode = {nsx}, {nsw}, {mode!r}
rng = np.random.default_rng(1)
x = rng.normal(size=nsx); w = rng.normal(size=nsw)
c = f.convolve(x, w, mode=mode)
ref = np.convolve(x, w) if mode == 'full' else np.convolve(x, w, mode='same')
if mode == 'same' and nsw > nsx:
    full = np.convolve(x, w); st = (nsw - 1) // 2; ref = full[st:st + nsx]
got = c[:-1] if mode == 'full' else c
print(nsx, nsw, mode, 'padded', f.ns_optim_fft(nsx + nsw), c.shape, ref.shape)
if mode == 'full' and c.shape[-1] != nsx + nsw: reproduced('full output length is not nsx+nsw')
if got.shape != ref.shape or not np.allclose(got, ref, atol=1e-9): reproduced(f'FFT convolution differs from direct convolution for nsx={{nsx}} nsw={{nsw}} mode={{mode}} (max err {{np.max(np.abs(got[:min(len(got),len(ref))]-ref[:min(len(got),len(ref))])) if len(got) and len(ref) else "shape"}})')
not_reproduced()
"""
    if case.startswith("filters"):
        b0, b1 = params["b0n"] / 8.0, params["b1n"] / 8.0
        return f"""
import ibldsp.fourier as f
fr = np.linspace(0, 2, 2001); b = [{b0!r}, {b1!r}]
hp = f._freq_vector(fr.copy(), b, typ='hp'); lp = f._freq_vector(fr.copy(), b, typ='lp')
bad = []
if not np.allclose(hp + lp, 1): bad.append('lp+hp')
if hp.min() < -1e-12 or hp.max() > 1 + 1e-12: bad.append('range')
if np.any(np.diff(hp) < -1e-12): bad.append('monotone')
if np.any(hp[fr <= b[0]] != 0) or np.any(np.abs(hp[fr >= b[1]] - 1) > 1e-12): bad.append('corners')
print(bad)
if bad: reproduced(str(bad))
not_reproduced()
"""
    return None

# level text addendum (cases added after the seeded-change rounds)
LEVEL_TEXT = LEVEL_TEXT + ' Also: the band-pass multiplier per bin read through a flat-spectrum FFT probe (overlapping tapers, prime lengths, corners as list/tuple/array), integer-typed signals and abscissae, the taper as a point-wise function (any order, 2-D).'
LEVEL_TEXT = LEVEL_TEXT + ' Round 6: unsigned integer abscissae with integer bounds (subtraction wraps as in NumPy).'
LEVEL_TEXT = LEVEL_TEXT + ' Round 7: infinite abscissae of the cosine taper.'
