"""
C16 - Saturation flags follow the proportion rule and the mute gain covers them.
Real ibldsp.voltage.saturation executed on symbolic reals.
"""
import os
from fractions import Fraction

import numpy as np
import z3

from symex import arrays, core, stubs
from symex.core import all_, and_, any_, implies, not_, or_
from symex.harness import Case, Twin

PROPERTY = "C16"
FUNCTIONS = ["ibldsp.voltage.saturation"]
ASSUMPTIONS = [
    "proportion lemma: the real saturation() runs on an abstract array of nc x 1 samples of which only the number k of channels beyond the range is known (nc, k 16-bit symbolic, exact in float64); "
    "np.mean / np.count_nonzero over the channels return k/nc (IEEE division) / k; proportion = the double nearest to a/100, a in 1..99; the flag is compared with the integer statement 100 k > a nc by cvc5 (QF_BVFP)",
    "floats as exact reals; 0.98 is the exact value of the double constant; fs and the slew limit positive",
    "scipy.signal.convolve(flags, win, 'same') = textbook convolution with SciPy's centring (validated against real SciPy on random 0/1 vectors on every run); the cosine window values are real SciPy's",
    "a channel whose slew equals the limit exactly is a don't-care (statement: 'exceed', code: '>='): flag must lie between the strict and the non-strict reading",
]
OUTSIDE = ["arrays larger than the stated nc x ns bound (the counting rule is what is checked, not 400 instantiated channels)", "even taper widths"]
EXPLANATION = "one path per case: all comparisons stay symbolic (ITE), the solver decides the flag/mute laws for every real-valued array of the stated shape."
LEVEL_TEXT = ("For every real array of shape nc x ns within the bound, every positive range (scalar or per-channel), proportion in (0,1) and slew limit, "
              "z3 decides: flag[t] <=> proportion rule; 0<=mute<=1; flag => mute==0; no flag within the taper half-width => mute==1; mute is the stated function of the flags only.")
LEVEL_NOTE = "Trusted: z3 (linear/non-linear real arithmetic), the element-wise SymArray model, the convolution stub."


def bounds(tier):
    if tier == "quick":
        return {"shapes": [(2, 3), (3, 3)], "windows": [3, 5]}
    return {"shapes": [(1, 4), (2, 4), (3, 5), (4, 4), (5, 3), (6, 4), (4, 6), (8, 3), (6, 6), (10, 3), (12, 2), (5, 8)], "windows": [3, 5, 7, 9]}


def setup():
    import ibldsp.voltage as v
    stubs.validate_convolve(int(os.environ.get("VERIF_SEED", "0") or 0))
    arrays.patch_module(v, scipy=stubs.scipy_facade())


def case_saturation(ctx, nc, ns, win, per_channel, sym_fs, as_list=False, positional=False):
    import ibldsp.voltage as v
    import scipy.signal
    d = [[ctx.real(f"d{c}_{t}", -10, 10) for t in range(ns)] for c in range(nc)]
    data = arrays.mk([e for r in d for e in r], shape=(nc, ns), tag=np.dtype(np.float32))
    if per_channel:
        V = [ctx.real(f"V{c}", Fraction(1, 100), 10) for c in range(nc)]
        maxv = arrays.mk(list(V), tag=np.dtype(np.float64))        # e.g. the reader's range_volts, hoisted out of a batch loop by the caller
        if as_list:
            maxv = list(V)                                           # per-channel ranges given as a plain Python list
    else:
        V0 = ctx.real("V", Fraction(1, 100), 10)
        V = [V0] * nc
        maxv = V0
    p = ctx.real("proportion")
    ctx.assume(and_(p > 0, p < 1))
    s = ctx.real("v_per_sec")
    ctx.assume(s > 0)
    fs = ctx.real("fs", 1, 10 ** 6) if sym_fs else 30000
    if positional:
        # the documented order of the arguments: data, max_voltage, v_per_sec, fs, proportion, mute_window_samples
        flags, mute = ctx.call("saturation", v.saturation, data, maxv, s, fs, p, win)
    else:
        flags, mute = ctx.call("saturation", v.saturation, data, maxv, v_per_sec=s, fs=fs, proportion=p, mute_window_samples=win)
    if per_channel:
        again, _ = v.saturation(data, maxv, v_per_sec=s, fs=fs, proportion=p, mute_window_samples=win)
        ctx.oblige("second_identical_call_gives_the_same_flags", tuple(again.shape) == tuple(flags.shape) and all_([core.eq(again[t], flags[t]) for t in range(ns)]) if tuple(again.shape) == tuple(flags.shape) else False)
    ctx.oblige("flag_length", flags.shape == (ns,))
    ctx.oblige("mute_length", mute.shape == (ns,))
    k98 = 0.98  # same double constant as the statement's 98 %
    w = scipy.signal.windows.cosine(win)
    h = win // 2
    F = []
    for t in range(ns):
        n_over = sum([(abs(d[c][t]) > V[c] * k98).num() if isinstance(abs(d[c][t]) > V[c] * k98, core.SBool) else int(abs(d[c][t]) > V[c] * k98) for c in range(nc)])
        rule_v = n_over > p * nc
        if t < ns - 1:
            n_slew_ge = sum([_n(abs(d[c][t + 1] - d[c][t]) >= s * fs) for c in range(nc)])
            n_slew_gt = sum([_n(abs(d[c][t + 1] - d[c][t]) > s * fs) for c in range(nc)])
            upper = or_(rule_v, n_slew_ge > p * nc)
            lower = or_(rule_v, n_slew_gt > p * nc)
        else:
            upper = lower = rule_v
        f = flags[t]
        F.append(f)
        ctx.oblige("flag_implies_rule", implies(f, upper), detail={"t": t})
        ctx.oblige("rule_implies_flag", implies(lower, f), detail={"t": t})
    for t in range(ns):
        m = mute[t]
        ctx.oblige("mute_in_unit_interval", and_(m >= 0, m <= 1), detail={"t": t})
        ctx.oblige("flag_implies_mute_zero", implies(F[t], core.eq(m, 0)), detail={"t": t})
        near = any_([F[j] for j in range(max(0, t - h), min(ns, t + h + 1))])
        ctx.oblige("far_from_flags_mute_is_one", implies(not_(near), core.eq(m, 1)), detail={"t": t})
        acc = 0
        for j in range(ns):
            k = t - j + (win - 1) // 2          # centring of a 'same' convolution (for odd windows this is the half-width)
            if 0 <= k < win:
                acc = acc + _n(F[j]) * float(w[k])
        expect = core.ite(F[t], 0, core.ite(1 - acc >= 0, 1 - acc, 0))
        ctx.oblige("mute_is_function_of_flags_only", core.eq(m, expect), detail={"t": t})


def case_saturation_long(ctx, ns, at):
    """a long array (several thousand samples, silent except around sample `at`): the slew criterion between samples at-1 -> at is
    applied wherever the pair lies (block-wise implementations must not lose the pair that straddles two blocks)"""
    import ibldsp.voltage as v
    nc = 2
    p = ctx.real("proportion")
    ctx.assume(and_(p > 0, p < 1))
    s = ctx.real("v_per_sec")
    ctx.assume(s > 0)
    fs = 30000
    sym = {(c, t): ctx.real(f"d{c}_{t}", -1, 1) for c in range(nc) for t in (at - 1, at)}
    flat = [sym.get((c, t), 0.0) for c in range(nc) for t in range(ns)]
    data = arrays.mk(flat, shape=(nc, ns), tag=np.dtype(np.float32))
    flags, mute = ctx.call("saturation", v.saturation, data, 10.0, v_per_sec=s, fs=fs, proportion=p, mute_window_samples=3)
    if not ctx.oblige("flag_length", tuple(flags.shape) == (ns,), detail={"shape": str(flags.shape)}):
        return
    val = lambda c, t: sym.get((c, t), 0.0)
    for t in (at - 2, at - 1, at):
        n_ge = sum([_n(abs(val(c, t + 1) - val(c, t)) >= s * fs) for c in range(nc)])
        n_gt = sum([_n(abs(val(c, t + 1) - val(c, t)) > s * fs) for c in range(nc)])
        ctx.oblige("flag_implies_rule", implies(flags[t], n_ge > p * nc), detail={"t": t})
        ctx.oblige("rule_implies_flag", implies(n_gt > p * nc, flags[t]), detail={"t": t})


def case_saturation_missing_samples(ctx, nc, ns):
    """some samples are missing (NaN, e.g. padded channels): a missing sample is not 'beyond the range', and the proportion is still
    taken over ALL channels"""
    import ibldsp.voltage as v
    vals = [[ctx.real(f"d{c}_{t}", -10, 10) for t in range(ns)] for c in range(nc)]
    miss = [[ctx.bool(f"m{c}_{t}") for t in range(ns)] for c in range(nc)]
    d = [[core.SReal(vals[c][t].t, nan=miss[c][t].t) for t in range(ns)] for c in range(nc)]
    data = arrays.mk([e for r in d for e in r], shape=(nc, ns), tag=np.dtype(np.float32))
    V0 = ctx.real("V", Fraction(1, 100), 10)
    p = ctx.real("proportion")
    ctx.assume(and_(p > 0, p < 1))
    flags, mute = ctx.call("saturation", v.saturation, data, V0, v_per_sec=1e9, fs=30000, proportion=p, mute_window_samples=3)      # slew limit out of reach
    if not ctx.oblige("flag_length", tuple(flags.shape) == (ns,)):
        return
    k98 = 0.98
    for t in range(ns):
        n_over = sum([_n(and_(not_(miss[c][t]), abs(vals[c][t]) > V0 * k98)) for c in range(nc)])
        ctx.oblige("missing_samples_do_not_change_the_denominator", core.eq(flags[t], n_over > p * nc), detail={"t": t})


class _ApproxConvolve:
    """scipy.signal.convolve under its documented contract only: method='auto' may pick the FFT method (it does for long inputs),
    whose result equals the exact sums up to rounding noise - here: exact + an unknown error of at most 1e-9 per sample"""

    def __init__(self, ctx):
        self.ctx = ctx
        self.k = 0

    def __call__(self, a, b, mode="full", method="auto"):
        exact = stubs.signal_convolve(a, b, mode=mode)
        out = []
        for e in np.asarray(arrays._plain(exact), dtype=object).ravel().tolist():
            err = self.ctx.real(f"conv_err{self.k}", Fraction(-1, 10 ** 9), Fraction(1, 10 ** 9))
            self.k += 1
            out.append(e + err)
        return arrays.mk(out, shape=np.shape(exact), tag=np.dtype(float))


def case_saturation_fft_convolution(ctx, nc, ns, win):
    """the mute gain is EXACTLY 0 on flagged samples whichever method scipy.signal.convolve picks (FFT for long arrays: rounding noise)"""
    import ibldsp.voltage as v
    d = [[ctx.real(f"d{c}_{t}", -10, 10) for t in range(ns)] for c in range(nc)]
    data = arrays.mk([e for r in d for e in r], shape=(nc, ns), tag=np.dtype(np.float32))
    V0 = ctx.real("V", Fraction(1, 100), 10)
    p = ctx.real("proportion")
    ctx.assume(and_(p > 0, p < 1))
    saved = v.scipy
    import scipy as _sp
    v.scipy = stubs.Namespace(_sp, signal=stubs.Namespace(_sp.signal, convolve=_ApproxConvolve(ctx)))
    try:
        flags, mute = ctx.call("saturation", v.saturation, data, V0, v_per_sec=1e9, fs=30000, proportion=p, mute_window_samples=win)
    finally:
        v.scipy = saved
    for t in range(ns):
        ctx.oblige("flag_implies_mute_exactly_zero_whatever_the_convolution_method", implies(flags[t], core.eq(mute[t], 0)), detail={"t": t, "mute": mute[t]})
        ctx.oblige("mute_not_negative", mute[t] >= 0, detail={"t": t})


# ------------------------------------------------------------------------------------------------ IEEE lemma for the proportion test
class _CountMask:
    """a (nc, ns) boolean matrix of which only the number of True per sample is known: k of nc at the single sample"""
    ndim = 2

    def __init__(self, k_fp, nc_fp, ns):
        self.k, self.nc, self.ns = k_fp, nc_fp, ns
        self.shape = (nc_fp, ns)

    def __array_function__(self, func, types, args, kwargs):
        axis = kwargs.get("axis", args[1] if len(args) > 1 else None)
        if axis != 0:
            raise core.Unsupported("count mask: only reductions over the channels")
        if func is np.mean:
            return arrays.mk([self.k / self.nc for _ in range(self.ns)], tag=np.dtype(float))
        if func in (np.count_nonzero, np.sum):
            return arrays.mk([self.k for _ in range(self.ns)], tag=np.dtype(float))
        raise core.Unsupported(f"count mask: numpy.{func.__name__}")

    def mean(self, axis=None, **kw):
        return self.__array_function__(np.mean, (), (self,), {"axis": axis})

    def sum(self, axis=None, **kw):
        return self.__array_function__(np.sum, (), (self,), {"axis": axis})


class _CountedData:
    """|data| of nc channels at ONE sample, k of them beyond the range limit; nc and k are symbolic (exact in float64)"""
    ndim = 2

    def __init__(self, k_fp, nc_fp):
        self.k, self.nc = k_fp, nc_fp
        self.shape = (nc_fp, 1)

    def __array_ufunc__(self, ufunc, method, *inputs, **kw):
        if method != "__call__":
            raise core.Unsupported("counted data: ufunc method")
        if ufunc is np.absolute:
            return self
        if ufunc in (np.greater, np.greater_equal) and inputs[0] is self:
            return _CountMask(self.k, self.nc, 1)
        if ufunc in (np.true_divide, np.multiply) and inputs[0] is self:
            return self
        raise core.Unsupported(f"counted data: ufunc {ufunc.__name__}")

    def __abs__(self):
        return self

    def __gt__(self, o):
        return _CountMask(self.k, self.nc, 1)

    def __array_function__(self, func, types, args, kwargs):
        if func is np.diff:          # a single sample has no "next sample": the slew matrix is empty
            return _CountedData0(self.nc)
        if func is np.roll:
            return self
        raise core.Unsupported(f"counted data: numpy.{func.__name__}")


class _CountedData0(_CountedData):
    def __init__(self, nc_fp):
        self.k, self.nc = None, nc_fp
        self.shape = (nc_fp, 0)

    def __array_ufunc__(self, ufunc, method, *inputs, **kw):
        if ufunc in (np.greater, np.greater_equal) and inputs[0] is self:
            return _CountMask(None, self.nc, 0)
        return self

    def __ge__(self, o):
        return _CountMask(None, self.nc, 0)

    def __gt__(self, o):
        return _CountMask(None, self.nc, 0)

    def __truediv__(self, o):
        return self


def case_proportion_ieee(ctx, max_nc):
    """in IEEE double arithmetic (cvc5): with nc channels of which k exceed the range at a sample and the proportion written as the decimal
    a/100, the sample is flagged exactly when 100 k > a nc - for every nc <= max_nc, 0 <= k <= nc, 1 <= a <= 99"""
    from symex import fp
    import ibldsp.voltage as v
    W = 16
    k, nc, a = z3.BitVec("k", W), z3.BitVec("nc", W), z3.BitVec("a", W)
    for nme, t in (("k", k), ("nc", nc), ("a", a)):
        ctx.inputs[nme] = t
    ctx.solver.add(z3.ULE(1, nc), z3.ULE(nc, max_nc), z3.ULE(k, nc), z3.ULE(1, a), z3.ULE(a, 99))
    F64 = z3.Float64()
    k_fp = core.SFP(z3.fpUnsignedToFP(core.RNE, k, F64))
    nc_fp = core.SFP(z3.fpUnsignedToFP(core.RNE, nc, F64))
    p = core.SFP(z3.fpDiv(core.RNE, z3.fpUnsignedToFP(core.RNE, a, F64), z3.FPVal(100.0, F64)))     # the double nearest to a/100 (what the literal 0.<a> is)
    flags, mute = ctx.call("saturation", v.saturation, _CountedData(k_fp, nc_fp), 1.0, v_per_sec=1.0, fs=30000, proportion=p, mute_window_samples=1)
    f0 = np.asarray(arrays._plain(flags), dtype=object).ravel().tolist()
    if not ctx.oblige("one_flag_for_the_sample", len(f0) == 1, detail={"n": len(f0)}):
        return
    got = core._b(f0[0])
    got_t = core._bt(got) if not isinstance(got, bool) else z3.BoolVal(got)
    k32, nc32, a32 = z3.ZeroExt(16, k), z3.ZeroExt(16, nc), z3.ZeroExt(16, a)
    spec = z3.UGT(k32 * 100, a32 * nc32)
    fp.oblige_fp(ctx, "flag_iff_more_than_the_proportion_of_channels_ieee", got_t == spec, {"k": k, "nc": nc, "a": a}, timeout_s=1500)


def _n(b):
    if isinstance(b, core.SBool):
        return b.num()
    return int(bool(b))


def cases(tier):
    b = bounds(tier)
    cs = []
    for (nc, ns) in b["shapes"]:
        for win in b["windows"]:
            for pc in (False, True):
                if tier == "quick" and pc and win != b["windows"][0]:
                    continue
                cs.append(Case(f"sat_{nc}x{ns}_w{win}_{'perch' if pc else 'scalar'}", "case_saturation",
                               {"nc": nc, "ns": ns, "win": win, "per_channel": pc, "sym_fs": False}, timeout_s=900))
    cs.append(Case("sat_2x3_w3_symfs", "case_saturation", {"nc": 2, "ns": 3, "win": 3, "per_channel": False, "sym_fs": True}, timeout_s=900))
    # degenerate but legal sizes: one channel, one sample, a hard mute (window of one sample), an even window
    cs.append(Case("proportion_ieee_nc400", "case_proportion_ieee", {"max_nc": 400}, timeout_s=2400))
    for at in ((4096,) if tier == "quick" else (4096, 8192, 1024, 2048, 65536)):
        cs.append(Case(f"sat_long_pair_at_{at}", "case_saturation_long", {"ns": at + 3, "at": at}, timeout_s=1800))
    cs.append(Case("sat_2x3_w3_positional_arguments", "case_saturation", {"nc": 2, "ns": 3, "win": 3, "per_channel": False, "sym_fs": True, "positional": True}, timeout_s=900))
    cs.append(Case("sat_2x3_w3_range_list", "case_saturation", {"nc": 2, "ns": 3, "win": 3, "per_channel": True, "sym_fs": False, "as_list": True}, timeout_s=900))
    cs.append(Case("sat_1x3_w3_scalar", "case_saturation", {"nc": 1, "ns": 3, "win": 3, "per_channel": False, "sym_fs": False}, timeout_s=900))
    cs.append(Case("sat_1x3_w3_perch", "case_saturation", {"nc": 1, "ns": 3, "win": 3, "per_channel": True, "sym_fs": False}, timeout_s=900))
    cs.append(Case("sat_2x1_w3_scalar", "case_saturation", {"nc": 2, "ns": 1, "win": 3, "per_channel": False, "sym_fs": False}, timeout_s=900))
    cs.append(Case("sat_2x3_w1_scalar", "case_saturation", {"nc": 2, "ns": 3, "win": 1, "per_channel": False, "sym_fs": False}, timeout_s=900))
    cs.append(Case("sat_3x2_missing_samples", "case_saturation_missing_samples", {"nc": 3, "ns": 2}, timeout_s=900))
    cs.append(Case("sat_2x3_w3_fft_convolution", "case_saturation_fft_convolution", {"nc": 2, "ns": 3, "win": 3}, timeout_s=900))
    cs.append(Case("sat_2x3_w5_fft_convolution", "case_saturation_fft_convolution", {"nc": 2, "ns": 3, "win": 5}, timeout_s=900))
    cs.append(Case("sat_2x4_w4_scalar", "case_saturation", {"nc": 2, "ns": 4, "win": 4, "per_channel": False, "sym_fs": False}, timeout_s=900))
    return cs


def twins(tier):
    m = "ibldsp.voltage"
    c0 = ["sat_2x3_w3_scalar", "sat_3x3_w3_scalar", "sat_2x4_w3_scalar", "sat_2x3_w3_perch", "sat_3x3_w3_perch", "sat_2x4_w3_perch"]
    return [
        Twin("proportion_ge", m, "np.logical_or(saturation > proportion, n_diff_saturated > proportion)", "np.logical_or(saturation >= proportion, n_diff_saturated > proportion)", c0),
        Twin("slew_prepended", m, "n_diff_saturated = np.r_[n_diff_saturated, 0]", "n_diff_saturated = np.r_[0, n_diff_saturated]", c0),
        Twin("and_instead_of_or", m, "np.logical_or(saturation > proportion, n_diff_saturated > proportion)", "np.logical_and(saturation > proportion, n_diff_saturated > proportion)", c0),
        Twin("range_98_on_data", m, "np.abs(data) > max_voltage * 0.98", "np.abs(data) * 0.98 > max_voltage", c0),
        Twin("mute_not_clipped", m, "mute = np.maximum(0, 1 - scipy.signal.convolve(saturation, win, mode='same'))", "mute = 1 - scipy.signal.convolve(saturation, win, mode='same')", c0),
        Twin("flagged_samples_not_forced_to_zero", m, "    mute[saturation] = 0  # a taper with an even number of samples has no central sample equal to 1\n", "", ["sat_2x4_w4_scalar"]),
        Twin("mean_over_time", m, "saturation = np.mean(np.abs(data) > max_voltage * 0.98, axis=0)", "saturation = np.mean(np.abs(data) > max_voltage * 0.98, axis=0) * 0 + np.mean(np.abs(data) > max_voltage * 0.98)", c0),
    ]


def replay(case, params, cex):
    m = cex["model"]
    if case.startswith("sat_long"):
        at, ns = params["at"], params["ns"]
        vals = {k: str(v) for k, v in m.items() if k.startswith("d")}
        return f"""
import ibldsp.voltage as v
F = lambda s: float(Fraction(s))
ns, at, nc = {ns}, {at}, 2
d = np.zeros((nc, ns))
for k_, v_ in {vals}.items():
    c, t = k_[1:].split('_'); d[int(c), int(t)] = F(v_)
p, s = F({str(m['proportion'])!r}), F({str(m['v_per_sec'])!r})
flags, mute = v.saturation(d.copy(), 10.0, v_per_sec=s, fs=30000, proportion=p, mute_window_samples=3)
dd = np.abs(np.diff(d, axis=1))
ge = np.r_[(dd >= s * 30000).sum(0), 0]; gt = np.r_[(dd > s * 30000).sum(0), 0]
bad = [t for t in (at - 2, at - 1, at) if (flags[t] and not ge[t] > p * nc) or (gt[t] > p * nc and not flags[t])]
print(flags[at - 3:at + 2], ge[at - 3:at + 2], bad)
if bad: reproduced(f'slew between samples {{bad[0]}} and {{bad[0] + 1}} of a {{ns}}-sample array: flagged={{bool(flags[bad[0]])}}, channels over the slew limit: {{int(ge[bad[0]])}} of {{nc}} (proportion {{p}})')
not_reproduced()
"""
    if case.endswith("missing_samples"):
        nc, ns = params["nc"], params["ns"]
        d = [["nan" if m.get(f"m{c}_{t}") else str(m.get(f"d{c}_{t}", 0)) for t in range(ns)] for c in range(nc)]
        return f"""
import ibldsp.voltage as v
F = lambda s: float('nan') if s == 'nan' else float(Fraction(s))
d = np.array([[F(x) for x in r] for r in {d}]); V = F({str(m['V'])!r}); p = F({str(m['proportion'])!r}); nc = {nc}
flags, mute = v.saturation(d.copy(), V, v_per_sec=1e9, fs=30000, proportion=p, mute_window_samples=3)
with np.errstate(invalid='ignore'):
    n_over = (np.abs(d) > V * 0.98).sum(0)
want = n_over > p * nc
print(d, flags, n_over, p)
if np.shape(flags) != want.shape or not np.array_equal(np.asarray(flags, dtype=bool), want): reproduced(f'with missing (NaN) samples the flags are {{np.asarray(flags).tolist()}}; channels beyond 98 % of range per sample: {{n_over.tolist()}} of {{nc}}, proportion {{p}}')
not_reproduced()
"""
    if case.endswith("fft_convolution"):
        win = params["win"]
        return f"""
import ibldsp.voltage as v
# the symbolic instance is small; SciPy only switches to its FFT method for long inputs: same situation (same parity of the taper), long array
bad = []
for ns, w in ((30000, 1001 if {win} % 2 else 1000), (30000, 1501 if {win} % 2 else 1500), (60, {win})):
    d = np.zeros((4, ns)); d[:, ns // 3: ns // 3 + 7] = 1.0; d[:, ns // 2] = 1.0
    flags, mute = v.saturation(d.copy(), 1.0, v_per_sec=1e9, fs=30000, proportion=0.2, mute_window_samples=w)
    fl = np.asarray(flags, dtype=bool)
    print(ns, w, fl.sum(), np.abs(mute[fl]).max() if fl.any() else None)
    if fl.any() and np.any(mute[fl] != 0): bad.append((ns, w, float(np.abs(mute[fl]).max())))
if bad: reproduced(f'mute gain on flagged samples is not exactly 0 (array length, taper length, largest value): {{bad}}')
not_reproduced()
"""
    if case.startswith("proportion_ieee"):
        return f"""
import ibldsp.voltage as v
k, nc, a = {int(m['k'])}, {int(m['nc'])}, {int(m['a'])}
p = a / 100                      # the proportion as a user writes it
d = np.zeros((nc, 4)); d[:k, :] = 1.0          # k channels sit at full scale (range 1.0) on every sample: no slew at all
flags, mute = v.saturation(d.copy(), 1.0, v_per_sec=1e9, fs=30000, proportion=p, mute_window_samples=3)
want = 100 * k > a * nc
print(k, nc, p, flags, want)
if np.shape(flags) != (4,) or bool(flags[1]) != want: reproduced(f'{{k}} of {{nc}} channels beyond 98 % of the range with proportion {{p}}: flagged={{bool(flags[1])}}, more than the proportion of channels: {{want}}')
not_reproduced()
"""
    nc, ns, win = params["nc"], params["ns"], params["win"]
    d = [[str(m[f"d{c}_{t}"]) for t in range(ns)] for c in range(nc)]
    V = [str(m[f"V{c}"]) for c in range(nc)] if params["per_channel"] else str(m["V"])
    fs = str(m.get("fs", 30000))
    return f"""
import ibldsp.voltage as v, scipy.signal
F = lambda s: float(Fraction(s))
d = np.array([[F(x) for x in r] for r in {d}])
V = {('np.array([F(x) for x in %r])' % V) if params['per_channel'] else 'F(%r)' % V}
p, s, fs, win = F({str(m['proportion'])!r}), F({str(m['v_per_sec'])!r}), F({fs!r}), {win}
if {bool(params.get('as_list'))}: V = list(V)
V0 = np.copy(V)
try:
    flags, mute = v.saturation(d.copy(), V, s, fs, p, win) if {bool(params.get('positional'))} else v.saturation(d.copy(), V, v_per_sec=s, fs=fs, proportion=p, mute_window_samples=win)
except Exception as e:
    reproduced(f'saturation raised {{type(e).__name__}}: {{e}} on {{d.shape[0]}} channels x {{d.shape[1]}} samples with a mute window of {{win}} samples')
nc, ns = d.shape
again, _ = v.saturation(d.copy(), V, v_per_sec=s, fs=fs, proportion=p, mute_window_samples=win)
if not np.array_equal(again, flags): reproduced(f'a second identical call returns other flags: {{flags}} then {{again}}')
Vc = np.broadcast_to(np.atleast_1d(V), (nc,))
over = (np.abs(d) > (Vc * 0.98)[:, None]).sum(0)
dd = np.abs(np.diff(d, axis=1))
ge = np.r_[(dd >= s * fs).sum(0), 0]; gt = np.r_[(dd > s * fs).sum(0), 0]
upper = (over > p * nc) | (ge > p * nc); lower = (over > p * nc) | (gt > p * nc)
w = scipy.signal.windows.cosine(win); h = (win - 1) // 2
exp = np.array([0.0 if flags[t] else max(0.0, 1 - sum(float(flags[j]) * w[t - j + h] for j in range(ns) if 0 <= t - j + h < win)) for t in range(ns)])
print('flags', flags, 'upper', upper, 'lower', lower, 'mute', mute, 'exp', exp)
bad = []
if np.shape(flags) != (ns,) or np.shape(mute) != (ns,): reproduced(f'flags {{np.shape(flags)}} / mute {{np.shape(mute)}} do not have one entry per sample ({{ns}})')
if np.any(flags & ~upper) or np.any(lower & ~flags): bad.append('flag rule')
if np.any(mute < -1e-12) or np.any(mute > 1 + 1e-12): bad.append('mute range')
if np.any(np.abs(mute[flags]) > 1e-9): bad.append('flag => mute 0')
if np.any(np.abs(mute - exp) > 1e-9): bad.append('mute function of flags')
if bad: reproduced(str(bad))
not_reproduced()
"""

LEVEL_TEXT = LEVEL_TEXT

# level text addendum (cases added after the seeded-change rounds)
LEVEL_TEXT = LEVEL_TEXT + ' Also: odd and even mute windows down to 1 sample, 1 channel, 1 sample, ranges as a list, the same call repeated on the same range array, and an IEEE lemma (cvc5): flag <=> 100 k > a nc for every nc <= 400, k <= nc and proportion a/100.'
LEVEL_TEXT = LEVEL_TEXT + ' Round 7: missing (NaN) samples do not change the denominator of the proportion; the mute gain is exactly 0 on flagged samples also when scipy.signal.convolve is only known up to rounding noise (its FFT method).'
