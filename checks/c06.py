"""
C06 - Chunked destripe-to-file writes every sample at its own position, for any worker count.
The whole real ibldsp.voltage.decompress_destripe_cbin (including the nested my_function) runs under
stubs: fake pyfftw, lazy arrays with a symbolic recording length, fake files recording seek/tofile,
DSP primitives as uninterpreted whole-array operators.
"""
import sys
import types

from fractions import Fraction

import numpy as np
import scipy.signal
import z3

from symex import arrays, core, fakefs, larr, np2env, sglx, stubs
from symex.core import SInt, SReal, all_, and_, any_, implies, ite, not_, or_
from symex.fakefs import FakePath
from symex.harness import Case, Twin
from symex.larr import LArr

PROPERTY = "C06"
FUNCTIONS = ["ibldsp.voltage.decompress_destripe_cbin (incl. nested my_function)", "ibldsp.voltage._get_destripe_parameters", "ibldsp.utils.rms", "spikeglx.Reader (open/read)"]
ASSUMPTIONS = [
    "DSP primitives (sosfiltfilt, fshift / the pyfftw phase shift, interpolate_bad_channels, kfilt/car, saturation) are uninterpreted whole-array operators: WHICH batch, rows and columns they are applied to is decided, not their numeric values",
    "expected content of output row r is built by the harness from its own batch oracle: batches start at multiples of NBATCH-2048, keep [1024, NBATCH-1024), first from 0, last (first batch reaching the end) to the end; electrodes = int16(destripe(batch)[r] x mute[r] / volts-per-bit), sync columns = the raw sync words",
    "joblib.Parallel is replaced by running the worker function for every chunk index in a chosen order (each worker has its own file handles); real process scheduling is outside",
    "NBATCH=4096 (nbatch argument), recording length symbolic with at most the stated number of batches; values as exact reals",
]
OUTSIDE = ["numeric values of the filters", "byte identity under real joblib process scheduling", "whitening (wrot) beyond a scalar factor and one concrete 3x3 matrix"]
EXPLANATION = "a skolem output row stands for every sample; every tofile record of every worker that covers the row must carry the oracle's content."
LEVEL_TEXT = ("For every recording length (within the batch bound), worker counts 1..2 (quick) / 1..4 (thorough) in different execution orders, padding, channel rejection and car/k-filter settings, z3 decides: no feasible input raises, "
              "the output has ns+padding rows, every row is covered by a write and every write covering it carries the oracle content for that row (hence the same bytes for any worker count), the sync columns are the raw sync words, "
              "and the saturation / RMS files get one entry per sample / batch.")
LEVEL_NOTE = "Trusted: z3 (LIA+EUF+NRA-light), lazy arrays, fake files, the uninterpreted-operator contracts; the vendored NumPy stand-in for pyfftw is used only by replays."

NB, TAP = 4096, 1024
S = NB - 2 * TAP


def bounds(tier):
    if tier == "quick":
        return {"max_batches": 4, "workers": [1, 2], "ns_min": 1024, "batches_rule": "max(4, 2P+2)"}
    return {"max_batches": 5, "workers": [1, 2, 3, 4], "ns_min": 1024, "batches_rule": "max(5, 2P+2)"}


# ----------------------------------------------------------------------------------------- stubs
class _Spec:
    def __init__(self, x, tag="fft"):
        self.x = x
        self.tag = tag

    def __mul__(self, o):
        o = np.asarray(o)
        return _Spec(self.x, self.tag + "_x" + larr._digest(np.ascontiguousarray(o).view(np.float64) if np.iscomplexobj(o) else o))


class _FFTW:
    def __init__(self, a, b, axes=(1,), direction="FFTW_FORWARD", threads=1, **k):
        self.direction = direction

    def __call__(self, x):
        if self.direction == "FFTW_FORWARD":
            if isinstance(x, LArr):
                m = x.materialize()
                if m is not None:
                    return np.fft.rfft(np.asarray(m, dtype=float), axis=1)
                return _Spec(x)
            xx = np.asarray(arrays.demote(arrays._plain(x)) if isinstance(x, np.ndarray) else x, dtype=float)
            return np.fft.rfft(xx, axis=1)
        if isinstance(x, _Spec):
            return larr.opaque("fftw_shift_" + x.tag, x.x, tag=np.dtype(np.float32))
        raise core.Unsupported("inverse FFTW of a concrete spectrum")


def _install_pyfftw():
    m = types.ModuleType("pyfftw")
    m.empty_aligned = lambda shape, dtype="float32", **k: np.zeros(shape, dtype=dtype)
    m.FFTW = _FFTW
    sys.modules["pyfftw"] = m


def sat_stub(data, max_voltage, v_per_sec=1e-8, fs=30000, proportion=0.2, mute_window_samples=7):
    n = data.shape[-1]
    flags = larr.opaque("sat_flags", data, shape=(n,), sort="bool")
    mute = larr.opaque("sat_mute", data, shape=(n,), tag=np.dtype(float))
    return flags, mute


def fshift_stub(w, s, axis=-1, ns=None):
    return larr.opaque("fshift_" + larr._digest(np.asarray(s, dtype=float)), w, tag=np.dtype(np.float32))


def interp_stub(data, channel_labels=None, x=None, y=None, **k):
    return larr.opaque("interp_" + larr._digest(np.asarray(channel_labels, dtype=float)), data)


def kfilt_stub(x, **kw):
    return larr.opaque("kfilt_" + str(sorted((k, str(v)) for k, v in kw.items()))[:60].replace(" ", ""), x)


def car_stub(x, **kw):
    return larr.opaque("car_" + str(sorted((k, str(v)) for k, v in kw.items()))[:60].replace(" ", ""), x)


class SatRecorder:
    """stands for the np.load(..., mmap_mode='r+') saturation array"""

    def __init__(self, f):
        self.f = f

    def __setitem__(self, key, value):
        self.f.content.setdefault("assign", []).append((key.start, key.stop, value))


_ORDER = [None]
_LABELS = [None]


class _Parallel:
    def __init__(self, n_jobs=None, **k):
        self.n = n_jobs

    def __call__(self, jobs):
        jobs = list(jobs)
        order = [i for i in (_ORDER[0] or list(range(len(jobs)))) if i < len(jobs)]   # the code may clamp the worker count
        out = [None] * len(jobs)
        for i in order:
            fn, a, kw = jobs[i]
            out[i] = fn(*a, **kw)
        return out


def _delayed(fn):
    return lambda *a, **k: (fn, a, k)


class _NPVolt:
    def __init__(self, base):
        self._base = base

    def load(self, file, mmap_mode=None, **k):
        f = fakefs.fs().get(str(file))
        if f is None or not bool(f.exists):
            raise FileNotFoundError(str(file))
        fakefs.fs().mutate("np.load", str(file), mutating=False)
        return SatRecorder(f)

    def save(self, file, arr, **k):
        F = fakefs.fs()
        f = F.files.setdefault(str(file), fakefs.File(False))
        F.mutate("np.save", str(file))
        f.exists, f.size = True, 128
        if isinstance(arr, SatRecorder):
            f.content = dict(arr.f.content)
        else:
            f.content = {"npy": arr, "assign": f.content.get("assign", []) if isinstance(f.content, dict) else []}

    def frombuffer(self, buf, dtype=float, **k):
        if isinstance(buf, fakefs.RecordsBytes):
            itemsize = np.dtype(dtype).itemsize
            n = buf.size // itemsize
            recs = buf.records

            def fn(i):
                res = 0
                for r in recs:
                    a = r["array"]
                    if not isinstance(a, LArr):
                        a = LArr.from_array(np.atleast_1d(np.asarray(a)))
                    if a.ndim == 0:
                        a = a[None]
                    st = r["pos"] // itemsize
                    inside = and_(i >= st, i < st + a.shape[0])
                    if inside is False:
                        continue
                    res = ite(inside, a.fn(i - st), res)
                return res
            return LArr((n,), fn, aid=None, tag=np.dtype(dtype))
        return np.frombuffer(buf, dtype=dtype, **k)

    def __getattr__(self, n):
        return getattr(self.__dict__["_base"], n)


def setup():
    np2env.patch()
    _install_pyfftw()
    import ibldsp.voltage as v
    import ibldsp.fourier as f
    import ibldsp.utils as u
    larr.patch_module(v, Path=FakePath, open=fakefs.fake_open)
    v.np = _NPVolt(sglx.NPS)
    sig = stubs.Namespace(scipy.signal, sosfiltfilt=np2env.sosfiltfilt_stub)
    v.scipy = stubs.Namespace(scipy, signal=sig)
    v.saturation = sat_stub
    v.interpolate_bad_channels = interp_stub
    v.kfilt = kfilt_stub
    v.car = car_stub
    v.detect_bad_channels_cbin = lambda sr, **k: _LABELS[0]
    v.fourier = stubs.Namespace(f, fshift=fshift_stub)
    v.Parallel = _Parallel
    v.delayed = _delayed
    v.cpu_count = lambda: 4
    larr.patch_module(u)


# ----------------------------------------------------------------------------------------- harness
NSITES = 3
_GAINS = [[(500, 250)] * NSITES]
WMAT = np.array([[1.0, 0.5, 0.0], [0.25, 1.0, 0.0], [0.0, 0.125, 1.0]])      # a non-diagonal whitening matrix (binary fractions: exact)


def _mk(ctx, max_batches, ns_min):
    ns = ctx.int("ns", ns_min, 10 ** 9)
    ctx.assume(ns <= NB + (max_batches - 1) * S)
    nc = NSITES + 1
    T = core._as_real(ns) / 30000
    sites = [(0, i % 2, i // 2) for i in range(NSITES)]
    txt = sglx.imec_meta_text("3B2", sites, gains=_GAINS[0], ns=sglx.S(T), fs_hz="30000", file_size=sglx.S(ns * nc * 2))
    F = fakefs.install(fakefs.FakeFS())
    F.add("/d/x.imec0.ap.meta", True, len(txt), [{"pos": 0, "text": txt}])
    F.add("/d/x.imec0.ap.bin", True, ns * nc * 2, np2env.raw_array(ns, nc))
    F.mkdir("/out")
    return F, ns, nc


def _old_output(ctx, F, nc):
    """append mode: an earlier run left `old_rows` rows in the output, `old_batches` entries in the rms/time files"""
    old_rows = ctx.int("old_rows", 1, 10 ** 9)
    old_b = ctx.int("old_batches", 1, 10 ** 6)
    fo = core.ufun("OLD", z3.IntSort(), z3.IntSort(), z3.IntSort())
    arr = LArr((old_rows, nc), lambda r, c: SInt(fo(larr._int_term(r), larr._int_term(c))), aid=larr.const_aid("oldout"), tag=np.dtype(np.int16))
    F.add("/out/x.bin", True, old_rows * nc * 2, [{"pos": 0, "array": arr, "itemsize": 2, "nbytes": old_rows * nc * 2}])
    fr = core.ufun("OLDRMS", z3.IntSort(), z3.RealSort())
    ft = core.ufun("OLDT", z3.IntSort(), z3.RealSort())
    rms = LArr((old_b * NSITES,), lambda i: SReal(fr(larr._int_term(i))), aid=larr.const_aid("oldrms"), tag=np.dtype(np.float32))
    tim = LArr((old_b,), lambda i: SReal(ft(larr._int_term(i))), aid=larr.const_aid("oldtime"), tag=np.dtype(np.float32))
    F.add("/out/ap_rms.bin", True, old_b * NSITES * 4, [{"pos": 0, "array": rms, "itemsize": 4, "nbytes": old_b * NSITES * 4}])
    F.add("/out/ap_time.bin", True, old_b * 4, [{"pos": 0, "array": tim, "itemsize": 4, "nbytes": old_b * 4}])
    return old_rows, old_b, fo


def _expected_row(ctx, sr, h, ns, r, reject, labels, k_filter, out_dtype=np.int16, wrot=None):
    """oracle: content of output row r (r < ns), as int16-cast terms per column"""
    import ibldsp.voltage as v
    ncv = NSITES
    L = ite(ns <= NB, 0, (ns - NB + S - 1) // S)          # index of the last batch (first one reaching the end)
    b0 = (r - TAP) // S
    b = ite(r < S + TAP, 0, ite(b0 < L, b0, L))
    fb = b * S
    lb = ite(fb + NB < ns, fb + NB, ns)
    x = sr[fb:lb, :ncv].T
    flags, mute = sat_stub(data=x, max_voltage=sr.range_volts[:ncv], fs=sr.fs)
    taper = np.r_[0, scipy.signal.windows.cosine((TAP - 1) * 2), 0]
    x[:, :TAP] *= taper[:TAP]
    x[:, -TAP:] *= taper[TAP:]
    sos = scipy.signal.butter(N=3, Wn=300 / 30000 * 2, btype="highpass", output="sos")
    x = np2env.sosfiltfilt_stub(sos, x)
    # the phase-shift operator: plain fshift on the last batch, the pre-computed FFTW stencil otherwise
    dephas = np.zeros((ncv, NB), dtype=np.float32)
    dephas[:, 1] = 1.0
    DE = np.exp(1j * np.angle(np.fft.rfft(dephas.astype(float), axis=1)) * h["sample_shift"][:, np.newaxis])
    variants = {"last": fshift_stub(x, s=h["sample_shift"]), "mid": _FFTW(None, None, direction="FFTW_BACKWARD")(_FFTW(None, None)(x) * DE)}
    _, k_kwargs, _ = v._get_destripe_parameters(sr.fs, None, None, k_filter)
    spatial = (lambda d: kfilt_stub(d, **k_kwargs)) if k_filter else (lambda d: car_stub(d, **k_kwargs))
    vals = {}
    intnorm = 1 / sr.sample2volts
    for name, xv in variants.items():
        if reject:
            xv = interp_stub(xv, labels, h["x"], h["y"])
            inside = np.where(labels != 3)[0]
            xv[inside, :] = spatial(xv[inside, :])
        else:
            xv = spatial(xv)
        if isinstance(wrot, np.ndarray):
            # whitening matrix: applied to the NORMALISED samples (volts divided by each channel's own volts-per-bit)
            norm = [xv[k, r - fb] * mute[r - fb] * float(intnorm[k]) for k in range(ncv)]
            vals[name] = [arrays.cast_scalar(sum(norm[k] * float(wrot[k, c]) for k in range(ncv) if wrot[k, c] != 0), out_dtype) for c in range(ncv)]
            continue
        vals[name] = [arrays.cast_scalar(xv[c, r - fb] * mute[r - fb] * float(intnorm[c]) * (1 if wrot is None else wrot), out_dtype) for c in range(ncv)]
    out = [ite(core.eq(b, L), vals["last"][c], vals["mid"][c]) for c in range(ncv)]
    out.append(np2env.raw_elem(r, ncv))       # sync column: the raw word, bit for bit
    return out, b, L


def case_destripe(ctx, nproc, order, ns2add, reject, k_filter, max_batches, ns_min, append=False, stale=False, out_float32=False, wrot_scalar=False, wrot_matrix=False):
    import ibldsp.voltage as v
    import spikeglx
    # with a whitening matrix: channels with different gains (legal in an NP1 imro table), so that the order normalise / whiten matters
    _GAINS[0] = [(500, 250), (250, 125), (1000, 500)][:NSITES] if wrot_matrix else [(500, 250)] * NSITES
    F, ns, nc = _mk(ctx, max_batches, ns_min)
    old_rows, old_b, fo = _old_output(ctx, F, nc) if (append or stale) else (0, 0, None)
    if stale:
        # a NON-append run onto the output of an earlier run (possibly longer): nothing of it may survive
        old_rows, old_b, fo = 0, 0, None
    _ORDER[0] = order
    labels = np.array([0.0, 3.0, 0.0]) if reject else None
    _LABELS[0] = labels
    nb_iter = [0]
    wrot = WMAT.copy() if wrot_matrix else ctx.real("wrot", Fraction(1, 2), 2) if wrot_scalar else None        # the documented scalar form of the whitening argument: an amplitude factor on the electrode channels
    res = ctx.call("destripe", v.decompress_destripe_cbin, FakePath("/d/x.imec0.ap.bin"), output_file=FakePath("/out/x.bin"), nbatch=NB, nprocesses=nproc,
                   ns2add=ns2add, reject_channels=reject, k_filter=k_filter, compute_rms=True, append=append, **({"dtype": np.float32} if out_float32 else {}),
                   **({"wrot": wrot} if (wrot_scalar or wrot_matrix) else {}))
    ISZ = 4 if out_float32 else 2          # bytes per output sample
    out = F.get("/out/x.bin")
    if not ctx.oblige("output_file_exists", out is not None and bool(out.exists)):
        return
    total = ns + ns2add
    ctx.oblige("output_has_ns_plus_padding_rows", core.eq(out.size, (old_rows + total) * nc * ISZ), detail={"size": out.size, "expected_rows": old_rows + total, "bytes_per_sample": ISZ})
    recs = [r for r in (out.content or []) if "array" in r]
    if not ctx.oblige("output_was_written", len(recs) > 0):
        return
    rowbytes = nc * ISZ
    if append:
        # the earlier run's rows are still there, untouched by any write of this run
        q = ctx.int("q", 0)
        ctx.assume(q < old_rows)
        view = np2env.records_view(recs, nc)
        ctx.oblige("append_keeps_the_previous_run", all_([core.eq(view.fn(q, c), SInt(fo(q.t, z3.IntVal(c)))) for c in range(nc)]), detail={"q": q})
        recs = recs[1:]
        recs = [dict(rec, pos=rec["pos"] - old_rows * rowbytes) for rec in recs]
    r = ctx.int("r", 0)
    ctx.assume(r < total)
    sr = spikeglx.Reader(FakePath("/d/x.imec0.ap.bin"))
    h = sr.geometry
    rr = ite(r < ns, r, ns - 1)            # padding rows repeat the last sample
    exp, b, L = _expected_row(ctx, sr, h, ns, rr, reject, labels, k_filter, out_dtype=np.float32 if out_float32 else np.int16, wrot=wrot)
    covered = False
    for k, rec in enumerate(recs):
        a = rec["array"]
        ctx.oblige("records_are_row_aligned", core.eq(rec["pos"] % rowbytes, 0), detail={"pos": rec["pos"]})
        if not ctx.oblige("record_width_is_nc_out", a.ndim == 2 and bool(larr._dim_eq(a.shape[1], nc)), detail={"shape": str(a.shape)}):
            continue
        st = rec["pos"] // rowbytes
        inside = and_(r >= st, r < st + a.shape[0])
        if inside is False:
            continue
        covered = or_(covered, inside)
        ctx.solver.push()
        try:
            ctx.solver.add(core._bt(core._b(inside)))
            if ctx.reachable():
                for c in range(nc):
                    got = a.fn(r - st, c)
                    name = "sync_column_is_copied_bit_for_bit" if c >= NSITES else "row_content_is_the_oracle_batch_destripe"
                    ctx.oblige(name, core.eq(got, exp[c]), detail={"record": k, "col": c, "r": r, "batch": b, "last_batch": L})
        finally:
            ctx.solver.pop()
    ctx.oblige("every_output_row_is_written", covered, detail={"r": r})
    # saturation file: one entry per sample, every sample assigned
    sat = F.get("/out/_iblqc_ephysSaturation.samples.npy")
    if ctx.oblige("saturation_file_exists", sat is not None and bool(sat.exists) and isinstance(sat.content, dict)):
        arr = sat.content["npy"]
        ctx.oblige("saturation_has_one_entry_per_sample", core.eq(arr.shape[0] if hasattr(arr, "shape") else -1, ns))
        t = ctx.int("t", 0)
        ctx.assume(t < ns)
        cov = any_([and_(t >= a0, t < a1) for (a0, a1, _) in sat.content.get("assign", [])])
        ctx.oblige("every_sample_gets_a_saturation_flag", cov, detail={"t": t})
        for (a0, a1, val) in sat.content.get("assign", []):
            ctx.oblige("saturation_slices_inside_recording", and_(a0 >= 0, a1 <= ns), detail={"slice": [a0, a1]})
    # rms / timestamps: one entry per batch
    nbatches = L + 1
    rms = F.get("/out/_iblqc_ephysTimeRmsAP.rms.npy")
    ts = F.get("/out/_iblqc_ephysTimeRmsAP.timestamps.npy")
    if ctx.oblige("rms_files_exist", rms is not None and ts is not None and bool(rms.exists) and bool(ts.exists)):
        ra, ta = rms.content["npy"], ts.content["npy"]
        ctx.oblige("rms_has_one_row_per_batch", and_(core.eq(ra.shape[0], old_b + nbatches), bool(larr._dim_eq(ra.shape[1], NSITES))), detail={"rows": ra.shape[0], "batches": nbatches})
        ctx.oblige("timestamps_one_per_batch", core.eq(ta.shape[0], old_b + nbatches), detail={"n": ta.shape[0]})
        rf = F.get("/out/ap_rms.bin")
        kk = ctx.int("kbatch", 0)
        ctx.assume(kk < nbatches)
        covb = any_([core.eq(rec["pos"], (old_b + kk) * NSITES * 4) for rec in rf.content if "array" in rec])
        ctx.oblige("every_batch_has_an_rms_entry", covb, detail={"k": kk})


def cases(tier):
    b = bounds(tier)
    cs = []
    for P in b["workers"]:
        mb = max(b["max_batches"], 2 * P + 2)        # enough batches for P genuinely parallel workers (ns >= P x NBATCH)
        orders = [None] if P == 1 else [None, list(range(P - 1, -1, -1))]
        for oi, order in enumerate(orders):
            if oi == 1 and (tier == "quick" or P > 3):
                continue
            cs.append(Case(f"destripe_P{P}_o{oi}", "case_destripe", {"nproc": P, "order": order, "ns2add": 0, "reject": True, "k_filter": True,
                                                                     "max_batches": mb, "ns_min": 1024 if P == 1 else 2100}, timeout_s=3400, max_paths=400))
    cs.append(Case("destripe_P2_append", "case_destripe", {"nproc": 2, "order": None, "ns2add": 0, "reject": True, "k_filter": True,
                                                           "max_batches": 6, "ns_min": 8192, "append": True}, timeout_s=3400, max_paths=400))
    cs.append(Case("destripe_P1_over_stale_output", "case_destripe", {"nproc": 1, "order": None, "ns2add": 0, "reject": True, "k_filter": True,
                                                                     "max_batches": 4, "ns_min": 1024, "stale": True}, timeout_s=3400, max_paths=400))
    cs.append(Case("destripe_P1_scalar_wrot", "case_destripe", {"nproc": 1, "order": None, "ns2add": 0, "reject": True, "k_filter": True,
                                                               "max_batches": 4, "ns_min": 1024, "wrot_scalar": True, "out_float32": True}, timeout_s=3400, max_paths=400))
    cs.append(Case("destripe_P1_matrix_wrot_mixed_gains", "case_destripe", {"nproc": 1, "order": None, "ns2add": 0, "reject": True, "k_filter": True,
                                                                           "max_batches": 3, "ns_min": 1024, "wrot_matrix": True, "out_float32": True}, timeout_s=3400, max_paths=400))
    cs.append(Case("destripe_P2_float32_output", "case_destripe", {"nproc": 2, "order": None, "ns2add": 0, "reject": True, "k_filter": True,
                                                                   "max_batches": 6, "ns_min": 8192, "out_float32": True}, timeout_s=3400, max_paths=400))
    cs.append(Case("destripe_P2_pad_car_noreject", "case_destripe", {"nproc": 2, "order": [1, 0], "ns2add": 3, "reject": False, "k_filter": False,
                                                                      "max_batches": 6, "ns_min": 2100}, timeout_s=3400, max_paths=400))
    return cs


def twins(tier):
    m = "ibldsp.voltage"
    cs = ["destripe_P1_o0", "destripe_P2_o0", "destripe_P2_pad_car_noreject"]
    return [
        Twin("stride_one_taper", m, "            first_s += NBATCH - SAMPLES_TAPER * 2", "            first_s += NBATCH - SAMPLES_TAPER", cs),
        Twin("seek_without_taper", m, "fid.seek(offset + ((first_s + SAMPLES_TAPER) * nc_out * nbytes))", "fid.seek(offset + (first_s * nc_out * nbytes))", cs[1:]),
        Twin("n_batch_floor", m, "n_batch = int(np.ceil(i_chunk * CHUNK_SIZE / NBATCH))", "n_batch = int(np.floor(i_chunk * CHUNK_SIZE / NBATCH)) + 1", cs[1:]),
        Twin("last_batch_not_to_end", m, "                ind2save[1] = NBATCH\n            else:", "                pass\n            else:", cs),
        Twin("sync_from_filtered", m, "chunk = np.r_[chunk, _sr[first_s:last_s, ncv:].T].T", "chunk = np.r_[chunk, _sr[first_s:last_s, ncv:].T * 0 + _sr[first_s:last_s, :1].T].T", cs[:1]),
        Twin("saturation_slice_shifted", m, "_saturation[first_s:last_s] = saturated_samples", "_saturation[first_s + 1:last_s] = saturated_samples[1:]", cs[:1]),
        Twin("worker_stops_early", m, "            if last_s >= max_s:", "            if last_s >= max_s - NBATCH:", cs[1:]),
    ]


def replay(case, params, cex):
    m = cex["model"]
    ns = m["ns"]
    return f"""
import sys, tempfile, pathlib
sys.path.insert(0, '/verif'); sys.path.insert(0, '/verif/vendor')
from symex import sglx
import pyfftw            # vendored NumPy stand-in
import spikeglx, scipy.signal
import ibldsp.voltage as v
ns, P, ns2add, reject, k_filter = {ns}, {params['nproc']}, {params['ns2add']}, {params['reject']}, {params['k_filter']}
if ns > 400000: not_reproduced('too long to materialise')
NB = 4096; nsites = 96; nc = nsites + 1   # the real k-filter pads 60 mirrored traces: needs more channels than that
d = pathlib.Path(tempfile.mkdtemp())
rs = np.random.default_rng(0)
data = (rs.normal(size=(ns, nc)) * 40).astype(np.int16)
data[ns // 3: ns // 3 + 50, :nsites] = 30000          # a saturated stretch
data[5:45, :nsites] = 30000                            # and one inside the taper at the very start of the file
data[:, -1] = rs.integers(0, 65535, ns).astype(np.uint16).astype(np.int16)
wrot_matrix = {bool(params.get('wrot_matrix'))}
gains = [[(500, 250), (250, 125), (1000, 500)][i % 3] for i in range(nsites)] if wrot_matrix else [(500, 250)] * nsites
txt = sglx.imec_meta_text('3B2', [(0, i % 2, i // 2) for i in range(nsites)], gains=gains, ns=format(ns / 30000.0, '.12f'), fs_hz='30000', file_size=ns * nc * 2)
(d / 'x.imec0.ap.meta').write_text(txt); data.tofile(d / 'x.imec0.ap.bin')
labels = np.zeros(nsites); labels[-3:] = 3; labels[5] = 1
v.detect_bad_channels_cbin = lambda sr, **k: labels
# run the workers in-process, sequentially (joblib replaced)
class Par:
    def __init__(self, n_jobs=None, **k): pass
    def __call__(self, jobs): return [f(*a, **k) for f, a, k in jobs]
v.Parallel = Par; v.delayed = lambda f: (lambda *a, **k: (f, a, k))
outs = {{}}
append = {params.get('append', False)}
stale = {params.get('stale', False)}
odt = np.float32 if {params.get('out_float32', False)} else np.int16
wrot = {('float(Fraction(%r))' % str(m.get('wrot'))) if params.get('wrot_scalar') else 'None'}
def run(P):
    o = d / f'out{{P}}'; o.mkdir(exist_ok=True)
    if stale:          # the output of an earlier, longer run is already there
        np.full(((ns + ns2add) * 2 + 1000, nc), 77, dtype=np.int16).tofile(o / 'x.bin')
    v.decompress_destripe_cbin(d / 'x.imec0.ap.bin', output_file=o / 'x.bin', nbatch=NB, nprocesses=P, ns2add=ns2add, reject_channels=reject, k_filter=k_filter, dtype=odt, wrot=wrot)
    return np.fromfile(o / 'x.bin', dtype=odt), o
if append:
    first, o = run(P)
    try:
        v.decompress_destripe_cbin(d / 'x.imec0.ap.bin', output_file=o / 'x.bin', nbatch=NB, nprocesses=P, ns2add=ns2add, reject_channels=reject, k_filter=k_filter, append=True)
    except Exception as e:
        reproduced(f'append run raised {{type(e).__name__}}: {{e}}')
    both = np.fromfile(o / 'x.bin', dtype=np.int16)
    if both.size != 2 * first.size or not np.array_equal(both[:first.size], first) or not np.array_equal(both[first.size:], first):
        reproduced(f'append mode does not concatenate runs: {{both.size // nc}} rows after two runs of {{first.size // nc}}, first part intact={{np.array_equal(both[:first.size], first)}}')
    not_reproduced()
if wrot_matrix:
    # whitening = a matrix applied to the normalised output: the run with the matrix equals the run without, times the matrix
    base, _ = run(P)
    W = np.eye(nsites) + 0.25 * np.eye(nsites, k=1) + 0.125 * np.eye(nsites, k=-2)
    wrot = W
    got, _ = run(P)
    base = base.reshape(-1, nc).astype(float); got = got.reshape(-1, nc).astype(float)
    want = base[:, :nsites] @ W
    err = np.max(np.abs(got[:, :nsites] - want)) / max(1e-12, np.max(np.abs(want)))
    print('relative error', err)
    if err > 1e-4: reproduced(f'output with a whitening matrix differs from (output without) @ matrix by {{err:.3g}} (relative) on a probe with mixed gains')
    not_reproduced()
try:
    a, o = run(P)
except Exception as e:
    reproduced(f'decompress_destripe_cbin raised {{type(e).__name__}}: {{e}} for ns={{ns}}, nbatch={{NB}}, nprocesses={{P}}')
bad = []
if a.size != (ns + ns2add) * nc: bad.append(('rows', a.size / nc, ns + ns2add))
else:
    a = a.reshape(-1, nc)
    if not np.array_equal(a[:ns, -1], data[:, -1]): bad.append(('sync column differs from the source in', int(np.sum(a[:ns, -1] != data[:, -1])), 'samples'))
    if P > 1:
        try:
            a1, _ = run(1)
            if a1.size != a.size or not np.array_equal(a1.reshape(-1, nc), a): bad.append('output differs between 1 and %d workers' % P)
        except Exception as e:
            bad.append(('1 worker raised', repr(e)))
    sat = np.load(o / '_iblqc_ephysSaturation.samples.npy')
    if sat.shape[0] != ns: bad.append(('saturation length', sat.shape))
    else:
        for a_, b_ in ((5, 45), (ns // 3, ns // 3 + 50)):
            if not np.all(sat[a_:b_]): bad.append(('railed samples %d..%d are not all flagged in the saturation QC file' % (a_, b_), int(np.sum(sat[a_:b_])), b_ - a_))
    rms = np.load(o / '_iblqc_ephysTimeRmsAP.rms.npy'); L = 0 if ns <= NB else -(-(ns - NB) // (NB - 2048))
    if rms.shape != (L + 1, nsites): bad.append(('rms shape', rms.shape, L + 1))
print(bad)
if bad: reproduced(str(bad))
not_reproduced()
"""

# level text addendum (cases added after the seeded-change rounds)
LEVEL_TEXT = LEVEL_TEXT + ' Also: a non-append run over a stale longer output, float32 output with two workers, a scalar whitening factor (sync column untouched).'
LEVEL_TEXT = LEVEL_TEXT + ' Round 6: a non-diagonal whitening matrix on a probe with mixed gains (normalise, then whiten; lazy-array matrix product).'
