"""
C10 - Sync words decode to TTL lines and fronts recover every event.
"""
import numpy as np
import z3

from symex import arrays, core, purity
from symex.core import SBV, all_, and_, implies, mkbool, not_, or_
from symex.harness import Case, Twin

PROPERTY = "C10"
FUNCTIONS = ["spikeglx.split_sync", "spikeglx.Reader.read_sync / read_sync_digital / read_sync_analog", "ibldsp.utils.fronts", "ibldsp.utils.rises", "ibldsp.utils.falls"]
ASSUMPTIONS = [
    "split_sync: words are free 16-bit bit-vectors (all 65536 values of every word at once); np.int16/.view(np.uint8)/np.unpackbits/np.int8 are modelled bit-exactly (little-endian host), roll/flip/reshape are the real NumPy",
    "read_sync: a 3-sample nidq recording on the fake file system with 1-2 analog lines (free int16 words, real-sorted with integer witnesses) and one free 16-bit digital word per sample; threshold 1.2 V",
    "fronts/rises/falls: integer samples as z3 Ints (no int16 wrap-around in np.diff: |x| < 2^14 assumed), step a positive integer",
]
OUTSIDE = ["vectors longer than the stated length bound", "read_sync on more than 3 samples / 2 analog lines"]
EXPLANATION = "split_sync runs on symbolic bit-vector words; fronts on symbolic integer vectors (np.where forks over the feasible edge patterns)."
LEVEL_TEXT = ("'line k = bit k' is decided for every 16-bit word simultaneously (bit-vector query), and the edge set returned by "
              "fronts/rises/falls is compared with the definition {i: |x[i]-x[i-1]| >= step} for every integer vector up to the length bound "
              "(1-D and 2-D along both axes).")
LEVEL_NOTE = "Trusted: z3 bit-vector theory; the uint8-view/unpackbits facade (validated against real NumPy on random words on every run)."


def bounds(tier):
    return {"words": 2 if tier == "quick" else 4, "fronts_len": 5 if tier == "quick" else 8,
            "fronts_2d": [(2, 3)] if tier == "quick" else [(2, 4), (3, 3), (3, 4)]}


def setup():
    import spikeglx
    import ibldsp.utils as u
    # translator check: the same (working-tree) function on concrete words, real NumPy vs facade
    rng = np.random.default_rng(int(__import__("os").environ.get("VERIF_SEED", "0") or 0))
    w = rng.integers(-32768, 32767, size=5).astype(np.int16)
    real = spikeglx.split_sync(w.copy())
    from symex import sglx
    from checks import c01
    sglx.patch(mtscomp=c01._Mts)            # spikeglx + ibldsp.utils on the facades and the fake file system (as in C01)
    got = spikeglx.split_sync(arrays.wrap(w.copy()))
    if not np.array_equal(np.asarray(got, dtype=np.int64), real.astype(np.int64)):
        raise core.Unsupported("facade disagrees with real NumPy on concrete words")


def case_split_sync(ctx, m):
    import spikeglx
    words = [ctx.bv(f"w{i}", 16) for i in range(m)]
    arr = arrays.mk(words, tag=np.dtype(np.int16))
    out = spikeglx.split_sync(arr)
    ctx.oblige("shape_m_by_16", out.shape == (m, 16))
    ctx.oblige("dtype_int8", getattr(out, "tag", None) == np.dtype(np.int8))
    for i in range(m):
        for k in range(16):
            e = out[i, k]
            v = e.to_int() if isinstance(e, SBV) else e
            bit = core.SInt(z3.BV2Int(z3.Extract(k, k, words[i].t), is_signed=False))
            ctx.oblige("line_k_is_bit_k", core.eq(v, bit), detail={"i": i, "k": k})


def case_read_sync_file(ctx, xa, floor=True):
    """Reader.read_sync on a nidq file: 16 digital lines then the analog lines, floor (10th percentile PER LINE) removed and thresholded"""
    from checks import c01
    c01.case_read_sync(ctx, xa, floor=floor)


def _edges_oracle(ctx, x, n, step, name, got_idx, got_sign=None, polarity=None):
    """got_idx: concrete indices returned on this path; compare with the definition"""
    got = set(int(i) for i in got_idx)
    for i in range(1, n):
        d = x[i] - x[i - 1]
        if polarity is None:
            is_edge = or_(d >= step, -d >= step)
        elif polarity > 0:
            is_edge = d >= step
        else:
            is_edge = -d >= step
        if i in got:
            ctx.oblige(name + "_returned_index_is_an_edge", is_edge, detail={"i": i})
        else:
            ctx.oblige(name + "_every_edge_is_returned", not_(is_edge), detail={"i": i})
    ctx.oblige(name + "_indices_in_range", all(1 <= i < n for i in got))
    ctx.oblige(name + "_indices_sorted_unique", list(got_idx) == sorted(got))
    if got_sign is not None:
        for i, s in zip(got_idx, got_sign):
            ctx.oblige(name + "_sign_is_the_difference", core.eq(s, x[int(i)] - x[int(i) - 1]), detail={"i": int(i)})


def case_fronts_1d(ctx, n, binary):
    import ibldsp.utils as u
    lo, hi = (0, 1) if binary else (-(1 << 14), 1 << 14)
    xs = [ctx.int(f"x{i}", lo, hi) for i in range(n)]
    step = 1 if binary else ctx.int("step", 1, 1 << 15)
    x = arrays.mk(xs, tag=np.dtype(np.int16))
    ind, sign = u.fronts(x, step=step)
    if np.ndim(ind) == 1 and np.ndim(sign) == 1:
        _edges_oracle(ctx, xs, n, step, "fronts", list(ind), list(sign))
    r = u.rises(arrays.mk(xs, tag=np.dtype(np.int16)), step=step)
    f = u.falls(arrays.mk(xs, tag=np.dtype(np.int16)), step=-step)
    # a 1-D trace gives a 1-D array of sample indices, however many events there are (none, one, several)
    if not ctx.oblige("rises_and_falls_of_a_1d_trace_are_1d_index_arrays", np.ndim(r) == 1 and np.ndim(f) == 1 and np.ndim(ind) == 1 and np.ndim(sign) == 1,
                      detail={"rises_shape": str(np.shape(r)), "falls_shape": str(np.shape(f)), "fronts_shape": str(np.shape(ind))}):
        return
    _edges_oracle(ctx, xs, n, step, "rises", list(r), polarity=1)
    _edges_oracle(ctx, xs, n, step, "falls", list(f), polarity=-1)


def case_fronts_2d(ctx, rows, cols, axis):
    import ibldsp.utils as u
    xs = [[ctx.int(f"x{i}_{j}", 0, 1) for j in range(cols)] for i in range(rows)]
    x = arrays.mk([e for r in xs for e in r], shape=(rows, cols), tag=np.dtype(np.int8))
    ind, sign = u.fronts(x, axis=axis, step=1)
    got = {(int(a), int(b)): s for a, b, s in zip(ind[0], ind[1], sign)}
    for i in range(rows):
        for j in range(cols):
            if (axis in (1, -1) and j == 0) or (axis == 0 and i == 0):
                ctx.oblige("fronts2d_no_edge_reported_at_first_sample", (i, j) not in got)
                continue
            prev = xs[i][j - 1] if axis in (1, -1) else xs[i - 1][j]
            d = xs[i][j] - prev
            is_edge = or_(d >= 1, -d >= 1)
            if (i, j) in got:
                ctx.oblige("fronts2d_returned_index_is_an_edge", is_edge, detail={"i": i, "j": j})
                ctx.oblige("fronts2d_sign_is_the_difference", core.eq(got[(i, j)], d), detail={"i": i, "j": j})
            else:
                ctx.oblige("fronts2d_every_edge_is_returned", not_(is_edge), detail={"i": i, "j": j})
    r = u.rises(arrays.mk([e for rr in xs for e in rr], shape=(rows, cols), tag=np.dtype(np.int8)), axis=axis)
    # a 2-D array gives one row of indices per dimension, however many events there are
    if not ctx.oblige("rises_of_a_2d_array_are_a_2_by_k_index_array", np.ndim(r) == 2 and np.shape(r)[0] == 2, detail={"shape": str(np.shape(r))}):
        return
    gr = {(int(a), int(b)) for a, b in zip(r[0], r[1])}
    for i in range(rows):
        for j in range(cols):
            if (axis in (1, -1) and j == 0) or (axis == 0 and i == 0):
                ctx.oblige("rises2d_no_edge_reported_at_first_sample", (i, j) not in gr)
                continue
            prev = xs[i][j - 1] if axis in (1, -1) else xs[i - 1][j]
            ctx.oblige("rises2d_exact", core.eq(mkbool(z3.BoolVal((i, j) in gr)), (xs[i][j] - prev) >= 1) if False else
                       (((xs[i][j] - prev) >= 1) if (i, j) in gr else not_((xs[i][j] - prev) >= 1)), detail={"i": i, "j": j})


def case_rises_analog(ctx, n):
    import ibldsp.utils as u
    xs = [ctx.real(f"v{i}", -10, 10) for i in range(n)]
    thr = ctx.real("threshold", -5, 5)
    r = u.rises(arrays.mk(xs, tag=np.dtype(float)), step=thr, analog=True)
    if not ctx.oblige("analog_rises_are_a_1d_index_array", np.ndim(r) == 1, detail={"shape": str(np.shape(r))}):
        return
    got = set(int(i) for i in r)
    for i in range(1, n):
        crossing = and_(xs[i] > thr, not_(xs[i - 1] > thr))
        ctx.oblige("analog_rise_iff_upward_threshold_crossing", crossing if i in got else not_(crossing), detail={"i": i})
    # falling fronts are the rising fronts of the negated trace (documented mirror: falls(x, step) = rises(-x, -step)): a fall at i
    # when the trace gets below the threshold there, samples EQUAL to the threshold counting as not below
    fl = u.falls(arrays.mk(xs, tag=np.dtype(float)), step=thr, analog=True)
    if not ctx.oblige("analog_falls_are_a_1d_index_array", np.ndim(fl) == 1, detail={"shape": str(np.shape(fl))}):
        return
    gotf = set(int(i) for i in fl)
    for i in range(1, n):
        crossing = and_(xs[i] < thr, not_(xs[i - 1] < thr))
        ctx.oblige("analog_fall_is_the_rise_of_the_negated_trace", crossing if i in gotf else not_(crossing), detail={"i": i})


def cases(tier):
    b = bounds(tier)
    cs = [Case("split_sync", "case_split_sync", {"m": b["words"]}),
          Case("fronts_1d_int", "case_fronts_1d", {"n": b["fronts_len"], "binary": False}),
          Case("fronts_1d_ttl", "case_fronts_1d", {"n": b["fronts_len"] + 2, "binary": True}),
          Case("fronts_1d_two_samples", "case_fronts_1d", {"n": 2, "binary": False}),
          Case("fronts_1d_one_sample", "case_fronts_1d", {"n": 1, "binary": False}),
          Case("rises_analog", "case_rises_analog", {"n": 4 if tier == "quick" else 5})]
    for (r, c) in b["fronts_2d"]:
        for ax in (0, 1, -1):
            cs.append(Case(f"fronts_2d_{r}x{c}_axis{ax}", "case_fronts_2d", {"rows": r, "cols": c, "axis": ax}))
    for xa in (1, 2):
        cs.append(Case(f"read_sync_file_xa{xa}", "case_read_sync_file", {"xa": xa}))
    cs.append(Case("read_sync_file_xa1_floor_off", "case_read_sync_file", {"xa": 1, "floor": False}))
    return cs


def _replay_read_sync(case, params, cex):
    from checks import c01
    return c01.replay("read_sync_xa%d" % params["xa"], params, cex)


def twins(tier):
    return [
        Twin("floor_over_all_lines", "spikeglx", "analog -= np.percentile(analog, 10, axis=0)", "analog -= np.percentile(analog, 10)", ["read_sync_file_xa2"]),
        Twin("no_roll", "spikeglx", "np.flip(np.roll(out, 8, axis=1), axis=1)", "np.flip(out, axis=1)", ["split_sync"]),
        Twin("no_flip", "spikeglx", "np.flip(np.roll(out, 8, axis=1), axis=1)", "np.roll(out, 8, axis=1)", ["split_sync"]),
        Twin("fronts_no_shift", "ibldsp.utils", "    sign = d[tuple(ind)]\n    ind[axis] += 1", "    sign = d[tuple(ind)]\n    ind[axis] += 0", ["fronts_1d_int", "fronts_1d_ttl"]),
        Twin("fronts_strict", "ibldsp.utils", "np.where(np.abs(d) >= step)", "np.where(np.abs(d) > step)", ["fronts_1d_int", "fronts_1d_ttl"]),
        Twin("rises_shift_wrong_axis", "ibldsp.utils", "    ind = np.array(np.where(np.diff(x, axis=axis) >= step))\n    ind[axis] += 1",
             "    ind = np.array(np.where(np.diff(x, axis=axis) >= step))\n    ind[-1] += 1", ["fronts_2d_2x3_axis0", "fronts_2d_2x4_axis0", "fronts_2d_3x3_axis0"]),
        Twin("analog_ge", "ibldsp.utils", "x = (x > step).astype(np.float64)", "x = (x >= step).astype(np.float64)", ["rises_analog"]),
    ]


def replay(case, params, cex):
    m = cex["model"]
    if case.startswith("read_sync_file"):
        return _replay_read_sync(case, params, cex)
    if case == "split_sync":
        words = [m[f"w{i}"] for i in range(params["m"])]
        return f"""
import spikeglx
w = np.array({words}, dtype=np.uint16).astype(np.int16)
out = spikeglx.split_sync(w)
exp = np.array([[(int(x) & 0xffff) >> k & 1 for k in range(16)] for x in w])
print(w, out, exp, sep='\\n')
if out.shape != exp.shape or out.dtype != np.int8 or not np.array_equal(out, exp):
    reproduced(f'split_sync({{w.tolist()}}) is not the bit decomposition')
not_reproduced()
"""
    from fractions import Fraction
    if case.startswith("fronts_1d"):
        n = params["n"]
        xs = [m[f"x{i}"] for i in range(n)]
        step = m.get("step", 1)
        return f"""
import ibldsp.utils as u
x = np.array({xs}, dtype=np.int64); step = {step}
d = np.diff(x)
exp = np.where(np.abs(d) >= step)[0] + 1
ind, sign = u.fronts(x, step=step)
r = u.rises(x, step=step); f = u.falls(x, step=-step)
print(x, ind, sign, r, f)
ok = np.array_equal(ind, exp) and np.array_equal(sign, d[exp - 1]) and np.array_equal(r, np.where(d >= step)[0] + 1) and np.array_equal(f, np.where(-d >= step)[0] + 1)
if not ok: reproduced(f'fronts/rises/falls disagree with the edge definition on {{x.tolist()}} step={{step}}')
not_reproduced()
"""
    if case.startswith("fronts_2d"):
        r, c, ax = params["rows"], params["cols"], params["axis"]
        xs = [[m[f"x{i}_{j}"] for j in range(c)] for i in range(r)]
        return f"""
import ibldsp.utils as u
x = np.array({xs}, dtype=np.int8); axis = {ax}
d = np.diff(x.astype(int), axis=axis)
e = np.array(np.where(np.abs(d) >= 1)); sg = d[tuple(e)]; e[axis] += 1
ind, sign = u.fronts(x, axis=axis, step=1)
rr = u.rises(x, axis=axis)
er = np.array(np.where(d >= 1)); er[axis] += 1
print(x, ind, sign, rr, sep='\\n')
if not (np.array_equal(ind, e) and np.array_equal(sign, sg) and np.array_equal(rr, er)): reproduced('2-D fronts/rises disagree with the edge definition')
not_reproduced()
"""
    if case == "rises_analog":
        n = params["n"]
        xs = [float(Fraction(m[f"v{i}"])) for i in range(n)]
        thr = float(Fraction(m["threshold"]))
        return f"""
import ibldsp.utils as u
x = np.array({xs}); thr = {thr!r}
r = u.rises(x, step=thr, analog=True)
b = x > thr
exp = np.where(b[1:] & ~b[:-1])[0] + 1
print(x, thr, r, exp)
if not np.array_equal(r, exp): reproduced('analog rises differ from upward threshold crossings')
fl = u.falls(x, step=thr, analog=True)
bf = x < thr
expf = np.where(bf[1:] & ~bf[:-1])[0] + 1
print(fl, expf)
if not np.array_equal(fl, expf): reproduced(f'analog falls {{np.asarray(fl).tolist()}} differ from the rises of the negated trace {{expf.tolist()}} (samples equal to the threshold)')
not_reproduced()
"""
    return None

# level text addendum (cases added after the seeded-change rounds)
LEVEL_TEXT = LEVEL_TEXT + ' Also: Reader.read_sync on a nidq file (digital bits + per-line floor removal of the analog lines), twice on one reader.'
LEVEL_TEXT = LEVEL_TEXT + ' Round 6: casts of integers to 8-bit types wrap in the engine (front polarities beyond +-127 must survive), read_sync with the floor removal switched off.'
LEVEL_TEXT = LEVEL_TEXT + ' Round 7: index arrays keep their documented shape for exactly one event (1-D: (1,), 2-D: (2, 1)); analog falls equal the rises of the negated trace, samples equal to the threshold included.'
