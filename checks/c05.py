"""
C05 - Destriping: the solver-decidable clauses (referencing, per-group recursion, AGC invertibility,
outside-brain exclusion and order of the ADC re-alignment).  Attenuation in dB / spike amplitude are FFT and
Butterworth numerics and are outside.
"""
from fractions import Fraction

import numpy as np
import scipy
import scipy.signal
import z3

from symex import arrays, core, purity, stubs
from symex.core import SReal, all_, and_, any_, implies, ite, not_, or_
from symex.harness import Case, Twin

PROPERTY = "C05"
FUNCTIONS = ["ibldsp.voltage.car", "ibldsp.voltage.kfilt", "ibldsp.voltage.fk", "ibldsp.voltage.agc", "ibldsp.voltage.destripe", "ibldsp.voltage._get_destripe_parameters"]
ASSUMPTIONS = [
    "car runs exactly on symbolic reals (median = sorting network, mean = exact sum)",
    "in kfilt / fk / agc / destripe the DSP primitives (fourier.convolve, scipy.signal.sosfiltfilt, np.fft.fft2/ifft2, fourier.fshift, interpolate_bad_channels) are uninterpreted functions whose NAME carries their parameters "
    "(filter coefficients, AGC window, shifts) and whose arguments are all input samples: two calls agree iff they get the same data and the same parameters",
    "the AGC smoothing fourier.convolve(|x|, w) with the normalised Hann window is non-negative (contract added to the solver)",
    "channel groups / labels are symbolic (np.unique / np.where fork over them); floats as exact reals",
]
OUTSIDE = [">= 40 dB attenuation of a common-mode stripe, >= 90 % spike amplitude, size and sign of the fractional ADC delays (FFT / Butterworth numerics: not encodable)",
           "arrays larger than the stated bound"]
EXPLANATION = "group labels fork the path; equalities between grouped and per-group filtering are decided by congruence."
LEVEL_TEXT = ("For all real data and all groupings/labels within the bound z3 decides: the median (mean) of every group of car's output is zero at every sample; car/kfilt/fk with channel groups equal the same function on each group alone with the "
              "same filter, gain-control and operator settings; AGC returns data x gain == input and leaves dead rows untouched; destripe applies high-pass -> ADC re-alignment (+sample_shift, time axis) -> interpolation -> spatial filter in that order, "
              "never passes an outside-brain row to the spatial filter nor overwrites it, and replaces exactly the other rows by the filter output.")
LEVEL_NOTE = "Trusted: z3 (LRA/NRA/EUF), SymArray model, the uninterpreted-primitive contracts listed in the assumptions."

TRACE = []


def bounds(tier):
    return {"nc": 4 if tier == "quick" else 6, "ns": 2}


# ----------------------------------------------------------------------------- uninterpreted primitives
def uf_op(name, x, nonneg=False):
    """element (i,j) of the result = F_name(i, j, all elements of x)"""
    X = np.asarray(arrays._plain(x), dtype=object) if isinstance(x, np.ndarray) else np.asarray(x, dtype=object)
    flat = [core._as_real(e).t for e in X.ravel().tolist()]
    f = core.ufun("P_" + name + "_" + "x".join(map(str, X.shape)), z3.IntSort(), *([z3.RealSort()] * len(flat)), z3.RealSort())
    out = []
    ctx = core.cur()
    for k in range(X.size):
        t = f(z3.IntVal(k), *flat)
        if nonneg:
            ctx.solver.add(t >= 0)
        out.append(SReal(t))
    return arrays.mk(out, shape=X.shape, tag=np.dtype(float))


def _dg(a):
    import hashlib
    a = np.ascontiguousarray(np.asarray(a, dtype=float))
    return hashlib.sha1(a.tobytes() + str(a.shape).encode()).hexdigest()[:10]


def convolve_stub(x, w, mode="full", gpu=False):
    """AGC smoothing of |x| with the normalised Hann window: non-negative, and a row's output vanishes only if the row does"""
    TRACE.append(("convolve", _dg(w)))
    out = uf_op(f"conv_{mode}_{_dg(w)}", x, nonneg=True)
    X = np.asarray(arrays._plain(x), dtype=object)
    if X.ndim == 2:
        ctx = core.cur()
        for i in range(X.shape[0]):
            so = z3.Sum([core._as_real(e).t for e in out[i].tolist()]) if X.shape[1] > 1 else core._as_real(out[i, 0]).t
            allzero = z3.And(*[core._as_real(e).t == 0 for e in X[i].tolist()])
            ctx.solver.add(z3.Implies(so == 0, allzero))
    return out


def sosfiltfilt_stub(sos, x, axis=-1, **k):
    TRACE.append(("sosfiltfilt", _dg(sos), axis))
    if not arrays.has_sym(x):
        return scipy.signal.sosfiltfilt(sos, np.asarray(arrays.demote(arrays._plain(x)), dtype=float), axis=axis)
    return uf_op(f"sos_{_dg(sos)}_ax{axis % np.ndim(x)}", x)


def fft2_stub(x, *a, **k):
    return _Spec2(x, [])


class _Spec2:
    __array_priority__ = 9000

    def __init__(self, x, mult):
        self.x, self.mult = x, mult

    def __rmul__(self, o):
        return _Spec2(self.x, self.mult + [_dg(o)])

    __mul__ = __rmul__


def ifft2_stub(S, *a, **k):
    TRACE.append(("fk_mask", tuple(S.mult)))
    return uf_op("fk_" + "_".join(S.mult), S.x)


def fshift_stub(w, s, axis=-1, ns=None):
    TRACE.append(("fshift", _dg(s), axis))
    return uf_op(f"fshift_{_dg(s)}_ax{axis % np.ndim(w)}", w)


def interp_stub(data, channel_labels=None, x=None, y=None, **k):
    lab = arrays.concretize_values(np.asarray(arrays._plain(channel_labels), dtype=object)) if arrays.has_sym(channel_labels) else np.asarray(channel_labels)
    TRACE.append(("interpolate", tuple(float(v) for v in lab)))
    return uf_op("interp_" + _dg(lab), data)


def setup():
    import ibldsp.voltage as v
    import ibldsp.fourier as f
    arrays.patch_module(v)

    class _FFT:
        fft2 = staticmethod(fft2_stub)
        ifft2 = staticmethod(ifft2_stub)

    class _NPv:
        fft = _FFT()

        def __getattr__(self, n):
            return getattr(arrays.NP, n)
    v.np = _NPv()
    v.fourier = stubs.Namespace(f, convolve=convolve_stub, fshift=fshift_stub)
    v.scipy = stubs.Namespace(scipy, signal=stubs.Namespace(scipy.signal, sosfiltfilt=sosfiltfilt_stub))


def _data(ctx, nc, ns, lo=None, hi=None):
    rows = [[ctx.real(f"x{c}_{t}", lo, hi) for t in range(ns)] for c in range(nc)]
    return rows, arrays.mk([e for r in rows for e in r], shape=(nc, ns), tag=np.dtype(float))


def _groups(ctx, nc, k=2):
    g = [ctx.int(f"g{c}", 0, k - 1) for c in range(nc)]
    return g, arrays.mk(list(g), tag=np.dtype(np.int64))


def case_car(ctx, nc, ns, operator, grouped):
    import ibldsp.voltage as v
    rows, x = _data(ctx, nc, ns)
    b_x = purity.snap(x)
    if grouped:
        g, coll = _groups(ctx, nc)
        out = ctx.call("car", v.car, x, collection=coll, operator=operator)
        gv = [int(ctx.concretize(core._it(e))) if isinstance(e, core.Sym) else int(e) for e in g]
        again = ctx.call("car", v.car, x, collection=coll, operator=operator)
    else:
        out = ctx.call("car", v.car, x, operator=operator)
        gv = [0] * nc
        again = ctx.call("car", v.car, x, operator=operator)
    purity.oblige_same_result(ctx, "second_identical_call_gives_the_same_result", out, again)
    if not ctx.oblige("car_shape", tuple(out.shape) == (nc, ns)):
        return
    for grp in sorted(set(gv)):
        sel = [c for c in range(nc) if gv[c] == grp]
        for t in range(ns):
            col = [out[c, t] for c in sel]
            if operator == "median":
                s = arrays._cswap_sorted(col)
                n = len(s)
                med = s[n // 2] if n % 2 else (s[n // 2 - 1] + s[n // 2]) / 2
                ctx.oblige("group_median_is_zero_at_every_sample", core.eq(med, 0), detail={"group": grp, "members": sel, "t": t, "operator": operator, "median": med})
            else:
                tot = 0
                for e in col:
                    tot = tot + e
                ctx.oblige("group_mean_is_zero_at_every_sample", core.eq(tot, 0), detail={"group": grp, "members": sel, "t": t, "operator": operator, "sum": tot})
        if grouped:
            sub = arrays.mk([rows[c][t] for c in sel for t in range(ns)], shape=(len(sel), ns), tag=np.dtype(float))
            alone = v.car(sub, operator=operator)
            ctx.oblige("grouped_equals_each_group_alone", all_([core.eq(out[c, t], alone[i, t]) for i, c in enumerate(sel) for t in range(ns)]), detail={"group": grp, "operator": operator})


def case_group_recursion(ctx, fn, nc, ns, settings):
    """f(x, collection=c, **settings)[sel] == f(x[sel], **settings) for kfilt / fk"""
    import ibldsp.voltage as v
    rows, x = _data(ctx, nc, ns, -100, 100)
    g, coll = _groups(ctx, nc)
    f = getattr(v, fn)
    xin = arrays.mk([e for r in rows for e in r], shape=(nc, ns), tag=np.dtype(float))
    out = ctx.call(fn, f, xin, collection=coll, **settings)
    gv = [int(ctx.concretize(core._it(e))) if isinstance(e, core.Sym) else int(e) for e in g]
    for grp in sorted(set(gv)):
        sel = [c for c in range(nc) if gv[c] == grp]
        sub = arrays.mk([rows[c][t] for c in sel for t in range(ns)], shape=(len(sel), ns), tag=np.dtype(float))
        alone_settings = dict(settings)
        if fn == "kfilt" and settings.get("ntr_pad"):
            # groups are filtered without lateral padding or apodisation (they may be shorter than the pad), whatever was asked for the whole array
            alone_settings.update(ntr_pad=0, ntr_tap=None)
        alone = ctx.call(fn + "_alone", f, sub, **alone_settings)
        ctx.oblige("grouped_filter_equals_filter_of_each_group_with_same_settings", all_([core.eq(out[c, t], alone[i, t]) for i, c in enumerate(sel) for t in range(ns)]),
                   detail={"fn": fn, "group": grp, "members": sel, "settings": str(settings)[:120]})


def case_agc(ctx, nc, ns):
    import ibldsp.voltage as v
    rows, x = _data(ctx, nc, ns, -100, 100)
    xin = arrays.mk([e for r in rows for e in r], shape=(nc, ns), tag=np.dtype(float))
    eps = ctx.real("epsilon", Fraction(1, 10 ** 8), Fraction(1, 2))          # the whitening term: any positive value (default 1e-8)
    res = ctx.call("agc", v.agc, xin, wl=0.01, si=0.002, epsilon=eps)
    out, gain = res
    ctx.oblige("agc_shapes", tuple(out.shape) == (nc, ns) and tuple(gain.shape) == (nc, ns))
    for c in range(nc):
        dead = all_([core.eq(gain[c, t], 0) for t in range(ns)])
        for t in range(ns):
            ctx.oblige("agc_data_times_gain_is_the_input", core.eq(out[c, t] * gain[c, t], rows[c][t]), detail={"c": c, "t": t, "gain": gain[c, t]})
        ctx.oblige("agc_gain_non_negative", all_([gain[c, t] >= 0 for t in range(ns)]))


def case_destripe(ctx, nc, ns, k_filter, header="np1"):
    import ibldsp.voltage as v
    import neuropixel
    rows, x = _data(ctx, nc, ns, -100, 100)
    labels = [ctx.int(f"label{c}", 0, 3) for c in range(nc)]
    lab = arrays.mk(list(labels), tag=np.dtype(float))
    h0 = neuropixel.trace_header(version=2 if header == "np2" else 1)
    h = {k: np.asarray(vv[:nc], dtype=float) for k, vv in h0.items()}
    if header == "np2":       # the header of another probe generation, the last sites of its ADC groups (the shifts differ from the NP1 table)
        h = {k: np.asarray(vv[-nc:], dtype=float) for k, vv in h0.items()}
    if header == "custom":    # a header assembled by hand: its own shifts are the ones to undo
        h["sample_shift"] = np.array([0.1, 0.7, 0.3, 0.9, 0.5][:nc])
    calls = []

    def spatial(name):
        def f(dat, **kw):
            d = np.asarray(arrays._plain(dat), dtype=object)
            calls.append((name, d.copy(), dict(kw)))
            return uf_op(name + "_" + str(sorted((k, str(vv)) for k, vv in kw.items()))[:50].replace(" ", ""), dat)
        return f
    v.kfilt = spatial("kfilt")
    v.car = spatial("car")
    v.interpolate_bad_channels = interp_stub
    del TRACE[:]
    xin = arrays.mk([e for r in rows for e in r], shape=(nc, ns), tag=np.dtype(float))
    if header == "np1":
        out = ctx.call("destripe", v.destripe, xin, 30000, h=h, neuropixel_version=1, channel_labels=lab, k_filter=k_filter)
    else:
        out = ctx.call("destripe", v.destripe, xin, 30000, h=h, channel_labels=lab, k_filter=k_filter)
    lv = [int(ctx.concretize(core._it(e))) if isinstance(e, core.Sym) else int(e) for e in labels]
    inside = [c for c in range(nc) if lv[c] != 3]
    outside = [c for c in range(nc) if lv[c] == 3]
    names = [t[0] for t in TRACE]
    ctx.oblige("order_highpass_then_shift_then_interpolation", names[:3] == ["sosfiltfilt", "fshift", "interpolate"], detail={"trace": names})
    fs_call = [t for t in TRACE if t[0] == "fshift"]
    ctx.oblige("shift_uses_each_channels_sample_shift_along_time", len(fs_call) == 1 and fs_call[0][1] == _dg(h["sample_shift"]) and fs_call[0][2] in (1, -1), detail={"trace": str(fs_call)})
    ctx.oblige("spatial_filter_called_once", len(calls) == 1 and calls[0][0] == ("kfilt" if k_filter else "car"), detail={"calls": [c[0] for c in calls]})
    if len(calls) != 1:
        return
    arg = calls[0][1]
    # what the spatial filter should see: the interpolated, shifted, high-passed data restricted to inside-brain rows
    import scipy.signal as ss
    sos = ss.butter(N=3, Wn=300 / 30000 * 2, btype="highpass", output="sos")
    pre = interp_stub(fshift_stub(sosfiltfilt_stub(sos, xin), h["sample_shift"], axis=1), np.array(lv, dtype=float), h["x"], h["y"])
    if not ctx.oblige("outside_brain_rows_never_reach_the_spatial_filter", arg.shape == (len(inside), ns), detail={"shape": str(arg.shape), "inside": inside, "labels": lv}):
        return
    for i, c in enumerate(inside):
        for t in range(ns):
            ctx.oblige("spatial_filter_sees_exactly_the_inside_brain_rows", core.eq(arg[i, t], pre[c, t]), detail={"row": c, "labels": lv})
    expected_sp = uf_op(calls[0][0] + "_" + str(sorted((k, str(vv)) for k, vv in calls[0][2].items()))[:50].replace(" ", ""), arg)
    for i, c in enumerate(inside):
        for t in range(ns):
            ctx.oblige("inside_rows_are_the_filter_output", core.eq(out[c, t], expected_sp[i, t]), detail={"row": c, "labels": lv})
    for c in outside:
        for t in range(ns):
            ctx.oblige("outside_brain_rows_are_not_overwritten_by_the_filter", core.eq(out[c, t], pre[c, t]), detail={"row": c, "labels": lv})


KF = [{"lagc": 300, "ntr_pad": 0, "ntr_tap": None, "butter_kwargs": {"N": 3, "Wn": 0.1, "btype": "highpass"}},
      {"lagc": 7, "ntr_pad": 0, "ntr_tap": None, "butter_kwargs": {"N": 3, "Wn": 0.01, "btype": "highpass"}},
      {"lagc": 0, "ntr_pad": 0, "ntr_tap": None, "butter_kwargs": {"N": 2, "Wn": 0.2, "btype": "highpass"}},
      {"lagc": 300, "ntr_pad": 2, "ntr_tap": None, "butter_kwargs": {"N": 3, "Wn": 0.1, "btype": "highpass"}}]
FK = [{"si": 0.002, "dx": 1, "vbounds": [1, 2], "btype": "highpass", "ntr_pad": 0, "lagc": 0.5},
      {"si": 0.002, "dx": 1, "vbounds": [1, 2], "btype": "lowpass", "ntr_pad": 0, "lagc": 0.5},
      {"si": 0.002, "dx": 1, "vbounds": [1, 2], "btype": "highpass", "ntr_pad": 0, "lagc": 0.1},
      {"si": 0.002, "dx": 1, "vbounds": [1, 2], "btype": "highpass", "ntr_pad": 0, "lagc": 0.5, "kfilt": {"bounds": [0.05, 0.1], "btype": "highpass"}}]


def cases(tier):
    b = bounds(tier)
    cs = []
    for op in ("median", "average"):
        cs.append(Case(f"car_{op}_plain", "case_car", {"nc": b["nc"], "ns": b["ns"], "operator": op, "grouped": False}))
        cs.append(Case(f"car_{op}_grouped", "case_car", {"nc": b["nc"], "ns": b["ns"], "operator": op, "grouped": True}, timeout_s=1500))
    for i, st in enumerate(KF):
        cs.append(Case(f"kfilt_groups_{i}", "case_group_recursion", {"fn": "kfilt", "nc": 3, "ns": 2, "settings": st}, timeout_s=1500))
    for i, st in enumerate(FK):
        cs.append(Case(f"fk_groups_{i}", "case_group_recursion", {"fn": "fk", "nc": 3, "ns": 2, "settings": st}, timeout_s=1500))
    cs.append(Case("agc", "case_agc", {"nc": 2, "ns": 2}, timeout_s=1500))
    for kf in (True, False):
        cs.append(Case(f"destripe_{'kfilt' if kf else 'car'}", "case_destripe", {"nc": b["nc"], "ns": 2, "k_filter": kf}, timeout_s=1500))
    cs.append(Case("destripe_car_np2_header", "case_destripe", {"nc": b["nc"], "ns": 2, "k_filter": False, "header": "np2"}, timeout_s=1500))
    cs.append(Case("destripe_kfilt_custom_header", "case_destripe", {"nc": b["nc"], "ns": 2, "k_filter": True, "header": "custom"}, timeout_s=1500))
    return cs


def twins(tier):
    m = "ibldsp.voltage"
    return [
        Twin("median_over_time", m, "        x = x - np.median(x, axis=0)", "        x = x - np.median(x, axis=1)[:, np.newaxis]", ["car_median_plain", "car_median_grouped"]),
        Twin("labels_eq_3", m, "        inside_brain = np.where(channel_labels != 3)[0]\n        x[inside_brain, :] = spatial_fcn(x[inside_brain, :])  # apply the k-filter",
             "        inside_brain = np.where(channel_labels == 3)[0]\n        x[inside_brain, :] = spatial_fcn(x[inside_brain, :])  # apply the k-filter", ["destripe_kfilt", "destripe_car"]),
        Twin("shift_after_spatial", m, "    if neuropixel_version is not None:\n        x = fourier.fshift(x, h[\"sample_shift\"], axis=1)\n",
             "", ["destripe_kfilt"]),
        Twin("shift_wrong_axis", m, 'x = fourier.fshift(x, h["sample_shift"], axis=1)', 'x = fourier.fshift(x.T, h["sample_shift"][:x.shape[1]] if False else h["sample_shift"][:1], axis=0).T', ["destripe_kfilt"]),
        Twin("agc_divides_twice", m, "    x[~dead_channels, :] = x[~dead_channels, :] / gain[~dead_channels, :]\n", "    x[~dead_channels, :] = x[~dead_channels, :] / gain[~dead_channels, :] / 2\n", ["agc"]),
        Twin("kfilt_groups_drop_butter", m, "                collection=None,\n                butter_kwargs=butter_kwargs,\n", "                collection=None,\n", ["kfilt_groups_1", "kfilt_groups_2"]),
        Twin("kfilt_groups_drop_lagc", m, "                ntr_tap=None,\n                lagc=lagc,\n", "                ntr_tap=None,\n", ["kfilt_groups_1", "kfilt_groups_2"]),
        Twin("fk_groups_drop_btype", m, "                btype=btype,\n                ntr_tap=ntr_tap,", "                ntr_tap=ntr_tap,", ["fk_groups_1"]),
        Twin("car_groups_drop_operator", m, "car(x=x[sel, :], collection=None, operator=operator, **kwargs)", "car(x=x[sel, :], collection=None, **kwargs)", ["car_average_grouped"]),
    ]


def replay(case, params, cex):
    m = cex["model"]
    from fractions import Fraction
    F = lambda v: float(Fraction(str(v)))
    if case.startswith("car"):
        nc, ns = params["nc"], params["ns"]
        x = [[F(m[f"x{c}_{t}"]) for t in range(ns)] for c in range(nc)]
        g = [m.get(f"g{c}", 0) for c in range(nc)]
        return f"""
import ibldsp.voltage as v
x = np.array({x}); g = np.array({g}); op = {params['operator']!r}; grouped = {params['grouped']}
out = v.car(x.copy(), collection=g if grouped else None, operator=op)
bad = []
for grp in np.unique(g):
    sel = g == grp
    stat = np.median(out[sel], axis=0) if op == 'median' else np.mean(out[sel], axis=0)
    if np.any(np.abs(stat) > 1e-9 * (1 + np.abs(x).max())): bad.append((int(grp), op, stat.tolist()))
    if grouped and not np.allclose(out[sel], v.car(x[sel].copy(), operator=op)): bad.append(('group alone differs', int(grp)))
print(out, bad)
if bad: reproduced(f'car(operator={{op}}, grouped={{grouped}}): per-group {{op}} of the output is not zero / differs from the group alone: {{bad}}')
not_reproduced()
"""
    if case.startswith(("kfilt_groups", "fk_groups")):
        fn = params["fn"]
        st = params["settings"]
        return f"""
import ibldsp.voltage as v
fn = getattr(v, {fn!r}); settings = {st!r}
rs = np.random.default_rng(0)
nc, ns = 80, 400
x = rs.normal(size=(nc, ns)); x[:, 100:140] += 5 * np.sin(np.arange(40))[None, :]
g = (np.arange(nc) >= 40).astype(int)
out = fn(x.copy(), collection=g, **settings)
bad = []
alone_settings = dict(settings)
if {fn!r} == 'kfilt' and settings.get('ntr_pad'): alone_settings.update(ntr_pad=0, ntr_tap=None)      # groups are neither padded nor apodised
for grp in (0, 1):
    alone = fn(x[g == grp].copy(), **alone_settings)
    if not np.allclose(out[g == grp], alone, rtol=1e-6, atol=1e-9): bad.append((grp, float(np.max(np.abs(out[g == grp] - alone)))))
print(bad)
if bad: reproduced(f'{fn} with channel groups differs from {fn} on each group alone with the same settings {{settings}}: {{bad}}')
not_reproduced()
"""
    if case == "agc":
        eps = float(Fraction(str(m.get("epsilon", "1/100000000"))))
        nc_, ns_ = params["nc"], params["ns"]
        xm = [[float(Fraction(str(m.get(f"x{c}_{t}", 0)))) for t in range(ns_)] for c in range(nc_)]
        return f"""
import ibldsp.voltage as v
# 1. the witness itself (same window as in the check)
xw = np.array({xm}, dtype=float)
out, gain = v.agc(xw.copy(), wl=0.01, si=0.002, epsilon={eps!r})
err = np.max(np.abs(out * gain - xw))
print('witness', xw.tolist(), out.tolist(), gain.tolist(), err)
if err > 1e-9 * max(1.0, np.abs(xw).max()): reproduced(f'agc(epsilon={eps!r}) on {{xw.tolist()}}: data x gain differs from the input by {{err}}')
# 2. longer random traces, one dead channel, one channel whose samples sum to zero
rs = np.random.default_rng(0)
x = rs.normal(size=(6, 300)); x[2] = 0; x[4] = np.tile([1.0, -1.0], 150)
for eps in (1e-8, {eps!r}):
    out, gain = v.agc(x.copy(), wl=0.05, si=0.002, epsilon=eps)
    err = np.max(np.abs(out * gain - x))
    print(eps, err)
    if err > 1e-9 or np.any(out[2] != 0): reproduced(f'agc(epsilon={{eps}}): data x gain differs from the input by {{err}}')
not_reproduced()
"""
    if case.startswith("destripe"):
        nc = params["nc"]
        lab = [m.get(f"label{c}", 0) for c in range(nc)]
        return f"""
import ibldsp.voltage as v, neuropixel
calls = []
def spy(name, real):
    def f(dat, **kw):
        calls.append((name, np.array(dat, copy=True))); return real(dat, **kw)
    return f
order = []
real_fshift = v.fourier.fshift; real_interp = v.interpolate_bad_channels; real_sos = v.scipy.signal.sosfiltfilt
v.kfilt = spy('kfilt', lambda d, **kw: d * 0 + 7.0); v.car = spy('car', lambda d, **kw: d * 0 + 7.0)
shifts_seen = []
def tracer(name, real):
    def f(*a, **kw):
        order.append(name)
        if name == 'fshift': shifts_seen.append(np.array(a[1], copy=True))
        return real(*a, **kw)
    return f
v.fourier.fshift = tracer('fshift', real_fshift); v.interpolate_bad_channels = tracer('interpolate', real_interp); v.scipy.signal.sosfiltfilt = tracer('sosfiltfilt', real_sos)
nc = 96; labels = np.zeros(nc); lab = {lab}
for i, l in enumerate(lab): labels[10 * i + 3] = l
header = {params.get('header', 'np1')!r}
h = neuropixel.trace_header(version=2 if header == 'np2' else 1); h = {{k: (vv[-nc:] if header == 'np2' else vv[:nc]) for k, vv in h.items()}}
if header == 'custom': h['sample_shift'] = np.tile([0.1, 0.7, 0.3, 0.9, 0.5, 0.2], nc // 6)
rs = np.random.default_rng(0); x = rs.normal(size=(nc, 600))
if header == 'np1': out = v.destripe(x.copy(), 30000, h=h, neuropixel_version=1, channel_labels=labels, k_filter={params['k_filter']})
else: out = v.destripe(x.copy(), 30000, h=h, channel_labels=labels, k_filter={params['k_filter']})
inside = np.where(labels != 3)[0]; outside = np.where(labels == 3)[0]
bad = []
if len(calls) != 1 or calls[0][1].shape[0] != inside.size: bad.append(('spatial filter saw', [c[1].shape for c in calls], 'expected rows', inside.size))
if not np.all(out[inside] == 7.0): bad.append('inside rows are not the filter output')
if outside.size and np.any(out[outside] == 7.0): bad.append('outside-brain rows overwritten by the filter')
want = ['sosfiltfilt', 'fshift'] + (['interpolate'] if 'interpolate' in order else [])
if len(shifts_seen) != 1 or shifts_seen[0].shape != np.shape(h['sample_shift']) or not np.array_equal(shifts_seen[0], h['sample_shift']): bad.append("the ADC re-alignment does not use the header's sample_shift")
if order[:len(want)] != want: bad.append(('order of the steps', order, 'expected: high-pass, ADC re-alignment, then interpolation of the bad channels'))
print(bad)
if bad: reproduced(str(bad))
not_reproduced()
"""
    return None

# level text addendum (cases added after the seeded-change rounds)
LEVEL_TEXT = LEVEL_TEXT + ' Also: AGC for every whitening term in [1e-8, 1/2], padded k-filter groups, car called twice.'
LEVEL_TEXT = LEVEL_TEXT + " Round 6: destripe with the header of another probe generation / a hand-made header and neuropixel_version left at its default (the shift undone is the header's)."
