#!/bin/sh
# Idempotent offline bootstrap of the overlay venv used by every check.
# /venv (the repository's environment) is left untouched; the overlay sees its
# site-packages through a .pth file and adds z3-solver / cvc5 / crosshair-tool
# from the offline wheelhouse.
set -e
V=/verif/.venv
if [ ! -x "$V/bin/python" ] || ! "$V/bin/python" -c "import z3, numpy" >/dev/null 2>&1; then
  rm -rf "$V"
  /venv/bin/python -m venv "$V"
  SP=$("$V/bin/python" -c "import sysconfig; print(sysconfig.get_paths()['purelib'])")
  echo "import site; site.addsitedir('/venv/lib/python3.12/site-packages')" > "$SP/_overlay.pth"
  PIP_NO_INDEX=1 "$V/bin/pip" install -q --no-index --find-links /opt/veriftools/wheels z3-solver cvc5 crosshair-tool >/dev/null 2>&1 || \
  PIP_NO_INDEX=1 "$V/bin/pip" install -q --no-index --find-links /opt/veriftools/wheels z3-solver cvc5
fi
"$V/bin/python" -c "import z3, numpy, scipy; print('overlay ok: z3', z3.get_version_string(), 'numpy', numpy.__version__)"
