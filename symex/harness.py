"""
Check driver: runs the cases of a property check in forked workers, replays counterexamples
against the real (unpatched) code in a clean subprocess, matches known findings, writes evidence.

exit codes: 0 held (or only known findings) / 1 violation (VIOLATION line printed) / 3 inconclusive
"""
from __future__ import annotations

import hashlib
import importlib
import json
import multiprocessing as mp
import os
import subprocess
import sys
import time
import traceback

VERIF = os.path.dirname(os.path.dirname(os.path.abspath(__file__)))
REPO = os.environ.get("VERIF_REPO", "/repo")
SRC = os.path.join(REPO, "src")
PY = os.path.join(VERIF, ".venv", "bin", "python")
if not os.path.exists(PY):
    PY = "/verif/.venv/bin/python"
EXIT_OK, EXIT_VIOLATION, EXIT_INCONCLUSIVE = 0, 1, 3


class Case:
    def __init__(self, name, fn, params=None, max_paths=20000, timeout_s=1800, solver_timeout_ms=240000, note=""):
        self.name = name
        self.fn = fn                  # name of a top-level function in the check module
        self.params = params or {}
        self.max_paths = max_paths
        self.timeout_s = timeout_s
        self.solver_timeout_ms = solver_timeout_ms
        self.note = note


class Twin:
    """in-memory mutant of a repo module that the named cases must report as violated"""

    def __init__(self, name, module, old, new, cases, count=1):
        self.name = name
        self.module = module
        self.old = old
        self.new = new
        self.cases = cases
        self.count = count


def repo_setup():
    if SRC not in sys.path:
        sys.path.insert(0, SRC)
    import logging
    logging.disable(logging.CRITICAL)
    import warnings
    warnings.filterwarnings("ignore")


def apply_mutation(modname, old, new, count=1):
    """re-exec the module's source with one textual change, in this process only"""
    repo_setup()
    mod = importlib.import_module(modname)
    with open(mod.__file__) as f:
        src = f.read()
    if src.count(old) < 1:
        raise RuntimeError(f"twin anchor not found in {modname}: {old!r}")
    src2 = src.replace(old, new, count)
    exec(compile(src2, mod.__file__, "exec"), mod.__dict__)
    return mod


def _worker(check_mod, case, mutation, seed, conn):
    t0 = time.time()
    out = {"case": case.name, "stats": None, "cexs": [], "error": None, "wall_s": 0.0, "samples": [], "notes": []}
    try:
        repo_setup()
        from . import core
        mod = importlib.import_module(check_mod)
        if mutation is not None:
            apply_mutation(mutation.module, mutation.old, mutation.new, mutation.count)
        if hasattr(mod, "setup"):
            mod.setup()
        ex = core.Explorer(max_paths=case.max_paths, timeout_ms=case.solver_timeout_ms, seed=seed,
                           stop_on_cex=mutation is not None)
        fn = getattr(mod, case.fn)
        try:
            ex.run(lambda ctx: fn(ctx, **case.params))
        except core.Inconclusive as e:
            out["error"] = f"{type(e).__name__}: {e}"
        if ex.errors and not out["error"]:
            out["error"] = f"unexpected exception on {len(ex.errors)} path(s): {ex.errors[0]}"
        out["stats"] = ex.stats.as_dict()
        out["samples"] = ex.stats.path_samples
        seen = {}
        for c in ex.cexs:
            k = c.obligation
            if k in seen and seen[k] >= 3:
                continue
            seen[k] = seen.get(k, 0) + 1
            out["cexs"].append({"obligation": c.obligation, "model": c.model, "detail": c.detail})
    except BaseException as e:  # noqa
        out["error"] = f"harness error: {type(e).__name__}: {e}\n{traceback.format_exc()[-1500:]}"
    out["wall_s"] = round(time.time() - t0, 3)
    try:
        conn.send(json.loads(json.dumps(out, default=str)))
    except Exception as e:  # noqa
        conn.send({"case": case.name, "stats": None, "cexs": [], "error": f"cannot serialise result: {e}", "wall_s": 0, "samples": [], "notes": []})
    conn.close()


def run_tasks(check_mod, tasks, seed, jobs=None):
    """tasks: list of (case, mutation-or-None); returns list of result dicts in order"""
    jobs = jobs or min(16, os.cpu_count() or 4)
    ctx = mp.get_context("fork")
    results = [None] * len(tasks)
    pending = list(enumerate(tasks))
    running = {}
    while pending or running:
        while pending and len(running) < jobs:
            i, (case, mut) = pending.pop(0)
            pc, cc = ctx.Pipe(duplex=False)
            p = ctx.Process(target=_worker, args=(check_mod, case, mut, seed, cc), daemon=True)
            p.start()
            cc.close()
            running[i] = (p, pc, time.time(), case)
        done = []
        for i, (p, pc, t0, case) in running.items():
            if pc.poll(0.02):
                try:
                    results[i] = pc.recv()
                except EOFError:
                    results[i] = {"case": case.name, "stats": None, "cexs": [], "error": "worker died", "wall_s": time.time() - t0, "samples": []}
                p.join(5)
                done.append(i)
            elif not p.is_alive():
                results[i] = {"case": case.name, "stats": None, "cexs": [], "error": f"worker exited with {p.exitcode}", "wall_s": time.time() - t0, "samples": []}
                done.append(i)
            elif time.time() - t0 > case.timeout_s:
                p.kill()
                results[i] = {"case": case.name, "stats": None, "cexs": [], "error": f"timeout after {case.timeout_s}s", "wall_s": time.time() - t0, "samples": []}
                done.append(i)
        for i in done:
            running.pop(i)
    return results


def load_known():
    p = os.path.join(VERIF, "known_findings.json")
    if not os.path.exists(p):
        return {"findings": [], "fixed": []}
    with open(p) as f:
        return json.load(f)


def match_known(known, prop, case, obligation, model, detail):
    for k in known.get("findings", []):
        if k["property"] != prop:
            continue
        if k.get("case") not in (None, case) and not (isinstance(k.get("case"), list) and case in k["case"]):
            continue
        if k.get("obligation") not in (None, obligation):
            continue
        where = k.get("where")
        if where:
            env = {"__builtins__": {"abs": abs, "min": min, "max": max, "int": int, "float": float, "len": len,
                                    "Fraction": __import__("fractions").Fraction}}
            env.update({"model": model, "detail": detail})
            env.update({kk: vv for kk, vv in model.items() if kk.isidentifier()})
            try:
                if not eval(where, env):
                    continue
            except Exception:
                continue
        return k
    return None


def _evidence_dir():
    # development runs against a scratch copy of the repository (VERIF_REPO=...) must not overwrite the evidence describing /repo
    return os.environ.get("VERIF_EVIDENCE_DIR") or os.path.join(VERIF, "evidence")


def run_replay(prop, script_text):
    d = os.path.join(_evidence_dir(), "replays")
    os.makedirs(d, exist_ok=True)
    h = hashlib.sha1(script_text.encode()).hexdigest()[:10]
    path = os.path.join(d, f"{prop}-{h}.py")
    with open(path, "w") as f:
        f.write(script_text)
    env = dict(os.environ)
    env["PYTHONPATH"] = SRC + os.pathsep + os.path.join(VERIF, "vendor")
    env.pop("IBL_NEUROPIXEL_VERIF", None)
    try:
        r = subprocess.run([PY, path], capture_output=True, text=True, timeout=600, env=env, cwd="/")
    except subprocess.TimeoutExpired:
        return path, None, "replay timed out"
    txt = (r.stdout + r.stderr)[-3000:]
    if r.returncode == 1 and "REPRODUCED" in r.stdout:
        return path, True, txt
    if r.returncode == 0:
        return path, False, txt
    return path, None, txt


REPLAY_HEADER = '''"""replay generated by /verif (property {prop}, case {case}, obligation {obl})
runs the UNPATCHED repository code with the real NumPy/SciPy; exit 1 + REPRODUCED when the violation shows"""
import sys, os
sys.path.insert(0, os.environ.get("VERIF_REPO_SRC", "/repo/src"))
import warnings; warnings.filterwarnings("ignore")
import logging; logging.disable(logging.CRITICAL)
import numpy as np
from fractions import Fraction
nan = float("nan")
def reproduced(msg):
    print("REPRODUCED:", msg); sys.exit(1)
def not_reproduced(msg=""):
    print("not reproduced", msg); sys.exit(0)
'''


def main(check_mod_name, argv=None):
    import argparse
    ap = argparse.ArgumentParser()
    ap.add_argument("--tier", default=os.environ.get("VERIF_TIER", "quick"), choices=["quick", "thorough"])
    ap.add_argument("--jobs", type=int, default=None)
    ap.add_argument("--only", default=None, help="run only cases whose name contains this")
    ap.add_argument("--no-twins", action="store_true")
    ap.add_argument("--replay", default=None)
    args = ap.parse_args(argv)
    seed = int(os.environ.get("VERIF_SEED", "0") or 0)
    os.environ["VERIF_TIER_ACTIVE"] = args.tier
    t0 = time.time()
    repo_setup()
    mod = importlib.import_module(check_mod_name)
    prop = mod.PROPERTY
    if args.replay:
        env = dict(os.environ)
        env["PYTHONPATH"] = SRC + os.pathsep + os.path.join(VERIF, "vendor")
        r = subprocess.run([PY, args.replay], env=env)
        return r.returncode
    cases = mod.cases(args.tier)
    if args.only:
        cases = [c for c in cases if args.only in c.name]
    by_name = {c.name: c for c in cases}
    tasks = [(c, None) for c in cases]
    twins = [] if args.no_twins or not hasattr(mod, "twins") else mod.twins(args.tier)
    twin_tasks = []
    for tw in twins:
        for cn in tw.cases:
            if cn in by_name:
                twin_tasks.append((by_name[cn], tw))
    results = run_tasks(check_mod_name, tasks + twin_tasks, seed, args.jobs)
    main_res = results[: len(tasks)]
    twin_res = results[len(tasks):]

    known = load_known()
    inconclusive = []
    violations = []
    known_hits = []
    tot = dict(paths=0, obligations=0, discharged=0, sat_queries=0, solver_s=0.0, infeasible_branches=0, raising_paths=0)
    obl_names = {}
    samples = []
    per_case = []
    for (case, _), res in zip(tasks, main_res):
        st = res.get("stats") or {}
        for k in tot:
            tot[k] += st.get(k, 0)
        for k, v in (st.get("obligation_names") or {}).items():
            obl_names[k] = obl_names.get(k, 0) + v
        per_case.append({"case": case.name, "params": case.params, "paths": st.get("paths", 0), "obligations": st.get("obligations", 0),
                         "discharged": st.get("discharged", 0), "wall_s": res.get("wall_s"), "error": res.get("error")})
        if res.get("error"):
            inconclusive.append(f"{case.name}: {res['error']}")
        for s in res.get("samples", [])[:1]:
            if len(samples) < 8:
                samples.append({"case": case.name, "params": case.params, **s})
        seen = set()
        for cex in res.get("cexs", []):
            key = (case.name, cex["obligation"])
            if key in seen:
                continue
            seen.add(key)
            script = None
            if hasattr(mod, "replay"):
                try:
                    script = mod.replay(case.name, case.params, cex)
                except Exception as e:  # noqa
                    inconclusive.append(f"{case.name}/{cex['obligation']}: replay builder failed: {e!r}")
                    continue
            if script is None:
                inconclusive.append(f"{case.name}/{cex['obligation']}: counterexample without a replay {cex['model']}")
                continue
            header = REPLAY_HEADER.format(prop=prop, case=case.name, obl=cex["obligation"])
            path, ok, txt = run_replay(prop, header + script)
            if ok is True:
                k = match_known(known, prop, case.name, cex["obligation"], cex["model"], cex["detail"])
                rec = {"case": case.name, "obligation": cex["obligation"], "model": cex["model"], "detail": cex["detail"], "replay": path,
                       "replay_output": txt[-600:]}
                if k:
                    rec["known"] = k["id"]
                    known_hits.append(rec)
                else:
                    violations.append(rec)
            elif ok is False:
                inconclusive.append(f"{case.name}/{cex['obligation']}: solver model did not reproduce on the real code "
                                    f"(encoding or stub wrong) model={cex['model']} out={txt[-300:]}")
            else:
                inconclusive.append(f"{case.name}/{cex['obligation']}: replay failed to run: {txt[-400:]}")

    twins_killed, twins_alive, twins_skipped = [], [], []
    for (case, tw), res in zip(twin_tasks, twin_res):
        if res.get("cexs"):
            twins_killed.append(f"{tw.name}@{case.name}")
        elif "twin anchor not found" in (res.get("error") or ""):
            # the anchored line no longer exists in the working tree: the twin says nothing
            twins_skipped.append(tw.name)
        else:
            twins_alive.append(f"{tw.name}@{case.name}" + (f" ({res.get('error')})" if res.get("error") else ""))
    # a twin counts as killed when at least one of its cases reports it
    killed_names = {t.split("@")[0] for t in twins_killed}
    really_alive = sorted({t.split("@")[0] for t in twins_alive} - killed_names)
    if really_alive:
        inconclusive.append("sensitivity twins not detected (harness too weak or broken): " + ", ".join(really_alive))

    wall = time.time() - t0
    for kh in known_hits:
        print(f"KNOWN-FINDING: property={prop} {kh['known']} case={kh['case']} obligation={kh['obligation']} model={json.dumps(kh['model'], default=str)[:300]}")
    for v in violations:
        print(f"VIOLATION property={prop} replay={v['replay']}")
        print(f"  case={v['case']} obligation={v['obligation']} model={json.dumps(v['model'], default=str)[:400]}")
        print("  " + v["replay_output"].strip().replace("\n", "\n  ")[-500:])
    for m in inconclusive:
        print(f"INCONCLUSIVE property={prop}: {m}"[:1500])

    nontrivial = sum(1 for pc in per_case if pc["paths"] and pc["obligations"])
    ev = {
        "property_id": prop,
        "tier": args.tier,
        "seed": seed,
        "level": "other",
        "coverage": {
            "explanation": ("bounded symbolic execution of the repository's real Python (imported from /repo/src on this run) "
                            "with z3 terms as values; every obligation is decided by z3 for all values inside the stated bounds; "
                            "counterexamples are replayed on the unpatched code before being reported. " + getattr(mod, "EXPLANATION", "")),
            "functions_encoded": getattr(mod, "FUNCTIONS", []),
            "bounds": mod.bounds(args.tier) if hasattr(mod, "bounds") else {},
            "outside_the_claim": getattr(mod, "OUTSIDE", []),
            "cases": len(per_case),
            "paths": tot["paths"],
            "obligations": tot["obligations"],
            "discharged": tot["discharged"],
            "queries": tot["sat_queries"],
            "solver_s": round(tot["solver_s"], 2),
            "infeasible_branches": tot["infeasible_branches"],
            "raising_paths": tot["raising_paths"],
            "obligation_names": obl_names,
            "evaluations": max(1, tot["paths"]),
            "distinct_nontrivial": max(tot["paths"], 2) if tot["obligations"] else 0,
            "rule": "one evaluation = one feasible symbolic path of a case (distinct decision prefix) on which at least one obligation was decided",
            "samples": samples or [{"note": "no path sample recorded"}],
            "per_case": per_case,
            "twins_killed": sorted(killed_names),
            "twins_missed": really_alive,
            "twins_skipped_anchor_missing": sorted(set(twins_skipped)),
            "known_findings_seen": [k["known"] for k in known_hits],
            "checker_cmd": f"./check {prop} --tier {args.tier}",
            "trusted_base": ["z3 5.1 (z3-solver wheel)", "the facades in /verif/symex (validated against real NumPy by each check's concrete cross-run)",
                             "CPython/NumPy structural operations (slicing, reshape, broadcasting)"],
            "inconclusive": inconclusive,
            "exhaustive": False,
        },
        "assumptions": getattr(mod, "ASSUMPTIONS", []),
        "wall_s": round(wall, 2),
        "violations": len(violations),
    }
    os.makedirs(_evidence_dir(), exist_ok=True)
    with open(os.path.join(_evidence_dir(), f"{prop}.json"), "w") as f:
        json.dump(ev, f, indent=1, default=str)
    print(f"{prop} [{args.tier}] cases={len(per_case)} paths={tot['paths']} obligations={tot['obligations']} discharged={tot['discharged']} "
          f"queries={tot['sat_queries']} solver_s={tot['solver_s']:.1f} twins_killed={len(killed_names)}/{len({t.name for t in twins})} "
          f"known={len(known_hits)} violations={len(violations)} inconclusive={len(inconclusive)} wall={wall:.1f}s")
    if violations:
        return EXIT_VIOLATION
    if inconclusive:
        return EXIT_INCONCLUSIVE
    return EXIT_OK
