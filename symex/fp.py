"""
Exact IEEE lemmas are decided by cvc5 (python wheel 1.4.0) from the SMT-LIB2 text of a z3 goal;
z3 itself is the (slower) cross-check in the thorough tier.
"""
import time

import z3

from . import core


def cvc5_decide(assertions, timeout_s=600, logic="QF_BVFP"):
    """returns ('unsat'|'sat'|'unknown', model dict name->int for BV consts, seconds)"""
    import cvc5
    s = z3.Solver()
    for a in assertions:
        s.add(a)
    text = f"(set-logic {logic})\n(set-option :produce-models true)\n" + s.to_smt2()
    slv = cvc5.Solver()
    slv.setOption("tlimit-per", str(int(timeout_s * 1000)))
    p = cvc5.InputParser(slv)
    p.setStringInput(cvc5.InputLanguage.SMT_LIB_2_6, text, "goal")
    sm = p.getSymbolManager()
    t0 = time.time()
    res = "unknown"
    while True:
        c = p.nextCommand()
        if c.isNull():
            break
        r = str(c.invoke(slv, sm)).strip()
        if r in ("sat", "unsat", "unknown"):
            res = r
        elif r.startswith("(error"):
            return "unknown", {"error": r}, time.time() - t0
    model = {}
    if res == "sat":
        try:
            for t in sm.getDeclaredTerms():
                v = slv.getValue(t)
                sv = str(v)
                if sv.startswith("#b"):
                    model[str(t)] = int(sv[2:], 2)
                else:
                    model[str(t)] = sv
        except Exception as e:  # noqa
            model["_error"] = repr(e)
    return res, model, time.time() - t0


def oblige_fp(ctx, name, goal, bv_inputs, timeout_s=900, detail=None):
    """obligation over IEEE terms decided by cvc5: `goal` must hold for all values of the bit-vector inputs"""
    st = ctx.ex.stats
    st.obligations += 1
    st.obligation_names[name] = st.obligation_names.get(name, 0) + 1
    res, model, dt = cvc5_decide(list(ctx.solver.assertions()) + [z3.Not(goal)], timeout_s)
    st.solver_s += dt
    st.sat_queries += 1
    if res == "unsat":
        st.discharged += 1
        return True
    if res != "sat":
        raise core.SolverUnknown(f"cvc5 {res} on {name} after {dt:.0f}s {model}")
    m = {}
    for nme, t in bv_inputs.items():
        v = model.get(nme)
        if v is None:
            raise core.SolverUnknown(f"cvc5 model has no value for {nme}: {model}")
        # signed interpretation for signed words is done by the caller
        m[nme] = v
    cex = core.Counterexample(name, m, dict(detail or {}), list(ctx.decisions))
    ctx.cexs.append(cex)
    ctx.ex.cexs.append(cex)
    return False
