"""
Placeholder strings for symbolic numbers.

`str(SInt)` / f"{SInt}" give ONE private-use character standing for "some digit string";
`int()/float()/np.float32()` (rebound in the repo modules) decode it back to the symbolic value,
so the repo's real str/split/join/regex code runs on symbolic numbers.  The `re` facade widens
`[0-9]` to also accept these characters.
"""
import re as _re

from . import core

_BASE = 0xE000
_registry = []
_by_id = {}


def token_for(x):
    key = x.t.get_id()
    if key in _by_id:
        return chr(_BASE + _by_id[key])
    _by_id[key] = len(_registry)
    _registry.append(x)
    if len(_registry) > 6000:
        raise core.Unsupported("too many placeholder tokens")
    return chr(_BASE + len(_registry) - 1)


def _lookup(ch):
    i = ord(ch) - _BASE
    if 0 <= i < len(_registry):
        return _registry[i]
    return None


def has_token(s):
    return isinstance(s, str) and any(_BASE <= ord(c) < _BASE + len(_registry) for c in s)


def decode_int(s):
    s2 = s.strip()
    if len(s2) == 1:
        return _lookup(s2)
    if has_token(s2):
        raise core.Unsupported(f"int() of a string mixing digits and placeholders: {s2!r}")
    return None


def decode_float(s):
    s2 = s.strip()
    if len(s2) == 1:
        v = _lookup(s2)
        if v is not None:
            return core._as_real(v) if not isinstance(v, core.SReal) else v
        return None
    if has_token(s2):
        raise core.Unsupported(f"float() of a string mixing digits and placeholders: {s2!r}")
    return None


class ReFacade:
    """`re` with digit classes widened to accept one placeholder character"""

    def __init__(self):
        self._re = _re

    @staticmethod
    def _widen(pat):
        return pat.replace("[0-9", "[0-9-").replace("\\d", "[0-9-]")

    def findall(self, pat, s, *a):
        return _re.findall(self._widen(pat), s, *a)

    def fullmatch(self, pat, s, *a):
        return _re.fullmatch(self._widen(pat), s, *a)

    def match(self, pat, s, *a):
        return _re.match(self._widen(pat), s, *a)

    def search(self, pat, s, *a):
        return _re.search(self._widen(pat), s, *a)

    def __getattr__(self, n):
        return getattr(_re, n)


RE = ReFacade()
