"""
Stubs for SciPy primitives.  Each stub either has an exact textbook model (convolve, windows are the
real SciPy on concrete arguments) or is an uninterpreted operator on a lazy array (filters).
"""
from __future__ import annotations

import builtins
import types

import numpy as np
import scipy
import scipy.signal

from . import arrays, core, larr
from .arrays import SymArray
from .core import Unsupported


def conv_full(a, w):
    """textbook full convolution on lists of scalars"""
    n, m = len(a), len(w)
    out = []
    for t in range(n + m - 1):
        acc = 0
        for j in range(max(0, t - m + 1), min(n, t + 1)):
            x, y = a[j], w[t - j]
            if isinstance(x, core.SBool):
                x = x.num()
            if isinstance(x, (builtins.bool, np.bool_)):
                x = builtins.int(x)
            if not isinstance(x, core.Sym) and x == 0:
                continue
            acc = acc + x * y
        out.append(acc)
    return out


def signal_convolve(in1, in2, mode="full", method="auto"):
    if not (arrays.has_sym(in1) or arrays.has_sym(in2)):
        return scipy.signal.convolve(np.asarray(arrays.demote(arrays._plain(in1))), np.asarray(arrays.demote(arrays._plain(in2))), mode=mode)
    a = np.asarray(arrays._plain(in1), dtype=object)
    w = np.asarray(arrays._plain(in2), dtype=object)
    if a.ndim != 1 or w.ndim != 1:
        raise Unsupported("n-d symbolic convolution")
    full = conv_full(a.tolist(), w.tolist())
    n, m = len(a), len(w)
    if mode == "full":
        return arrays.mk(full)
    if mode == "same":
        start = (m - 1) // 2
        return arrays.mk(full[start:start + n])
    if mode == "valid":
        lo, hi = min(n, m), max(n, m)
        return arrays.mk(full[lo - 1:hi])
    raise ValueError(mode)


def np_convolve(a, v, mode="full"):
    A, V = np.asarray(arrays._plain(a), dtype=object), np.asarray(arrays._plain(v), dtype=object)
    n, m = len(A), len(V)
    full = conv_full(A.tolist(), V.tolist())
    if mode == "full":
        return arrays._result(arrays.mk(full))
    if mode == "same":
        # numpy: centred on the longer input
        L = max(n, m)
        start = (min(n, m) - 1) // 2
        return arrays._result(arrays.mk(full[start:start + L]))
    if mode == "valid":
        lo, hi = min(n, m), max(n, m)
        return arrays._result(arrays.mk(full[lo - 1:hi]))
    raise ValueError(mode)


arrays._reg(np.convolve, np_convolve)


def validate_convolve(seed=0):
    rng = np.random.default_rng(seed)
    for n, m in ((5, 3), (4, 7), (6, 5), (3, 9), (1, 3)):
        a = rng.integers(0, 2, n).astype(bool)
        w = rng.normal(size=m)
        for mode in ("same", "full"):
            real = scipy.signal.convolve(a, w, mode=mode)
            mine = signal_convolve(arrays.wrap(a.astype(object)), w, mode=mode) if False else \
                np.array([float(x) for x in _model_concrete(a, w, mode)])
            if real.shape != mine.shape or not np.allclose(real, mine, atol=1e-12):
                raise Unsupported(f"convolve stub disagrees with SciPy for n={n} m={m} mode={mode}")
        x = rng.normal(size=n)
        for mode in ("same", "full", "valid"):
            real = np.convolve(w, x, mode=mode)
            full = conv_full(w.tolist(), x.tolist())
            if mode == "same":
                st = (min(n, m) - 1) // 2
                mine = np.array(full[st:st + max(n, m)], dtype=float)
            elif mode == "full":
                mine = np.array(full, dtype=float)
            else:
                mine = np.array(full[min(n, m) - 1:max(n, m)], dtype=float)
            if real.shape != mine.shape or not np.allclose(real, mine, atol=1e-12):
                raise Unsupported(f"np.convolve stub disagrees with NumPy for n={n} m={m} mode={mode}")


def _model_concrete(a, w, mode):
    full = conv_full([int(x) for x in a], list(w))
    n, m = len(a), len(w)
    if mode == "full":
        return full
    start = (m - 1) // 2
    return full[start:start + n]


class Namespace(types.SimpleNamespace):
    """attribute bag standing for a module; unknown attributes fall through to the real module"""

    def __init__(self, real=None, **kw):
        super().__init__(**kw)
        self.__dict__["_real"] = real

    def __getattr__(self, n):
        real = self.__dict__.get("_real")
        if real is None:
            raise AttributeError(n)
        return getattr(real, n)


def scipy_facade(**signal_overrides):
    sig = Namespace(scipy.signal, convolve=signal_convolve, **signal_overrides)
    return Namespace(scipy, signal=sig)
