import sys

from . import harness


def main():
    if len(sys.argv) < 2:
        print("usage: check <PROPERTY> [--tier quick|thorough]")
        return 3
    prop = sys.argv[1]
    modname = "checks." + prop.lower()
    sys.path.insert(0, harness.VERIF)
    return harness.main(modname, sys.argv[2:])


if __name__ == "__main__":
    sys.exit(main())
