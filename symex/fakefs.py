"""
Symbolic file system: per file `exists` (bool | SBool), `size` (int | SInt), `content` (anything: a tag,
an array, a list of written records).  `FakePath` stands for pathlib.Path inside the repo modules,
`fake_open` for the builtin open, and every mutating call is a possible *fault point*
(`fs.fault_at = k` raises OSError at the k-th mutating operation).
"""
from __future__ import annotations

import builtins
import fnmatch
import posixpath

from . import core
from .core import SBool, SInt, Sym, Unsupported, ite, mkbool


class InjectedFault(OSError):
    pass


class InjectedInterrupt(BaseException):
    """an interruption that is NOT an Exception (Ctrl-C, SystemExit, a kill while Python unwinds): `except Exception` clean-up does not see it"""


class File:
    def __init__(self, exists=True, size=0, content=None, kind="file"):
        self.exists = exists
        self.size = size
        self.content = content
        self.kind = kind
        self.open_handles = 0

    def __repr__(self):
        return f"File(exists={self.exists}, size={self.size}, content={self.content!r:.60})"


class FakeFS:
    def __init__(self):
        self.files = {}
        self.dirs = set()
        self.trace = []
        self.nops = 0
        self.nmut = 0
        self.fault_at = None
        self.fault_hook = None

    # ------------------------------------------------------------------ #
    def add(self, path, exists=True, size=0, content=None):
        p = str(path)
        self.files[p] = File(exists, size, content)
        self.dirs.add(posixpath.dirname(p))
        return self.files[p]

    def mkdir(self, path):
        p = str(path)
        while p and p != "/":
            self.dirs.add(p)
            p = posixpath.dirname(p)

    def get(self, path):
        return self.files.get(str(path))

    def exists(self, path):
        p = str(path)
        f = self.files.get(p)
        if f is not None:
            return f.exists
        if p in self.dirs:
            return True
        # a directory exists when it was created or holds an existing file
        pre = p.rstrip("/") + "/"
        r = False
        for q, f in self.files.items():
            if q.startswith(pre):
                r = core.or_(r, f.exists)
        return r

    def mutate(self, op, path, mutating=True, **kw):
        """record a (mutating) operation = fault point; raise the injected fault if this is the chosen one"""
        k = self.nops
        self.nops += 1
        if mutating:
            self.nmut += 1
        self.trace.append((k, op, str(path), kw))
        if self.fault_at is not None and k == self.fault_at:
            raise getattr(self, "fault_exc", InjectedFault)(f"injected fault at operation {k}: {op} {path}")
        if self.fault_hook is not None:
            self.fault_hook(k, op, str(path))

    def listing(self):
        return {p: f for p, f in self.files.items()}


_FS = None


def fs():
    if _FS is None:
        raise Unsupported("no fake file system installed")
    return _FS


def install(new_fs):
    global _FS
    _FS = new_fs
    return new_fs


class _Stat:
    def __init__(self, f):
        self.st_size = f.size
        self.st_mtime = 0


class FakePathMeta(type):
    def __instancecheck__(cls, x):
        return type.__instancecheck__(cls, x)


class FakePath(metaclass=FakePathMeta):
    """pathlib.Path look-alike bound to the installed FakeFS"""

    def __init__(self, *parts):
        ps = []
        for p in parts:
            if isinstance(p, FakePath):
                ps.append(p._p)
            else:
                ps.append(str(p))
        self._p = posixpath.normpath(posixpath.join(*ps)) if ps else "."

    # -- pure path part ----------------------------------------------------
    def __str__(self):
        return self._p

    def __repr__(self):
        return f"FakePath({self._p!r})"

    def __fspath__(self):
        return self._p

    def __eq__(self, o):
        return isinstance(o, FakePath) and o._p == self._p

    def __ne__(self, o):
        return not self == o

    def __hash__(self):
        return hash(self._p)

    def __lt__(self, o):
        return self._p < o._p

    def __truediv__(self, o):
        return FakePath(self._p, o)

    def joinpath(self, *o):
        return FakePath(self._p, *o)

    @property
    def name(self):
        return posixpath.basename(self._p)

    @property
    def suffix(self):
        n = self.name
        i = n.rfind(".")
        return n[i:] if 0 < i < len(n) - 1 else ""

    @property
    def suffixes(self):
        n = self.name.lstrip(".")
        return ["." + s for s in n.split(".")[1:]]

    @property
    def stem(self):
        n = self.name
        i = n.rfind(".")
        return n[:i] if 0 < i < len(n) - 1 else n

    @property
    def parent(self):
        return FakePath(posixpath.dirname(self._p) or ".")

    @property
    def parts(self):
        ps = [p for p in self._p.split("/") if p]
        return tuple((["/"] if self._p.startswith("/") else []) + ps)

    def with_suffix(self, suffix):
        if suffix and not suffix.startswith("."):
            raise ValueError(f"Invalid suffix {suffix!r}")
        return FakePath(posixpath.join(posixpath.dirname(self._p), self.stem + suffix))

    def with_name(self, name):
        return FakePath(posixpath.join(posixpath.dirname(self._p), name))

    # -- file system part --------------------------------------------------
    def exists(self):
        r = fs().exists(self._p)
        return builtins.bool(r) if isinstance(r, Sym) else r

    def is_file(self):
        f = fs().get(self._p)
        return f is not None and builtins.bool(f.exists)

    def is_dir(self):
        return self._p in fs().dirs

    def stat(self):
        f = fs().get(self._p)
        if f is None or not builtins.bool(f.exists):
            raise FileNotFoundError(f"[Errno 2] No such file or directory: '{self._p}'")
        return _Stat(f)

    def unlink(self, missing_ok=False):
        f = fs().get(self._p)
        if f is None or not builtins.bool(f.exists):
            if missing_ok:
                return
            raise FileNotFoundError(f"[Errno 2] No such file or directory: '{self._p}'")
        fs().mutate("unlink", self._p)
        f.exists = False

    def rename(self, target):
        f = fs().get(self._p)
        if f is None or not builtins.bool(f.exists):
            raise FileNotFoundError(f"[Errno 2] No such file or directory: '{self._p}'")
        fs().mutate("rename", self._p, target=str(target))
        t = fs().files.setdefault(str(target), File(False))
        t.exists, t.size, t.content = True, f.size, f.content
        f.exists = False
        return FakePath(target)

    replace = rename

    def mkdir(self, parents=False, exist_ok=False):
        if self._p in fs().dirs or builtins.bool(fs().exists(self._p)):
            if not exist_ok:
                raise FileExistsError(self._p)
            return
        fs().mutate("mkdir", self._p)
        fs().mkdir(self._p)

    def glob(self, pattern):
        pre = self._p.rstrip("/") + "/"
        out = []
        seen = set()
        # files and directories directly under self matching the pattern
        for q, f in sorted(fs().files.items()):
            if not q.startswith(pre):
                continue
            rest = q[len(pre):]
            first = rest.split("/")[0]
            cand = pre + first
            if cand in seen:
                continue
            if fnmatch.fnmatchcase(first, pattern):
                if "/" in rest:
                    ex = fs().exists(cand)
                else:
                    ex = f.exists
                if builtins.bool(ex):
                    seen.add(cand)
                    out.append(FakePath(cand))
        for d in sorted(fs().dirs):
            if d.startswith(pre) and "/" not in d[len(pre):] and d not in seen and fnmatch.fnmatchcase(d[len(pre):], pattern):
                seen.add(d)
                out.append(FakePath(d))
        return iter(sorted(out))

    def open(self, mode="r"):
        return fake_open(self, mode)

    def touch(self):
        f = fs().files.setdefault(self._p, File(False))
        if not builtins.bool(f.exists):
            fs().mutate("create", self._p)
            f.exists, f.size, f.content = True, 0, []


class FakeFile:
    """file object returned by fake_open; binary writes are recorded as (byte position, array) records"""

    def __init__(self, path, mode):
        self.path = str(path)
        self.mode = mode
        self.closed = False
        F = fs()
        f = F.files.get(self.path)
        writing = any(c in mode for c in "wa+")
        if "w" in mode:
            F.mutate("create", self.path, mode=mode)
            if f is None:
                f = F.files.setdefault(self.path, File(False))
            f.exists, f.size, f.content = True, 0, []
            self.pos = 0
        elif "a" in mode:
            if f is None or not builtins.bool(f.exists):
                F.mutate("create", self.path, mode=mode)
                if f is None:
                    f = F.files.setdefault(self.path, File(False))
                f.exists, f.size, f.content = True, 0, []
            else:
                F.mutate("open_append", self.path, mode=mode)
            self.pos = f.size
        else:
            if f is None or not builtins.bool(f.exists):
                raise FileNotFoundError(f"[Errno 2] No such file or directory: '{self.path}'")
            F.mutate("open_read", self.path, mutating=False)
            self.pos = 0
        self.f = f
        self.writing = writing

    def seek(self, pos, whence=0):
        if whence != 0:
            raise Unsupported("seek whence")
        self.pos = pos
        return pos

    def tell(self):
        return self.pos

    def sym_write(self, arr):
        """arr.tofile(self): records the array at the current position"""
        if self.closed:
            raise ValueError("I/O operation on closed file")
        fs().mutate("write", self.path, pos=self.pos)
        itemsize = getattr(getattr(arr, "tag", None), "itemsize", None)
        if itemsize is None:
            import numpy as np
            itemsize = np.asarray(arr).dtype.itemsize if not hasattr(arr, "fn") else 8
        n = arr.size
        nbytes = n * itemsize
        if not isinstance(self.f.content, list):
            self.f.content = []
        self.f.content.append({"pos": self.pos, "array": arr, "itemsize": itemsize, "nbytes": nbytes})
        self.pos = self.pos + nbytes
        self.f.size = ite(self.pos > self.f.size, self.pos, self.f.size)

    def write(self, data):
        if self.closed:
            raise ValueError("I/O operation on closed file")
        fs().mutate("write", self.path, pos=self.pos)
        if not isinstance(self.f.content, list):
            self.f.content = []
        self.f.content.append({"pos": self.pos, "text": data})
        n = len(data)
        self.pos = self.pos + n
        self.f.size = ite(self.pos > self.f.size, self.pos, self.f.size)
        return n

    def read(self):
        c = self.f.content
        if "b" in self.mode and isinstance(c, list) and (not c or all("array" in r for r in c)):
            return RecordsBytes(c, self.f.size)
        if isinstance(c, list) and all("text" in r for r in c):
            return "".join(r["text"] for r in c) if "b" not in self.mode else b"".join(r["text"] for r in c)
        if isinstance(c, (str, bytes)):
            return c
        if isinstance(c, dict) and "b" not in self.mode:
            import json
            return json.dumps(c)          # a json side-car file (e.g. the .ch compression header)
        raise Unsupported("read of a file without textual content")

    def readline(self):
        raise Unsupported("readline on fake file")

    def close(self):
        self.closed = True

    def __enter__(self):
        return self

    def __exit__(self, *a):
        self.close()


class RecordsBytes:
    """what reading a binary file of tofile-records returns; np.frombuffer (facade) turns it into an array"""

    def __init__(self, records, size):
        self.records = records
        self.size = size


def fake_open(path, mode="r", *a, **k):
    return FakeFile(path, mode)


class ShutilFacade:
    @staticmethod
    def copy(src, dst):
        s = fs().get(str(src))
        if s is None or not builtins.bool(s.exists):
            raise FileNotFoundError(str(src))
        fs().mutate("copy", str(dst), src=str(src))
        d = fs().files.setdefault(str(dst), File(False))
        d.exists, d.size, d.content = True, s.size, s.content
        return dst

    @staticmethod
    def move(src, dst):
        FakePath(src).rename(dst)
        return dst

    copyfile = copy
