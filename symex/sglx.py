"""
Helpers to run spikeglx.Reader / neuropixel converters on the symbolic file system:
metadata text generation (with placeholder tokens for symbolic numbers), module patching,
memmap / mtscomp stubs.
"""
from __future__ import annotations

import builtins

import numpy as np

from . import arrays, core, fakefs, larr, tokens
from .core import SInt, Sym, Unsupported
from .fakefs import FakePath, fs

PROBE_TYPES = {
    # kind: (typeEnabled line?, imDatPrb_type, port/slot?, maxint line, range, major version)
    "3A": dict(type_enabled=True, prb_type=None, port=False, maxint=None, rng="0.6", major=1),
    "3B1": dict(type_enabled=False, prb_type=0, port=False, maxint=None, rng="0.6", major=1),
    "3B2": dict(type_enabled=False, prb_type=0, port=True, maxint=512, rng="0.6", major=1),
    "NP2.1": dict(type_enabled=False, prb_type=21, port=True, maxint=8192, rng="0.5", major=2),
    "NP2.4": dict(type_enabled=False, prb_type=24, port=True, maxint=8192, rng="0.5", major=2.4),
    "NP2.4b": dict(type_enabled=False, prb_type=2013, port=True, maxint=2048, rng="0.62", major=2.4),
    "NPultra": dict(type_enabled=False, prb_type=1100, port=True, maxint=512, rng="0.6", major="NPultra"),
}


def S(x):
    """number or symbolic number -> text (token for symbolic)"""
    if isinstance(x, Sym):
        return tokens.token_for(x)
    return str(x)


def imec_meta_text(kind, sites, gains=None, band="ap", nsync=1, ns=None, fs_hz="30000", geom_map=False,
                   file_size=None, extra=None, n_saved=None, imro_extra_entries=0, rng=None, maxint=None):
    """
    sites: list of (shank, col_or_x, row_or_y) (numbers or SInt); gains: list of (ap, lf) per site (NP1 only)
    """
    P = dict(PROBE_TYPES[kind])
    if rng is not None:
        P["rng"] = rng
    if maxint is not None:
        P["maxint"] = maxint
    n = len(sites)
    nsaved = n + nsync if n_saved is None else n_saved
    lines = []
    aplf = f"{n},0,{nsync}" if band == "ap" else f"0,{n},{nsync}"
    lines.append(f"acqApLfSy={n},{n if P['major'] == 1 else 0},{nsync}")
    if file_size is not None:
        lines.append(f"fileSizeBytes={S(file_size)}")
    if ns is not None:
        lines.append(f"fileTimeSecs={ns}")
    lines.append(f"imAiRangeMax={P['rng']}")
    if P["prb_type"] is not None:
        lines.append(f"imDatPrb_type={P['prb_type']}")
        lines.append("imDatPrb_sn=19011110513")
    else:
        lines.append("imProbeSN=641251510")
    if P["port"]:
        lines.append("imDatPrb_port=1")
        lines.append("imDatPrb_slot=2")
    if P["maxint"] is not None:
        lines.append(f"imMaxInt={P['maxint']}")
    lines.append(f"imSampRate={fs_hz}")
    lines.append(f"nSavedChans={nsaved}")
    lines.append(f"snsApLfSy={aplf}")
    lines.append(f"snsSaveChanSubset=0:{nsaved - 1}")
    if P["type_enabled"]:
        lines.append("typeEnabled=imec")
    lines.append("typeThis=imec")
    if extra:
        lines.extend(extra)
    # imro table
    if P["major"] == 1 or kind == "NPultra":
        g = gains or [(500, 250)] * n
        ent = []
        for i, (ap, lf) in enumerate(g):
            if kind == "3A":
                ent.append(f"({i} 0 0 {S(ap)} {S(lf)})")
            else:
                ent.append(f"({i} 0 0 {S(ap)} {S(lf)} 1)")
        for j in range(imro_extra_entries):
            ent.append(f"({n + j} 0 0 125 50)" if kind == "3A" else f"({n + j} 0 0 125 50 1)")
        hdr = "(641251510,3,384)" if kind == "3A" else "(0,384)"
        lines.append("~imroTbl=" + hdr + "".join(ent))
    else:
        lines.append("~imroTbl=(24,384)" + "".join(f"({i} 0 0 0 {i})" for i in range(n)))
    if geom_map:
        lines.append("~snsGeomMap=(NP1010,1,0,70)" + "".join(f"({S(s)}:{S(x)}:{S(y)}:1)" for (s, x, y) in sites))
    else:
        # a site may carry its own "used" flag as a 4th entry (default 1)
        lines.append("~snsShankMap=(1,2,480)" + "".join(f"({S(t[0])}:{S(t[1])}:{S(t[2])}:{t[3] if len(t) > 3 else 1})" for t in sites))
    return "\n".join(lines) + "\n"


def nidq_meta_text(mn, ma, xa, dw, mn_gain=200, ma_gain=1, rng="5", ns=None, fs_hz="30003.0003", n_saved=None, acq=None):
    """(mn, ma, xa, dw) is the SAVED layout (snsMnMaXaDw); `acq` the acquired one when only a subset of the channels was saved"""
    nsaved = (mn + ma + xa + dw) if n_saved is None else n_saved
    a = (mn, ma, xa, dw) if acq is None else tuple(acq)
    lines = [f"acqMnMaXaDw={a[0]},{a[1]},{a[2]},{a[3]}"]
    if ns is not None:
        lines.append(f"fileTimeSecs={ns}")
    lines += [f"nSavedChans={nsaved}", f"niAiRangeMax={rng}", f"niMAGain={S(ma_gain)}", f"niMNGain={S(mn_gain)}",
              f"niSampRate={fs_hz}", f"snsMnMaXaDw={mn},{ma},{xa},{dw}", "snsSaveChanSubset=" + ("all" if acq is None else f"0:{nsaved - 1}"), "typeThis=nidq",
              "~snsShankMap=(1,2,0)"]
    return "\n".join(lines) + "\n"


class _NPSglx:
    """np facade for spikeglx/neuropixel: adds memmap on the fake file system"""

    def __init__(self, base):
        self._base = base

    def memmap(self, filename, dtype=None, mode="r", shape=None, **k):
        f = fs().get(str(filename))
        if f is None or not builtins.bool(f.exists):
            raise FileNotFoundError(str(filename))
        itemsize = np.dtype(dtype).itemsize
        n = 1
        for s in shape:
            n = n * s
        need = n * itemsize
        if builtins.bool(need > f.size):
            raise ValueError("mmap length is greater than file size")
        fs().trace.append(("memmap", str(filename), shape))
        c = f.content
        if callable(c) and not isinstance(c, (np.ndarray, larr.LArr)):
            return c(shape)
        if isinstance(c, larr.LArr):
            return c[: shape[0]] if c.ndim == 2 else c
        if isinstance(c, np.ndarray):
            ns = builtins.int(shape[0]) if not isinstance(shape[0], builtins.int) else shape[0]
            return c[:ns]
        raise Unsupported("memmap of a file without array content")

    def save(self, file, arr, **k):
        f = fs().files.setdefault(str(file), fakefs.File(False))
        fs().mutate("np.save", str(file))
        f.exists, f.content, f.size = True, {"npy": arr}, 128

    def load(self, file, mmap_mode=None, **k):
        f = fs().get(str(file))
        if f is None or not builtins.bool(f.exists):
            raise FileNotFoundError(str(file))
        return f.content["npy"]

    def __getattr__(self, n):
        return getattr(self.__dict__["_base"], n)


NPS = _NPSglx(larr.NPL)


def patch(mtscomp=None, extra_spikeglx=None):
    """patch spikeglx + neuropixel + ibldsp.utils for symbolic runs on the fake fs"""
    import spikeglx
    import neuropixel
    import ibldsp.utils as u
    import copy as _copy
    kw = dict(Path=FakePath, open=fakefs.fake_open, re=tokens.RE, shutil=fakefs.ShutilFacade)
    if mtscomp is not None:
        kw["mtscomp"] = mtscomp
    if extra_spikeglx:
        kw.update(extra_spikeglx)
    arrays.patch_module(spikeglx, **kw)
    spikeglx.np = NPS
    arrays.patch_module(neuropixel, Path=FakePath, open=fakefs.fake_open)
    neuropixel.np = NPS
    larr.patch_module(u)
    return spikeglx, neuropixel


def install_recording(base, meta_text, content=None, size=None, fsys=None, with_bin=True):
    """creates <base>.meta (+ <base>.bin) on a fresh (or given) fake fs; returns (fs, bin_path)"""
    F = fsys or fakefs.install(fakefs.FakeFS())
    F.add(base + ".meta", True, len(meta_text), [{"pos": 0, "text": meta_text}])
    if with_bin:
        F.add(base + ".bin", True, size if size is not None else 0, content)
    return F, FakePath(base + ".bin")
