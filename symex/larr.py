"""
LArr: lazy array with *symbolic extents*.  shape = tuple of int | SInt, contents = a Python function
from index terms to a scalar term.  Supports what the repository's windowed kernels use: slicing with
symbolic bounds (Python clipping semantics as ITE), strided slices, transpose, column gathers with
concrete index lists, element-wise arithmetic with broadcasting, in-place region updates, concatenation,
opaque whole-array operators (filters) as uninterpreted functions of an array identity term.

Universally quantified statements over rows are decided by skolemisation in the harnesses:
a fresh Int p with 0 <= p < n and the negated claim -> quantifier-free LIA + EUF.
"""
from __future__ import annotations

import builtins

import numpy as np
import z3

from . import arrays, core
from .core import SInt, SReal, Sym, Unsupported, and_, cur, ite, mkbool, mkint, or_

ArrSort = z3.DeclareSort("Arr")
_const_ids = {}


def _is_concrete(x):
    return not isinstance(x, Sym)


def s_max(a, b):
    return ite(a >= b, a, b)


def s_min(a, b):
    return ite(a <= b, a, b)


def _dim_eq(a, b):
    if _is_concrete(a) and _is_concrete(b):
        return builtins.int(a) == builtins.int(b)
    return core.eq(a, b)


def _int_term(x):
    return x.t if isinstance(x, SInt) else z3.IntVal(builtins.int(x))


def _param_term(x):
    """scalar parameter -> z3 term usable as UF argument (Int)"""
    if isinstance(x, SInt):
        return x.t
    if isinstance(x, (builtins.int, np.integer, builtins.bool)):
        return z3.IntVal(builtins.int(x))
    raise Unsupported(f"array-operator parameter of type {type(x).__name__}")


def const_aid(tag):
    """identity term for a concrete operand (keyed by a short description)"""
    if tag not in _const_ids:
        _const_ids[tag] = z3.Const(f"arr_{len(_const_ids)}_{tag[:24]}", ArrSort)
    return _const_ids[tag]


def op_aid(name, *args):
    """aid = OP(args...) with args Arr terms or ints"""
    ts = []
    for a in args:
        if isinstance(a, z3.ExprRef):
            ts.append(a)
        else:
            ts.append(_param_term(a))
    f = core.ufun("A_" + name, *[t.sort() for t in ts], ArrSort)
    return f(*ts)


def _digest(a):
    import hashlib
    a = np.ascontiguousarray(a)
    return hashlib.sha1(a.tobytes() + str(a.shape).encode() + str(a.dtype).encode()).hexdigest()[:12]


class LArr:
    __array_priority__ = 2000

    def __init__(self, shape, fn, aid=None, tag=None):
        self.shape = tuple(shape)
        self.fn = fn
        self._aid = aid
        self.tag = tag

    # ------------------------------------------------------------------ #
    @property
    def ndim(self):
        return len(self.shape)

    @property
    def dtype(self):
        return self.tag if self.tag is not None else np.dtype(float)

    @property
    def size(self):
        r = 1
        for s in self.shape:
            r = r * s
        return r

    @property
    def aid(self):
        if self._aid is None:
            raise Unsupported("whole-array operator applied to an array without identity term")
        return self._aid

    def __len__(self):
        if not self.shape:
            raise TypeError("len() of unsized object")
        return builtins.int(self.shape[0]) if _is_concrete(self.shape[0]) else self.shape[0].__index__()

    def __repr__(self):
        return f"LArr(shape={self.shape})"

    def __iter__(self):
        # element-by-element traversal of an array whose length is symbolic would never end (or would pin the length):
        # it is outside the model
        if not self.shape or not _is_concrete(self.shape[0]):
            raise Unsupported("iteration over a lazy array of symbolic length")
        return (self[i] for i in range(builtins.int(self.shape[0])))

    @staticmethod
    def from_array(a, tag=None):
        """concrete ndarray / SymArray -> LArr (symbolic indexing = uninterpreted lookup for large arrays)"""
        a = np.asarray(a) if not isinstance(a, np.ndarray) else a
        plain = a.view(np.ndarray)
        name = "carr_" + (_digest(plain) if plain.dtype != object else str(id(a)))
        aid = const_aid(name)

        def fn(*idx):
            if all(_is_concrete(i) for i in idx):
                return plain[tuple(builtins.int(i) for i in idx)]
            if plain.size <= 16:
                # small: exact ITE lookup
                res = None
                for pos in np.ndindex(*plain.shape):
                    c = True
                    for i, p in zip(idx, pos):
                        c = and_(c, core.eq(i, p))
                    e = plain[pos]
                    res = e if res is None else ite(c, e, res)
                return res
            if plain.dtype == object:
                raise Unsupported("symbolic lookup into a large symbolic array")
            f = core.ufun(name, *([z3.IntSort()] * plain.ndim), z3.RealSort())
            return SReal(f(*[_int_term(i) for i in idx]))
        return LArr(plain.shape, fn, aid=aid, tag=tag or (plain.dtype if plain.dtype != object else getattr(a, "tag", None)))

    # ------------------------------------------------------------------ #
    # indexing

    @staticmethod
    def _norm_slice(sl, n):
        step = 1 if sl.step is None else sl.step
        if isinstance(step, Sym):
            step = builtins.int(step)
        if step == 0:
            raise ValueError("slice step cannot be zero")

        def wrapneg(i):
            return ite(i < 0, i + n, i)
        if step > 0:
            start = 0 if sl.start is None else s_min(s_max(wrapneg(sl.start), 0), n)
            stop = n if sl.stop is None else s_min(s_max(wrapneg(sl.stop), 0), n)
            length = ite(stop > start, (stop - start + (step - 1)) // step, 0)
        else:
            start = n - 1 if sl.start is None else s_min(s_max(wrapneg(sl.start), -1), n - 1)
            stop = -1 if sl.stop is None else s_min(s_max(wrapneg(sl.stop), -1), n - 1)
            length = ite(start > stop, (start - stop + (-step - 1)) // (-step), 0)
        return start, step, length

    def _plan(self, key):
        ks = list(key) if isinstance(key, tuple) else [key]
        if any(k is Ellipsis for k in ks):
            n_cons = sum(1 for k in ks if k is not None and k is not Ellipsis)
            out = []
            for k in ks:
                if k is Ellipsis:
                    out.extend([slice(None)] * (self.ndim - n_cons))
                else:
                    out.append(k)
            ks = out
        n_cons = sum(1 for k in ks if k is not None)
        if n_cons > self.ndim:
            raise IndexError("too many indices for array")
        ks = ks + [slice(None)] * (self.ndim - n_cons)
        plan = []   # per result axis or fixed: ('fix', src, idx) | ('sl', src, start, step, len) | ('lst', src, list) | ('new',)
        src = 0
        for k in ks:
            if k is None:
                plan.append(("new",))
                continue
            n = self.shape[src]
            if isinstance(k, slice):
                start, step, length = self._norm_slice(k, n)
                plan.append(("sl", src, start, step, length))
            elif isinstance(k, (builtins.int, np.integer, SInt)):
                if isinstance(k, SInt) or isinstance(n, SInt):
                    bad = or_(k < -n, k >= n)
                    if builtins.bool(bad):
                        raise IndexError(f"index out of bounds for axis {src}")
                    i = ite(k < 0, k + n, k)
                else:
                    if not -n <= k < n:
                        raise IndexError(f"index {k} is out of bounds for axis {src} with size {n}")
                    i = k + n if k < 0 else builtins.int(k)
                plan.append(("fix", src, i))
            elif isinstance(k, (list, np.ndarray, range)):
                lst = np.asarray(k)
                if lst.dtype == bool:
                    lst = np.nonzero(lst)[0]
                if lst.ndim != 1:
                    raise Unsupported("n-d index array on a lazy array")
                raw = lst.tolist()
                lst = []
                for v in raw:
                    if not isinstance(v, Sym):
                        v = builtins.int(v)
                    if builtins.bool(or_(n <= v, -n > v)):
                        raise IndexError(f"index {v} is out of bounds for axis {src}")
                    lst.append((v + n if v < 0 else v) if not isinstance(v, Sym) else ite(v < 0, v + n, v))
                plan.append(("lst", src, lst))
            else:
                raise Unsupported(f"LArr index of type {type(k).__name__}")
            src += 1
        return plan

    def __getitem__(self, key):
        plan = self._plan(key)
        shape = []
        for p in plan:
            if p[0] == "sl":
                shape.append(p[4])
            elif p[0] == "lst":
                shape.append(len(p[2]))
            elif p[0] == "new":
                shape.append(1)
        old = self.fn
        ndim = self.ndim

        def fn(*ridx):
            src_idx = [None] * ndim
            r = 0
            for p in plan:
                if p[0] == "fix":
                    src_idx[p[1]] = p[2]
                elif p[0] == "sl":
                    src_idx[p[1]] = p[2] + p[3] * ridx[r]
                    r += 1
                elif p[0] == "lst":
                    j = ridx[r]
                    lst = p[2]
                    if _is_concrete(j):
                        src_idx[p[1]] = lst[builtins.int(j)]
                    else:
                        v = lst[-1]
                        for q in range(len(lst) - 2, -1, -1):
                            v = ite(core.eq(j, q), lst[q], v)
                        src_idx[p[1]] = v
                    r += 1
                else:
                    r += 1
            return old(*src_idx)
        if not shape:
            return fn()
        aid = None
        if self._aid is not None:
            params = []
            code = []
            for p in plan:
                if p[0] == "fix":
                    code.append("f")
                    params.append(p[2])
                elif p[0] == "sl":
                    code.append(f"s{p[3]}")
                    params.extend([p[2], p[4]])
                elif p[0] == "lst":
                    if all(_is_concrete(v) for v in p[2]):
                        code.append("l" + "_".join(str(v) for v in p[2])[:40] + f"n{len(p[2])}h{hash(tuple(p[2])) & 0xffff}")
                    else:
                        code.append("lsym")
                        params.extend(p[2])
                else:
                    code.append("n")
            try:
                aid = op_aid("idx_" + "_".join(code), self._aid, *params)
            except Unsupported:
                aid = None
        return LArr(shape, fn, aid=aid, tag=self.tag)

    def __setitem__(self, key, value):
        plan = self._plan(key)
        if any(p[0] == "new" for p in plan):
            raise Unsupported("LArr assignment through a new axis")
        region_shape = [p[4] if p[0] == "sl" else len(p[2]) for p in plan if p[0] in ("sl", "lst")]
        if isinstance(value, (LArr, np.ndarray)):
            v = value if isinstance(value, LArr) else LArr.from_array(value)
            vshape = list(v.shape)
            # numpy broadcasting of value into the region
            if len(vshape) > len(region_shape):
                raise ValueError("could not broadcast input array into shape")
            pad = len(region_shape) - len(vshape)
            bmap = []
            for r, d in enumerate(region_shape):
                if r < pad:
                    bmap.append(None)
                    continue
                dv = vshape[r - pad]
                if _is_concrete(dv) and builtins.int(dv) == 1 and not (_is_concrete(d) and builtins.int(d) == 1):
                    bmap.append("one")
                else:
                    if not builtins.bool(_dim_eq(dv, d)):
                        raise ValueError(f"could not broadcast input array from shape {tuple(vshape)} into shape {tuple(region_shape)}")
                    bmap.append("same")

            def vfn(*ridx):
                args = []
                for r, m in enumerate(bmap):
                    if m is None:
                        continue
                    args.append(0 if m == "one" else ridx[r])
                return v.fn(*args)
            vaid = v._aid
        else:
            def vfn(*ridx):
                return value
            vaid = None
        old = self.fn

        def fn(*idx):
            cond = True
            ridx = []
            for p in plan:
                if p[0] == "fix":
                    cond = and_(cond, core.eq(idx[p[1]], p[2]))
                elif p[0] == "lst":
                    # column scatter: the LAST occurrence of an index wins, like NumPy
                    i = idx[p[1]]
                    hit, pos = False, 0
                    for q, v in enumerate(p[2]):
                        h = core.eq(i, v)
                        pos = ite(h, q, pos)
                        hit = or_(hit, h)
                    cond = and_(cond, hit)
                    ridx.append(pos)
                else:
                    _, src, start, step, length = p
                    i = idx[src]
                    if step == 1:
                        cond = and_(cond, and_(i >= start, i < start + length))
                        ridx.append(i - start)
                    elif step > 0:
                        cond = and_(cond, and_(and_(i >= start, i < start + step * length), core.eq((i - start) % step, 0)))
                        ridx.append((i - start) // step)
                    else:
                        raise Unsupported("assignment through a negative-step slice")
            if cond is False:
                return old(*idx)
            return ite(cond, vfn(*ridx), old(*idx))
        self.fn = fn
        if self._aid is not None:
            try:
                params = []
                for p in plan:
                    if p[0] == "lst":
                        params.extend(list(p[2]))
                    else:
                        params.extend([p[2]] if p[0] == "fix" else [p[2], p[4]])
                if vaid is not None:
                    self._aid = op_aid("set", self._aid, vaid, *params)
                elif isinstance(value, (builtins.int, builtins.float)):
                    self._aid = op_aid(f"setc{value}", self._aid, *params)
                else:
                    self._aid = None
            except Unsupported:
                self._aid = None

    @property
    def T(self):
        if self.ndim == 1:
            return self
        if self.ndim != 2:
            raise Unsupported("transpose of ndim > 2 LArr")
        old = self.fn
        aid = op_aid("T", self._aid) if self._aid is not None else None
        return LArr((self.shape[1], self.shape[0]), lambda i, j: old(j, i), aid=aid, tag=self.tag)

    def transpose(self):
        return self.T

    def copy(self):
        return LArr(self.shape, self.fn, self._aid, self.tag)

    def close(self):
        pass

    def materialize(self, limit=200000):
        """concrete-shape lazy array with concrete contents -> numpy array (None when not possible)"""
        if not all(_is_concrete(n) for n in self.shape):
            return None
        shp = tuple(builtins.int(n) for n in self.shape)
        tot = 1
        for n in shp:
            tot *= n
        if tot > limit:
            return None
        out = np.empty(shp, dtype=object)
        for pos in np.ndindex(*shp):
            v = self.fn(*pos)
            if isinstance(v, Sym):
                return None
            out[pos] = v
        try:
            return np.array(out.tolist(), dtype=self.tag if self.tag is not None else None)
        except Exception:
            return np.array(out.tolist())

    def astype(self, dt, copy=True):
        old = self.fn
        d = arrays._np_dtype(dt)
        aid = op_aid(f"cast_{d.name}", self._aid) if self._aid is not None else None
        return LArr(self.shape, lambda *i: arrays.cast_scalar(old(*i), d), aid=aid, tag=d)

    def tofile(self, fid, *a, **k):
        if hasattr(fid, "sym_write"):
            return fid.sym_write(self)
        raise Unsupported("tofile of a lazy array to a real file")

    # ------------------------------------------------------------------ #
    # element-wise arithmetic

    def _binary(self, other, f, name, rev=False):
        if isinstance(other, (np.ndarray, list)) and not isinstance(other, LArr):
            oa = np.asarray(other) if not isinstance(other, np.ndarray) else other
            if oa.ndim == 0:
                other = oa[()]
            else:
                other = LArr.from_array(oa)
        if isinstance(other, LArr):
            sa, sb = list(self.shape), list(other.shape)
            nd = max(len(sa), len(sb))
            sa = [1] * (nd - len(sa)) + sa
            sb = [1] * (nd - len(sb)) + sb
            pa, pb = nd - self.ndim, nd - other.ndim
            shape, ma, mb = [], [], []
            for x, y in zip(sa, sb):
                x1 = _is_concrete(x) and builtins.int(x) == 1
                y1 = _is_concrete(y) and builtins.int(y) == 1
                if x1 and not y1:
                    shape.append(y); ma.append("one"); mb.append("same")
                elif y1 and not x1:
                    shape.append(x); ma.append("same"); mb.append("one")
                else:
                    if not builtins.bool(_dim_eq(x, y)):
                        raise ValueError(f"operands could not be broadcast together with shapes {self.shape} {other.shape}")
                    shape.append(x); ma.append("same"); mb.append("same")
            fa, fb = self.fn, other.fn

            def fn(*idx):
                ia = [0 if ma[r] == "one" else idx[r] for r in range(pa, nd)]
                ib = [0 if mb[r] == "one" else idx[r] for r in range(pb, nd)]
                a, b = fa(*ia), fb(*ib)
                return f(b, a) if rev else f(a, b)
            aid = None
            if self._aid is not None and other._aid is not None:
                aid = op_aid(("r" if rev else "") + name, self._aid, other._aid)
            return LArr(shape, fn, aid=aid, tag=self.tag)
        fa = self.fn

        def fn(*idx):
            a = fa(*idx)
            return f(other, a) if rev else f(a, other)
        aid = None
        if self._aid is not None:
            try:
                if isinstance(other, (builtins.int, np.integer, SInt)):
                    aid = op_aid(("r" if rev else "") + name + "_i", self._aid, other)
                elif isinstance(other, (builtins.float, np.floating)):
                    aid = op_aid(("r" if rev else "") + name + f"_c{builtins.float(other)!r}", self._aid)
            except Unsupported:
                aid = None
        return LArr(self.shape, fn, aid=aid, tag=self.tag)

    def _unary(self, f, name):
        fa = self.fn
        aid = op_aid(name, self._aid) if self._aid is not None else None
        return LArr(self.shape, lambda *i: f(fa(*i)), aid=aid, tag=self.tag)

    def __mul__(self, o): return self._binary(o, arrays.UFUNC_TABLE[np.multiply], "mul")
    def __rmul__(self, o): return self._binary(o, arrays.UFUNC_TABLE[np.multiply], "mul", True)
    def __truediv__(self, o): return self._binary(o, arrays.UFUNC_TABLE[np.true_divide], "div")
    def __rtruediv__(self, o): return self._binary(o, arrays.UFUNC_TABLE[np.true_divide], "div", True)
    def __add__(self, o): return self._binary(o, arrays.UFUNC_TABLE[np.add], "add")
    def __radd__(self, o): return self._binary(o, arrays.UFUNC_TABLE[np.add], "add", True)
    def __sub__(self, o): return self._binary(o, arrays.UFUNC_TABLE[np.subtract], "sub")
    def __rsub__(self, o): return self._binary(o, arrays.UFUNC_TABLE[np.subtract], "sub", True)
    def __neg__(self): return self._unary(arrays.UFUNC_TABLE[np.negative], "neg")
    def __abs__(self): return self._unary(arrays.UFUNC_TABLE[np.absolute], "abs")
    def __pow__(self, o): return self._binary(o, arrays.UFUNC_TABLE[np.power], "pow")
    def __gt__(self, o): return self._binary(o, arrays.UFUNC_TABLE[np.greater], "gt")
    def __ge__(self, o): return self._binary(o, arrays.UFUNC_TABLE[np.greater_equal], "ge")
    def __lt__(self, o): return self._binary(o, arrays.UFUNC_TABLE[np.less], "lt")
    def __le__(self, o): return self._binary(o, arrays.UFUNC_TABLE[np.less_equal], "le")
    __imul__ = __mul__
    __itruediv__ = __truediv__
    __iadd__ = __add__
    __isub__ = __sub__

    def __array_ufunc__(self, ufunc, method, *inputs, **kwargs):
        if method != "__call__" or kwargs.get("out") is not None:
            raise Unsupported(f"ufunc {ufunc.__name__}.{method} on a lazy array")
        f = arrays.UFUNC_TABLE.get(ufunc)
        if f is None:
            raise Unsupported(f"ufunc {ufunc.__name__} on a lazy array")
        if len(inputs) == 1:
            return self._unary(f, ufunc.__name__)
        a, b = inputs
        if a is self:
            return self._binary(b, f, ufunc.__name__)
        return self._binary(a, f, ufunc.__name__, rev=True)

    def __array_function__(self, func, types, args, kwargs):
        impl = FUNCTIONS.get(func)
        if impl is None:
            raise Unsupported(f"numpy function {func.__name__} on a lazy array")
        return impl(*args, **kwargs)


# --------------------------------------------------------------------------- #


def constant(shape, value, tag=None, name=None):
    if isinstance(shape, (builtins.int, np.integer, SInt)):
        shape = (shape,)
    aid = None
    try:
        aid = op_aid(f"const_{value!r}", *shape) if shape else None
    except Unsupported:
        aid = None
    return LArr(shape, lambda *i: value, aid=aid, tag=tag)


def concat(arrs, axis=0):
    arrs = [a if isinstance(a, LArr) else LArr.from_array(np.asarray(a)) for a in arrs]
    nd = arrs[0].ndim
    axis = axis % nd
    for a in arrs[1:]:
        if a.ndim != nd:
            raise ValueError("all the input array dimensions must match")
        for r in range(nd):
            if r != axis and not builtins.bool(_dim_eq(a.shape[r], arrs[0].shape[r])):
                raise ValueError("all the input array dimensions except for the concatenation axis must match exactly")
    total = 0
    offs = []
    for a in arrs:
        offs.append(total)
        total = total + a.shape[axis]
    shape = list(arrs[0].shape)
    shape[axis] = total

    def fn(*idx):
        i = idx[axis]
        res = None
        for a, off in reversed(list(zip(arrs, offs))):
            sub = list(idx)
            sub[axis] = i - off
            if res is None:
                res = ("lazy", a, sub)
            else:
                res = ("ite", i < off + a.shape[axis], ("lazy", a, sub), res)

        def ev(node):
            if node[0] == "lazy":
                return node[1].fn(*node[2])
            c = core._b(node[1])
            if c is True:
                return ev(node[2])
            if c is False:
                return ev(node[3])
            return ite(node[1], ev(node[2]), ev(node[3]))
        return ev(res)
    aid = None
    if all(a._aid is not None for a in arrs):
        aid = op_aid(f"cat{axis}_{len(arrs)}", *[a._aid for a in arrs])
    return LArr(shape, fn, aid=aid, tag=arrs[0].tag)


def opaque(name, a, *params, shape=None, sort="real", tag=None):
    """whole-array operator with no numeric model: out[idx] = ELEM(OP(aid, params), idx)"""
    aid = op_aid(name, a.aid if isinstance(a, LArr) else a, *params)
    shp = a.shape if shape is None else shape
    nd = len(shp)
    if sort == "real":
        f = core.ufun("ELEM", ArrSort, *([z3.IntSort()] * nd), z3.RealSort())
        return LArr(shp, lambda *i: SReal(f(aid, *[_int_term(x) for x in i])), aid=aid, tag=tag)
    if sort == "bool":
        f = core.ufun("ELEMB", ArrSort, *([z3.IntSort()] * nd), z3.BoolSort())
        return LArr(shp, lambda *i: core.SBool(f(aid, *[_int_term(x) for x in i])), aid=aid, tag=tag)
    raise Unsupported(sort)


def _np_ones(shape, dtype=None, **k):
    return _maybe_lazy(shape, 1.0 if dtype is None or arrays._np_dtype(dtype).kind == "f" else 1, dtype)


def _np_zeros(shape, dtype=float, **k):
    return _maybe_lazy(shape, arrays._zero_of(dtype), dtype)


def _maybe_lazy(shape, value, dtype):
    shp = shape if isinstance(shape, (tuple, list)) else (shape,)
    big = False
    if not any(isinstance(s, SInt) for s in shp):
        tot = 1
        for s in shp:
            tot *= builtins.int(s)
        big = tot > 4096
    if big or any(isinstance(s, SInt) for s in shp):
        return constant(tuple(shp), value, tag=arrays._np_dtype(dtype) if dtype is not None else None)
    return arrays.filled(shp, value, tag=arrays._np_dtype(dtype) if dtype is not None else None)


def _flip(a, axis=None):
    if a.ndim != 1 and axis is None:
        raise Unsupported("flip of a multi-dimensional lazy array")
    return a[::-1] if a.ndim == 1 else a[tuple(slice(None, None, -1) if r == axis % a.ndim else slice(None) for r in range(a.ndim))]


FUNCTIONS = {
    np.concatenate: lambda arrs, axis=0, **k: concat(list(arrs), axis),
    np.transpose: lambda a, axes=None: a.T,
    np.flipud: lambda a: _flip(a, 0),
    np.flip: _flip,
    np.copy: lambda a, **k: a.copy(),
    np.shape: lambda a: a.shape,
    np.ndim: lambda a: a.ndim,
    np.real: lambda a: a,
    np.zeros_like: lambda a, dtype=None, **k: constant(a.shape, arrays._zero_of(dtype or a.tag or float), tag=dtype or a.tag),
}


class _LazyIndexTrick:
    """np.r_ / np.c_ that understand lazy arrays"""

    def __init__(self, base, kind):
        self.base = base
        self.kind = kind

    def __getitem__(self, key):
        ks = key if isinstance(key, tuple) else (key,)
        if not any(isinstance(k, LArr) for k in ks):
            return self.base[key]
        parts = []
        for k in ks:
            if isinstance(k, LArr):
                parts.append(k)
            else:
                parts.append(LArr.from_array(np.atleast_1d(np.asarray(k))))
        if self.kind == "r":
            return concat(parts, 0)
        parts = [p if p.ndim == 2 else p[:, None] for p in parts]
        return concat(parts, 1)


class NPLazyFacade:
    """np facade that additionally creates lazy arrays for symbolic extents"""

    def __init__(self, base):
        self._base = base
        self.r_ = _LazyIndexTrick(base.r_, "r")
        self.c_ = _LazyIndexTrick(base.c_, "c")
        self.ones = _np_ones
        self.zeros = _np_zeros
        self.empty = _np_zeros

    def __getattr__(self, n):
        return getattr(self.__dict__["_base"], n)


NPL = NPLazyFacade(arrays.NP)


def patch_module(mod, **extra):
    arrays.patch_module(mod, **extra)
    if hasattr(mod, "np"):
        mod.np = NPL


# --------------------------------------------------------------------------- #
# arange / take with symbolic extents


def arange(*args, dtype=None):
    if dtype is not None and dtype in (getattr(arrays, "sym_int", None), getattr(arrays, "sym_float", None)):
        dtype = arrays._np_dtype(dtype)           # the repo modules' rebound int / float used as a dtype
    if not any(isinstance(a, Sym) for a in args):
        return np.arange(*args, dtype=dtype)
    if len(args) == 1:
        start, stop, step = 0, args[0], 1
    elif len(args) == 2:
        start, stop, step = args[0], args[1], 1
    else:
        start, stop, step = args
    if isinstance(step, Sym):
        raise Unsupported("arange with symbolic step")

    def as_int(v):
        if isinstance(v, SReal):
            f = v.floor()
            if not builtins.bool(core.eq(core._as_real(f), v)):
                raise Unsupported("arange with a non-integer symbolic bound")
            return f
        if isinstance(v, builtins.float) and v.is_integer():
            return builtins.int(v)
        return v
    start, stop = as_int(start), as_int(stop)
    if not isinstance(step, (builtins.int, np.integer)) or step <= 0:
        raise Unsupported("arange step")
    n = ite(stop > start, (stop - start + (step - 1)) // step, 0)
    try:
        aid = op_aid(f"arange{step}", start, n)
    except Unsupported:
        aid = None
    return LArr((n,), lambda i: start + i * step, aid=aid, tag=np.dtype(np.int64))


def take(a, indices, axis=None, **k):
    if axis is None:
        if a.ndim != 1:
            raise Unsupported("take on flattened lazy array")
        axis = 0
    axis = axis % a.ndim
    if not isinstance(indices, LArr):
        key = tuple(indices if r == axis else slice(None) for r in range(a.ndim))
        return a[key]
    if indices.ndim != 1:
        raise Unsupported("take with n-d lazy indices")
    n = a.shape[axis]
    shape = list(a.shape)
    shape[axis] = indices.shape[0]
    fa, fi = a.fn, indices.fn

    def fn(*idx):
        src = list(idx)
        j = fi(idx[axis])
        src[axis] = ite(j < 0, j + n, j)
        return fa(*src)
    aid = op_aid(f"take{axis}", a._aid, indices._aid) if a._aid is not None and indices._aid is not None else None
    return LArr(shape, fn, aid=aid, tag=a.tag)


FUNCTIONS[np.take] = take
FUNCTIONS[np.conj] = lambda a: a._unary(arrays.UFUNC_TABLE[np.conjugate], "conj")
FUNCTIONS[np.conjugate] = FUNCTIONS[np.conj]
NPL.arange = arange


def array_equal(a, b, equal_nan=False):
    """np.array_equal on lazy arrays: a universally quantified statement, decided (and forked) by the solver"""
    a = a if isinstance(a, LArr) else LArr.from_array(np.asarray(a))
    b = b if isinstance(b, LArr) else LArr.from_array(np.asarray(b))
    if a.ndim != b.ndim:
        return False
    for x, y in zip(a.shape, b.shape):
        if not builtins.bool(_dim_eq(x, y)):
            return False
    c = cur()
    # axes with a small concrete extent are enumerated, the others are skolemised
    import itertools
    enum_axes = [r for r, n in enumerate(a.shape) if _is_concrete(n) and builtins.int(n) <= 16]
    sk_axes = [r for r in range(a.ndim) if r not in enum_axes]
    sk = {r: z3.Int(c._name("ae")) for r in sk_axes}
    rng = z3.And(*[z3.And(sk[r] >= 0, sk[r] < _int_term(a.shape[r])) for r in sk_axes]) if sk_axes else z3.BoolVal(True)
    conj = []
    all_true = True
    for combo in itertools.product(*[range(builtins.int(a.shape[r])) for r in enum_axes]):
        idx = [None] * a.ndim
        for r, v in zip(enum_axes, combo):
            idx[r] = v
        for r in sk_axes:
            idx[r] = SInt(sk[r])
        same = core._b(core.eq(a.fn(*idx), b.fn(*idx)))
        if same is True:
            continue
        if same is False:
            if c._check(rng) == z3.sat:
                return False
            continue
        # is a mismatch here possible at all on this path?  (plain skolemisation, no quantifier)
        if c._check(rng, z3.Not(same)) == z3.unsat:
            continue
        all_true = False
        conj.append(same)
    if all_true:
        return True
    body = z3.Implies(rng, z3.And(*conj))
    return core.SBool(z3.ForAll(list(sk.values()), body) if sk else z3.And(*conj))


FUNCTIONS[np.array_equal] = array_equal


# --------------------------------------------------------------------------- #
# reductions / reshapes used by the chunked destriping code


def reduce_opaque(name):
    def f(a, axis=None, **k):
        if axis is None:
            raise Unsupported(f"{name} of a whole lazy array")
        axis = axis % a.ndim
        shape = tuple(s for r, s in enumerate(a.shape) if r != axis)
        return opaque(f"{name}_ax{axis}", a, shape=shape, tag=a.tag)
    return f


def tile(a, reps):
    if not isinstance(reps, (tuple, list)):
        reps = (reps,)
    if a.ndim == 1 and len(reps) == 2 and reps[1] == 1:
        fa = a.fn
        aid = op_aid("tile", a._aid, reps[0]) if a._aid is not None else None
        return LArr((reps[0], a.shape[0]), lambda r, c: fa(c), aid=aid, tag=a.tag)
    raise Unsupported("tile of a lazy array in this configuration")


def reshape(a, shape, *more, **k):
    if more:
        shape = (shape,) + tuple(more)
    if a.ndim == 1 and len(shape) == 2:
        r, c = shape
        if isinstance(c, Sym):
            raise Unsupported("reshape with symbolic column count")
        if not builtins.bool(core.eq(r * c, a.shape[0])):
            raise ValueError(f"cannot reshape array of size {a.shape[0]} into shape {tuple(shape)}")
        fa = a.fn
        aid = op_aid(f"reshape{c}", a._aid, r) if a._aid is not None else None
        return LArr((r, c), lambda i, j: fa(i * c + j), aid=aid, tag=a.tag)
    raise Unsupported("reshape of a lazy array in this configuration")


LArr.reshape = lambda self, *shape, **k: reshape(self, shape[0] if len(shape) == 1 else shape)
FUNCTIONS[np.mean] = reduce_opaque("mean")
FUNCTIONS[np.sum] = reduce_opaque("sum")
FUNCTIONS[np.median] = reduce_opaque("median")
def clip(a, a_min=None, a_max=None, out=None, **kw):
    """element-wise saturation of a lazy array (bounds: scalars or arrays that broadcast)"""
    if out is not None:
        raise Unsupported("np.clip with out= on a lazy array")
    r = a
    if a_min is not None:
        r = np.maximum(r, a_min)
    if a_max is not None:
        r = np.minimum(r, a_max)
    return r


def _dot(a, b, out=None):
    """np.dot with a scalar factor is an element-wise product (the only form the repo uses on lazy arrays)"""
    if isinstance(b, (Sym, builtins.int, builtins.float, np.integer, np.floating)) or (isinstance(b, np.ndarray) and b.ndim == 0):
        return a * (b[()] if isinstance(b, np.ndarray) else b)
    if isinstance(a, (Sym, builtins.int, builtins.float, np.integer, np.floating)):
        return b * a
    if isinstance(a, LArr) and a.ndim == 2 and isinstance(b, np.ndarray) and b.ndim == 2 and _is_concrete(a.shape[1]) and builtins.int(a.shape[1]) == b.shape[0]:
        # (rows x K) lazy array times a concrete-shaped K x M matrix: column j = sum_k a[:, k] * b[k, j]
        K, M = b.shape
        B = np.asarray(arrays._plain(b), dtype=object)

        def fn(r, c):
            cols = []
            for j in range(M):
                acc = 0
                for k in range(K):
                    if not isinstance(B[k, j], Sym) and B[k, j] == 0:
                        continue
                    acc = acc + arrays._num(a.fn(r, k)) * arrays._num(B[k, j])
                cols.append(acc)
            if not isinstance(c, Sym):
                return cols[builtins.int(c)]
            res = cols[-1]
            for j in range(M - 2, -1, -1):
                res = core.ite(core.eq(c, j), cols[j], res)
            return res
        return LArr((a.shape[0], M), fn, aid=None, tag=a.tag)
    raise Unsupported("np.dot of lazy arrays with a matrix")


FUNCTIONS[np.dot] = _dot
FUNCTIONS[np.clip] = clip
FUNCTIONS[np.tile] = tile
FUNCTIONS[np.reshape] = reshape


def _vstack(arrs, **k):
    parts = []
    for a in arrs:
        if not isinstance(a, LArr):
            a = LArr.from_array(np.atleast_2d(np.asarray(a)))
        parts.append(a if a.ndim == 2 else a[None, :])
    return concat(parts, 0)


FUNCTIONS[np.vstack] = _vstack
