"""
Obligations shared by several checks: a function documented as returning a new result must leave the caller's arrays /
dictionaries as they were, and an identical second call must return the same result (no state carried between calls).
"""
import numpy as np

from . import arrays, core
from .core import Sym


def snap(a):
    """element-wise snapshot of an array-like (the element objects themselves: symbolic terms are immutable)"""
    if isinstance(a, dict):
        return {k: snap(v) for k, v in a.items()}
    if isinstance(a, np.ndarray):
        return (tuple(a.shape), np.asarray(arrays._plain(a), dtype=object).ravel().tolist())
    if isinstance(a, (list, tuple)):
        return [snap(v) for v in a]
    return a


def _same_elem(x, y):
    if x is y:
        return True
    nx, ny = arrays.s_isnan(x), arrays.s_isnan(y)
    if isinstance(nx, Sym) or isinstance(ny, Sym):
        vx = core.SReal(x.t) if isinstance(x, core.SReal) else x
        vy = core.SReal(y.t) if isinstance(y, core.SReal) else y
        return core.and_(core.eq(nx, ny), core.or_(nx, core.eq(vx, vy)))
    if nx or ny:
        return bool(nx) and bool(ny)
    if isinstance(x, (str, bytes)) or isinstance(y, (str, bytes)) or x is None or y is None:
        return x == y
    return core.eq(x, y)


def same(s1, s2):
    """conjunction term / bool: two snapshots hold the same values"""
    if isinstance(s1, dict) or isinstance(s2, dict):
        if not (isinstance(s1, dict) and isinstance(s2, dict)) or list(s1.keys()) != list(s2.keys()):
            return False
        return core.all_([same(s1[k], s2[k]) for k in s1])
    if isinstance(s1, tuple) and len(s1) == 2 and isinstance(s1[1], list) and isinstance(s1[0], tuple):
        if not (isinstance(s2, tuple) and len(s2) == 2 and s1[0] == s2[0]):
            return False
        return core.all_([_same_elem(a, b) for a, b in zip(s1[1], s2[1])])
    if isinstance(s1, list) or isinstance(s2, list):
        if not (isinstance(s1, list) and isinstance(s2, list)) or len(s1) != len(s2):
            return False
        return core.all_([same(a, b) for a, b in zip(s1, s2)])
    return _same_elem(s1, s2)


def oblige_untouched(ctx, name, a, before, detail=None):
    return ctx.oblige(name, same(before, snap(a)), detail=detail)


def oblige_same_result(ctx, name, r1, r2, detail=None):
    return ctx.oblige(name, same(snap(r1), snap(r2)), detail=detail)
