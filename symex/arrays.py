"""
SymArray: numpy.ndarray subclass (dtype=object, concrete shape) whose elements are symbolic
scalars.  Real NumPy does all structural work; value-level operations are routed through
__array_ufunc__/__array_function__ to element-wise term builders.
"""
from __future__ import annotations

import builtins
import itertools
import math
from fractions import Fraction

import numpy as np
import z3

from . import core
from .core import (SBV, SFP, SBool, SInt, SReal, Sym, UVal, Unsupported, and_, cur, implies, ite, mkbool, mkint, not_, or_)

_real_np = np


# --------------------------------------------------------------------------- #
# basics


def has_sym(a):
    if isinstance(a, Sym):
        return True
    if isinstance(a, np.ndarray):
        if a.dtype != object:
            return False
        for e in a.ravel().tolist():
            if isinstance(e, Sym):
                return True
        return False
    if isinstance(a, (list, tuple)):
        return any(has_sym(x) for x in a)
    return False


class SymArray(np.ndarray):
    """object-dtype array holding symbolic scalars; `tag` = the dtype it stands for (may be None)"""

    tag = None

    def __array_finalize__(self, obj):
        if obj is not None:
            self.tag = getattr(obj, "tag", None)

    # ------------------------------------------------------------------ #
    def __array_ufunc__(self, ufunc, method, *inputs, **kwargs):
        return array_ufunc(ufunc, method, inputs, kwargs)

    def __array_function__(self, func, types, args, kwargs):
        return array_function(func, types, args, kwargs)

    # ------------------------------------------------------------------ #
    def plain(self):
        return self.view(np.ndarray)

    def astype(self, dtype, order="K", casting="unsafe", subok=True, copy=True):
        return cast_array(self, dtype)

    def copy(self, order="C"):
        r = np.ndarray.copy(self.view(np.ndarray)).view(type(self))      # typed stand-ins of a check keep their kind (NumPy keeps the dtype)
        r.tag = self.tag
        return r

    def __copy__(self):
        return self.copy()

    def __deepcopy__(self, memo):
        return self.copy()

    def tolist_syms(self):
        return self.view(np.ndarray).tolist()

    def __bool__(self):
        if self.size != 1:
            raise ValueError("The truth value of an array with more than one element is ambiguous.")
        return builtins.bool(self.view(np.ndarray).ravel()[0])

    def __index__(self):
        if self.size != 1:
            raise TypeError("only integer scalar arrays can be converted to a scalar index")
        return self.view(np.ndarray).ravel()[0].__index__()

    def __int__(self):
        if self.size != 1:
            raise TypeError("only length-1 arrays can be converted to Python scalars")
        return builtins.int(self.view(np.ndarray).ravel()[0])

    def __float__(self):
        e = self.view(np.ndarray).ravel()[0]
        if isinstance(e, Sym):
            raise Unsupported("float() of symbolic array element")
        return builtins.float(e)

    # reductions as methods go through the ufunc machinery already (mean/sum/max/...)
    def argmax(self, axis=None, out=None, **kw):
        return sym_argext(self, axis, "max", False)

    def argmin(self, axis=None, out=None, **kw):
        return sym_argext(self, axis, "min", False)

    def nonzero(self):
        return sym_where(self)

    def max(self, axis=None, out=None, **kw):
        return _reduce(np.maximum, UFUNC_TABLE[np.maximum], self, dict(axis=axis, keepdims=kw.get("keepdims", False)))

    def min(self, axis=None, out=None, **kw):
        return _reduce(np.minimum, UFUNC_TABLE[np.minimum], self, dict(axis=axis, keepdims=kw.get("keepdims", False)))

    def tofile(self, fid, *a, **k):
        if hasattr(fid, "sym_write"):
            return fid.sym_write(self)
        raise Unsupported("tofile of a symbolic array to a real file")

    def close(self):
        pass

    def sort(self, axis=-1, **kw):
        self[...] = sym_sort(self, axis)

    # ------------------------------------------------------------------ #
    def __getitem__(self, key):
        key = _prep_key(key, fork_masks=True)
        if _key_symbolic(key):
            return sym_gather(self, key)
        r = np.ndarray.__getitem__(self, key)
        return r

    def __setitem__(self, key, value):
        if isinstance(key, np.ndarray) and key.dtype == object and is_mask(key) and key.shape == self.shape \
                and not isinstance(value, np.ndarray):
            # x[mask] = scalar  ->  element-wise ite, no fork
            flat = self.view(np.ndarray).reshape(-1) if self.flags["C_CONTIGUOUS"] else None
            if flat is not None:
                kf = key.view(np.ndarray).reshape(-1)
                for i in range(flat.shape[0]):
                    flat[i] = ite(kf[i], value, flat[i])
                return
        key = _prep_key(key, fork_masks=True)
        if _key_symbolic(key):
            return sym_scatter(self, key, value)
        if isinstance(value, SymArray):
            value = value.view(np.ndarray)
        np.ndarray.__setitem__(self, key, value)


def wrap(x, tag=None):
    if isinstance(x, SymArray):
        return x
    if isinstance(x, np.ndarray):
        if x.dtype != object:
            t = x.dtype
            x = x.astype(object)
            r = x.view(SymArray)
            r.tag = tag or t
            return r
        r = x.view(SymArray)
        if tag is not None:
            r.tag = tag
        return r
    return x


def mk(elems, shape=None, tag=None):
    """list of scalars -> SymArray"""
    a = np.empty(len(elems), dtype=object)
    for i, e in enumerate(elems):
        a[i] = e
    if shape is not None:
        a = a.reshape(shape)
    r = a.view(SymArray)
    r.tag = tag
    return r


def demote(a):
    """object array without symbolic elements -> native dtype (keeps bool masks usable as masks)"""
    if isinstance(a, np.ndarray) and a.dtype == object and not has_sym(a):
        try:
            if a.size == 0:
                return np.asarray(a.view(np.ndarray), dtype=float)
            b = np.array(a.view(np.ndarray).tolist())
            if b.dtype != object and b.shape == a.shape:
                return b
        except Exception:
            pass
    return a


def is_mask(a):
    if not isinstance(a, np.ndarray) or a.dtype != object or a.size == 0:
        return False
    for e in a.ravel().tolist():
        if not isinstance(e, (SBool, builtins.bool, np.bool_)):
            return False
    return True


def concretize_mask(a):
    flat = [builtins.bool(e) for e in a.view(np.ndarray).ravel().tolist()]
    return np.array(flat, dtype=bool).reshape(a.shape)


def concretize_ints(a):
    flat = [builtins.int(e) if isinstance(e, Sym) else e for e in np.asarray(a, dtype=object).ravel().tolist()]
    return np.array(flat).reshape(np.shape(a))


def _prep_key(key, fork_masks):
    """normalise an index: symbolic masks are concretised (fork), object arrays w/o symbols demoted"""
    if isinstance(key, tuple):
        return tuple(_prep_key1(k, fork_masks) for k in key)
    return _prep_key1(key, fork_masks)


def _prep_key1(k, fork_masks):
    if isinstance(k, SBool):
        return builtins.bool(k)
    if isinstance(k, np.ndarray) and k.dtype == object:
        if not has_sym(k):
            return demote(k.view(np.ndarray))
        if is_mask(k):
            return concretize_mask(k)
        return k.view(np.ndarray)
    if isinstance(k, list) and has_sym(k):
        return np.array(k, dtype=object)
    if isinstance(k, slice):
        if any(isinstance(v, Sym) for v in (k.start, k.stop, k.step)):
            return slice(*[None if v is None else (builtins.int(v) if isinstance(v, Sym) else v)
                           for v in (k.start, k.stop, k.step)])
    return k


def _key_symbolic(key):
    ks = key if isinstance(key, tuple) else (key,)
    for k in ks:
        if isinstance(k, (SInt, SBV)):
            return True
        if isinstance(k, np.ndarray) and k.dtype == object and has_sym(k):
            return True
    return False


# --------------------------------------------------------------------------- #
# symbolic gather / scatter


def _expand_key(key, ndim):
    ks = list(key) if isinstance(key, tuple) else [key]
    n_consuming = sum(1 for k in ks if k is not None and k is not Ellipsis)
    out = []
    for k in ks:
        if k is Ellipsis:
            out.extend([slice(None)] * (ndim - n_consuming))
        else:
            out.append(k)
    n_consuming = sum(1 for k in out if k is not None)
    out.extend([slice(None)] * (ndim - n_consuming))
    return out


def _index_plan(arr, key):
    """
    Returns (R, sym_axes, S) where R[a] is, for every element of the result, the coordinate used
    along axis a (for symbolic axes: the flat position inside the symbolic index array S[a]).
    """
    ks = _expand_key(key, arr.ndim)
    dummy_shape = list(arr.shape)
    newkey = []
    S = {}
    ax = 0
    for k in ks:
        if k is None:
            newkey.append(None)
            continue
        sym = isinstance(k, (SInt, SBV)) or (isinstance(k, np.ndarray) and k.dtype == object and has_sym(k))
        if sym:
            s = np.asarray(k, dtype=object) if not isinstance(k, np.ndarray) else k.view(np.ndarray)
            if isinstance(k, (SInt, SBV)):
                s = np.empty((), dtype=object)
                s[()] = k
            S[ax] = s
            dummy_shape[ax] = max(s.size, 1)
            newkey.append(np.arange(s.size).reshape(s.shape) if s.ndim else 0)
        else:
            newkey.append(k)
        ax += 1
    grids = np.indices(tuple(dummy_shape), sparse=False) if len(dummy_shape) else []
    R = [np.asarray(grids[a][tuple(newkey)]) for a in range(arr.ndim)]
    return R, S


def _check_index_range(s, n):
    """fork an IndexError path when the symbolic index can leave [-n, n)"""
    t = s.to_int().t if isinstance(s, SBV) else s.t
    bad = z3.Or(t < -n, t >= n)
    if cur().decide(bad):
        raise IndexError(f"index out of bounds for axis with size {n}")
    return t


def sym_gather(arr, key):
    R, S = _index_plan(arr, key)
    plain = arr.view(np.ndarray)
    shape = R[0].shape if R else ()
    sym_axes = sorted(S)
    # range checks (each symbolic index element once)
    terms = {}
    for a in sym_axes:
        n = arr.shape[a]
        flat = S[a].ravel().tolist() if S[a].ndim else [S[a][()]]
        tl = []
        for s in flat:
            if isinstance(s, Sym):
                tl.append(_check_index_range(s, n))
            else:
                v = builtins.int(s)
                if not -n <= v < n:
                    raise IndexError(f"index {v} is out of bounds for axis with size {n}")
                tl.append(z3.IntVal(v))
        terms[a] = tl
    out = np.empty(shape, dtype=object)
    it = np.ndindex(*shape) if shape else [()]
    for pos in it:
        coords = [builtins.int(R[a][pos]) for a in range(arr.ndim)]
        out[pos] = _gather_elem(plain, coords, sym_axes, terms, arr.shape)
    if shape == ():
        return out[()]
    r = out.view(SymArray)
    r.tag = arr.tag
    return r


def _gather_elem(plain, coords, sym_axes, terms, shape):
    def rec(i, coords):
        if i == len(sym_axes):
            return plain[tuple(coords)]
        a = sym_axes[i]
        n = shape[a]
        t = terms[a][coords[a]]
        if z3.is_int_value(t):
            c2 = list(coords)
            c2[a] = t.as_long()
            return rec(i + 1, c2)
        res = None
        for v in range(n - 1, -1, -1):
            c2 = list(coords)
            c2[a] = v
            e = rec(i + 1, c2)
            if res is None:
                res = e
            else:
                res = ite(mkbool(z3.Or(t == v, t == v - n)), e, res)
        return res
    return rec(0, list(coords))


def sym_scatter(arr, key, value):
    R, S = _index_plan(arr, key)
    plain = arr.view(np.ndarray)
    shape = R[0].shape if R else ()
    sym_axes = sorted(S)
    terms = {}
    for a in sym_axes:
        n = arr.shape[a]
        flat = S[a].ravel().tolist() if S[a].ndim else [S[a][()]]
        tl = []
        for s in flat:
            if isinstance(s, Sym):
                tl.append(_check_index_range(s, n))
            else:
                tl.append(z3.IntVal(builtins.int(s)))
        terms[a] = tl
    val = np.asarray(value, dtype=object) if not isinstance(value, np.ndarray) else value.view(np.ndarray)
    val = np.broadcast_to(val, shape)
    it = np.ndindex(*shape) if shape else [()]
    for pos in it:
        coords = [builtins.int(R[a][pos]) for a in range(arr.ndim)]
        v = val[pos]
        ranges = []
        for a in sym_axes:
            ranges.append(range(arr.shape[a]))
        for combo in itertools.product(*ranges):
            c2 = list(coords)
            cond = True
            for a, vv in zip(sym_axes, combo):
                t = terms[a][coords[a]]
                n = arr.shape[a]
                cond = and_(cond, mkbool(z3.simplify(z3.Or(t == vv, t == vv - n))))
                c2[a] = vv
            if cond is False:
                continue
            plain[tuple(c2)] = ite(cond, v, plain[tuple(c2)])


# --------------------------------------------------------------------------- #
# scalar element functions


def _conc(x):
    return not isinstance(x, Sym)


def _num(x):
    if isinstance(x, SBool):
        return x.num()
    if isinstance(x, np.generic):
        return x.item()
    return x


def sym_real(a):
    return _result(_elementwise(lambda e: e.re if isinstance(e, core.SCx) else (e.real if isinstance(e, complex) else e), [a]))


def s_isnan(x):
    if isinstance(x, SReal):
        return x.isnan()
    if isinstance(x, Sym):
        return False
    try:
        return builtins.bool(np.isnan(x))
    except TypeError:
        return False


def s_max(a, b, nanprop=True):
    a, b = _num(a), _num(b)
    if _conc(a) and _conc(b):
        return np.maximum(a, b) if nanprop else np.fmax(a, b)
    r = ite(a >= b, a, b)
    na, nb = s_isnan(a), s_isnan(b)
    if na is False and nb is False:
        return r
    if nanprop:
        return ite(na, a, ite(nb, b, r))
    return ite(na, b, ite(nb, a, r))


def s_min(a, b, nanprop=True):
    a, b = _num(a), _num(b)
    if _conc(a) and _conc(b):
        return np.minimum(a, b) if nanprop else np.fmin(a, b)
    r = ite(a <= b, a, b)
    na, nb = s_isnan(a), s_isnan(b)
    if na is False and nb is False:
        return r
    if nanprop:
        return ite(na, a, ite(nb, b, r))
    return ite(na, b, ite(nb, a, r))


def s_sign(x):
    x = _num(x)
    if _conc(x):
        return np.sign(x)
    r = ite(x > 0, 1, ite(x < 0, -1, 0))
    if isinstance(x, SReal):
        r = core._as_real(r)
        if x.nan is not False:
            r = SReal(r.t, x.nan)
    return r


def _uf_real(name):
    f = core.ufun("uf_" + name, z3.RealSort(), z3.RealSort())

    def g(x):
        x = _num(x)
        if _conc(x):
            return getattr(np, name)(x)
        r = core._as_real(x)
        return SReal(f(r.t), r.nan)
    return g


def s_floor(x):
    x = _num(x)
    if _conc(x):
        return np.floor(x)
    if isinstance(x, SFP):
        return x.floor()
    if isinstance(x, (SInt, SBV)):
        return x
    return core._as_real(x.floor())


def s_ceil(x):
    x = _num(x)
    if _conc(x):
        return np.ceil(x)
    if isinstance(x, SFP):
        return x.ceil()
    if isinstance(x, (SInt, SBV)):
        return x
    return core._as_real(x.ceil())


def s_trunc(x):
    x = _num(x)
    if _conc(x):
        return np.trunc(x)
    if isinstance(x, SInt):
        return x
    return core._as_real(x.trunc())


def s_rint(x):
    x = _num(x)
    if _conc(x):
        return np.rint(x)
    if isinstance(x, SFP):
        return SFP(z3.fpRoundToIntegral(core.RNE, x.t))
    if isinstance(x, (SBV, UVal)):
        return x
    if isinstance(x, SInt):
        return x
    return core._as_real(x.rint())


def s_and(a, b):
    return and_(a, b)


def s_or(a, b):
    return or_(a, b)


def s_not(a):
    return not_(a)


def s_bitand(a, b):
    if isinstance(a, (SBool, builtins.bool, np.bool_)) and isinstance(b, (SBool, builtins.bool, np.bool_)):
        return and_(a, b)
    return a & b


def s_bitor(a, b):
    if isinstance(a, (SBool, builtins.bool, np.bool_)) and isinstance(b, (SBool, builtins.bool, np.bool_)):
        return or_(a, b)
    return a | b


def s_invert(a):
    if isinstance(a, (SBool, builtins.bool, np.bool_)):
        return not_(a)
    return ~a


def s_div(a, b):
    """NumPy semantics: no exception on a zero divisor; x/0 (inf or nan in NumPy) is modelled as NaN"""
    a, b = _num(a), _num(b)
    if _conc(a) and _conc(b):
        with np.errstate(all="ignore"):
            return np.true_divide(a, b)
    if isinstance(a, (SFP, UVal, SBV)) or isinstance(b, (SFP, UVal, SBV)):
        return a / b
    ra, rb = core._as_real(a), core._as_real(b)
    z = core._b(mkbool(z3.simplify(rb.t == 0)))
    if z is False:
        return ra / rb
    if z is True:
        return SReal(z3.RealVal(0), True)
    safe = SReal(z3.If(z, z3.RealVal(1), rb.t), rb.nan)
    q = ra / safe
    nan = core._nan_or(z3.Or(core._bt(q.nan), z))
    return SReal(q.t, nan)


def s_mod(a, b):
    a, b = _num(a), _num(b)
    if _conc(a) and _conc(b):
        return np.mod(a, b)
    if isinstance(a, SReal) or isinstance(b, (SReal, builtins.float, np.floating)):
        q = s_floor(a / b)
        return a - q * b
    return a % b


def s_pow(a, b):
    a, b = _num(a), _num(b)
    if _conc(a) and _conc(b):
        return np.power(a, b)
    if _conc(b):
        return a ** (b.item() if isinstance(b, np.generic) else b)
    raise Unsupported("symbolic exponent")


def _c2(opname, npf):
    def f(a, b):
        a, b = _num(a), _num(b)
        if _conc(a) and _conc(b):
            return npf(a, b)
        import operator
        return getattr(operator, opname)(a, b)
    return f


def _c1(fn, npf):
    def f(a):
        a = _num(a)
        if _conc(a):
            return npf(a)
        return fn(a)
    return f


UFUNC_TABLE = {
    np.add: _c2("add", np.add),
    np.subtract: _c2("sub", np.subtract),
    np.multiply: _c2("mul", np.multiply),
    np.true_divide: s_div,
    np.floor_divide: _c2("floordiv", np.floor_divide),
    np.remainder: s_mod,
    np.power: s_pow,
    np.negative: _c1(lambda a: -a, np.negative),
    np.positive: lambda a: _num(a),
    np.absolute: _c1(abs, np.absolute),
    np.fabs: _c1(abs, np.fabs),
    np.square: _c1(lambda a: a * a, np.square),
    np.sign: s_sign,
    np.greater: _c2("gt", np.greater),
    np.greater_equal: _c2("ge", np.greater_equal),
    np.less: _c2("lt", np.less),
    np.less_equal: _c2("le", np.less_equal),
    np.equal: _c2("eq", np.equal),
    np.not_equal: _c2("ne", np.not_equal),
    np.logical_and: s_and,
    np.logical_or: s_or,
    np.logical_not: s_not,
    np.logical_xor: lambda a, b: core.ne_bool(a, b),
    np.bitwise_and: s_bitand,
    np.bitwise_or: s_bitor,
    np.bitwise_xor: lambda a, b: core.ne_bool(a, b) if isinstance(a, (SBool, builtins.bool, np.bool_)) else a ^ b,
    np.invert: s_invert,
    np.maximum: lambda a, b: s_max(a, b, True),
    np.minimum: lambda a, b: s_min(a, b, True),
    np.fmax: lambda a, b: s_max(a, b, False),
    np.fmin: lambda a, b: s_min(a, b, False),
    np.floor: s_floor,
    np.ceil: s_ceil,
    np.trunc: s_trunc,
    np.rint: s_rint,
    np.isnan: s_isnan,
    np.isfinite: lambda a: not_(s_isnan(a)) if isinstance(a, Sym) else builtins.bool(np.isfinite(a)),
    np.conjugate: lambda a: UVal(core.ufun('CONJ', core.USort, core.USort)(a.t)) if isinstance(a, UVal) else (a.conj() if isinstance(a, core.SCx) else a),
    np.cos: _uf_real("cos"),
    np.sin: _uf_real("sin"),
    np.exp: _uf_real("exp"),
    np.log: _uf_real("log"),
    np.sqrt: _uf_real("sqrt"),
    np.signbit: lambda a: (a < 0) if isinstance(a, Sym) else builtins.bool(np.signbit(a)),
}

REDUCE_UNIT = {np.add: 0, np.multiply: 1, np.logical_and: True, np.logical_or: False,
               np.bitwise_and: True, np.bitwise_or: False}


def _plain(x):
    if isinstance(x, SymArray):
        return x.view(np.ndarray)
    return x


def _elementwise(fn, inputs):
    ins = []
    for x in inputs:
        if isinstance(x, np.ndarray):
            ins.append(x.view(np.ndarray))
        elif isinstance(x, (list, tuple)):
            a = np.empty(len(x), dtype=object)
            try:
                arr = np.array(x)
                if arr.dtype != object or not has_sym(arr):
                    ins.append(arr)
                    continue
            except Exception:
                pass
            ins.append(np.array(x, dtype=object))
        else:
            ins.append(x)
    arrays = [x for x in ins if isinstance(x, np.ndarray)]
    if not arrays:
        return fn(*ins)
    conv = []
    for x in ins:
        if isinstance(x, np.ndarray):
            conv.append(x if x.dtype == object else x.astype(object))
        else:
            c = np.empty((), dtype=object)
            c[()] = x
            conv.append(c)
    bc = np.broadcast(*conv)
    out = np.empty(bc.shape, dtype=object)
    flat = out.reshape(-1) if out.ndim else out
    if out.ndim == 0:
        out[()] = fn(*[c[()] for c in conv])
        return out[()]
    i = 0
    for vals in bc:
        flat[i] = fn(*vals)
        i += 1
    return out


def _result(out, tag=None):
    if isinstance(out, np.ndarray):
        d = demote(out)
        if d.dtype != object:
            return d
        r = d.view(SymArray)
        r.tag = tag
        return r
    return out


def array_ufunc(ufunc, method, inputs, kwargs):
    if ufunc is np.matmul and method == "__call__":
        r = sym_matmul(inputs[0], inputs[1])
        out = kwargs.get("out")
        if out is not None:
            out[0].view(np.ndarray)[...] = r
            return out[0]
        return r
    fn = UFUNC_TABLE.get(ufunc)
    if fn is None:
        if not any(has_sym(x) for x in inputs):
            ins = [demote(_plain(x)) if isinstance(x, np.ndarray) else x for x in inputs]
            return getattr(ufunc, method)(*ins, **{k: v for k, v in kwargs.items() if k != "out"})
        raise Unsupported(f"ufunc {ufunc.__name__} on symbolic values")
    out = kwargs.get("out")
    if method == "__call__":
        where = kwargs.get("where", True)
        if where is not True:
            raise Unsupported("ufunc where=")
        res = _elementwise(fn, inputs)
        if out is not None:
            o = out[0]
            if isinstance(o, np.ndarray):
                if o.dtype != object and isinstance(res, np.ndarray) and has_sym(res):
                    raise Unsupported("in-place ufunc result does not fit a numeric array")
                o_plain = o.view(np.ndarray)
                if np.shape(res) != o_plain.shape and np.broadcast_shapes(np.shape(res), o_plain.shape) != o_plain.shape:
                    raise ValueError(f"non-broadcastable output operand with shape {o_plain.shape} doesn't match the broadcast shape {np.shape(res)}")
                o_plain[...] = res
                return o
        tag = None
        want = kwargs.get("dtype")
        if want is not None:
            d = _np_dtype(want)
            if d == np.dtype(np.float32):
                res = _round_to_float32(res)
                tag = d
            elif d.kind in "iub":
                res = _plain(cast_array(_result(res) if isinstance(res, np.ndarray) else res, d)) if isinstance(res, np.ndarray) else cast_scalar(res, d)
                tag = d
        return _result(res, tag)
    if method == "reduce":
        return _reduce(ufunc, fn, inputs[0], kwargs)
    if method == "accumulate":
        return _accumulate(fn, inputs[0], kwargs)
    if method == "at":
        tgt, idx, vals = inputs
        plain = tgt.view(np.ndarray) if isinstance(tgt, np.ndarray) else None
        if plain is None or (plain.dtype != object and has_sym(vals)):
            raise Unsupported("ufunc.at into a numeric array with symbolic values")
        idx_c = concretize_ints(np.asarray(_plain(idx) if isinstance(idx, np.ndarray) else idx))
        V = np.broadcast_to(np.asarray(_plain(vals), dtype=object), (len(idx_c),) + plain.shape[1:])
        for k, i in enumerate(idx_c.tolist()):
            if plain.ndim == 1:
                plain[i] = fn(plain[i], V[k])
            else:
                row = _elementwise(fn, [plain[i], V[k]])
                plain[i] = row
        return None
    if method == "outer":
        a, b = inputs
        a = np.asarray(_plain(a), dtype=object)
        b = np.asarray(_plain(b), dtype=object)
        return _result(_elementwise(fn, [a.reshape(a.shape + (1,) * b.ndim), b]))
    raise Unsupported(f"ufunc method {method}")


def _round_to_float32(res):
    """
    A computation asked for in single precision (ufunc dtype=np.float32) on values that are NOT known to be float32 already:
    each symbolic real x becomes F32(x), an uninterpreted function (so equal inputs round equally) constrained, on the terms it
    is applied to, by |F32(x) - x| <= 2^-24 |x| (round to nearest, normal range) and monotonicity.  An over-approximation of
    IEEE rounding: a counterexample that depends on it has to reproduce on the real code, otherwise it is inconclusive.
    """
    ctx = core.cur()
    f32 = core.ufun("F32", z3.RealSort(), z3.RealSort())
    seen = ctx.__dict__.setdefault("_f32_terms", [])
    flat = np.asarray(res, dtype=object).ravel().tolist() if isinstance(res, np.ndarray) else [res]
    out = []
    eps = z3.RealVal(Fraction(1, 2 ** 24))
    for e in flat:
        if isinstance(e, SReal) and e.nan is False:
            x = e.t
            r = f32(x)
            if not any(x.eq(y) for y in seen):
                ax = z3.If(x >= 0, x, -x)
                ctx.solver.add(z3.And(r - x <= ax * eps, x - r <= ax * eps))
                for y in seen:
                    ctx.solver.add(z3.Implies(y <= x, f32(y) <= r), z3.Implies(x <= y, r <= f32(y)))
                seen.append(x)
            out.append(SReal(r))
        elif isinstance(e, Sym) and not isinstance(e, (SInt, SBool)):
            raise Unsupported("single-precision rounding of this kind of symbolic value")
        elif isinstance(e, (builtins.float, np.floating)):
            out.append(builtins.float(np.float32(e)))
        else:
            out.append(e)
    if isinstance(res, np.ndarray):
        o = np.empty(len(out), dtype=object)
        for k, v in enumerate(out):
            o[k] = v
        return o.reshape(np.shape(res))
    return out[0]


def scalar_ufunc(ufunc, method, inputs, kwargs):
    return array_ufunc(ufunc, method, inputs, kwargs)


def _reduce(ufunc, fn, a, kwargs):
    a = np.asarray(_plain(a), dtype=object) if not isinstance(a, np.ndarray) else _plain(a)
    if a.dtype != object:
        a = a.astype(object)
    axis = kwargs.get("axis", 0)
    keepdims = kwargs.get("keepdims", False)
    if keepdims is np._NoValue:
        keepdims = False
    initial = kwargs.get("initial", np._NoValue)
    where = kwargs.get("where", True)
    if where is not True and where is not np._NoValue:
        raise Unsupported("reduce where=")
    if axis is None:
        axes = tuple(range(a.ndim))
    elif isinstance(axis, tuple):
        axes = tuple(x % a.ndim for x in axis)
    else:
        axes = (axis % a.ndim,) if a.ndim else ()
    keep = [i for i in range(a.ndim) if i not in axes]
    b = np.transpose(a, keep + list(axes))
    kshape = tuple(a.shape[i] for i in keep)
    n = int(np.prod([a.shape[i] for i in axes])) if axes else 1
    b = b.reshape(kshape + (n,))
    out = np.empty(kshape, dtype=object)
    for pos in (np.ndindex(*kshape) if kshape else [()]):
        lane = b[pos]
        if initial is not np._NoValue and initial is not None:
            acc = initial
            start = 0
        elif n == 0:
            if ufunc in REDUCE_UNIT:
                acc = REDUCE_UNIT[ufunc]
                start = 0
            else:
                raise ValueError(f"zero-size array to reduction operation {ufunc.__name__} which has no identity")
        elif ufunc in REDUCE_UNIT and ufunc in (np.logical_and, np.logical_or):
            acc = REDUCE_UNIT[ufunc]
            start = 0
        else:
            acc = lane[0]
            start = 1
        for i in range(start, n):
            acc = fn(acc, lane[i])
        out[pos] = acc
    if keepdims:
        shp = [1 if i in axes else a.shape[i] for i in range(a.ndim)]
        out = out.reshape(shp)
    if out.ndim == 0:
        return out[()]
    return _result(out)


def _accumulate(fn, a, kwargs):
    a = _plain(a)
    if a.dtype != object:
        a = a.astype(object)
    axis = kwargs.get("axis", 0) or 0
    b = np.moveaxis(a, axis, -1)
    out = np.empty(b.shape, dtype=object)
    for pos in (np.ndindex(*b.shape[:-1]) if b.ndim > 1 else [()]):
        acc = None
        for i in range(b.shape[-1]):
            acc = b[pos + (i,)] if i == 0 else fn(acc, b[pos + (i,)])
            out[pos + (i,)] = acc
    return _result(np.moveaxis(out, -1, axis))


# --------------------------------------------------------------------------- #
# casts


def _np_dtype(dt):
    if dt is globals().get("sym_float"):      # the repo modules' rebound `float` / `int`
        return np.dtype("float64")
    if dt is globals().get("sym_int"):
        return np.dtype("int64")
    if dt is builtins.int:
        return np.dtype("int64")
    if dt is builtins.float or dt == "float":
        return np.dtype("float64")
    if dt is builtins.bool:
        return np.dtype("bool")
    if dt is object:
        return np.dtype(object)
    if isinstance(dt, type) and issubclass(dt, Sym):
        return np.dtype(object)
    return np.dtype(dt)


def cast_scalar(x, dt):
    d = _np_dtype(dt)
    if d == object:
        return x
    if not isinstance(x, Sym):
        if d.kind in "iu" and isinstance(x, (builtins.float, np.floating)) and (math.isnan(x) or math.isinf(x)):
            raise Unsupported("cast of non-finite constant to integer")
        return d.type(x)
    if d.kind == "f":
        if isinstance(x, SBV):
            srt = z3.Float32() if d.itemsize == 4 else z3.Float64()
            return SFP(z3.fpSignedToFP(core.RNE, x.t, srt) if x.signed else z3.fpUnsignedToFP(core.RNE, x.t, srt))
        if isinstance(x, SFP):
            srt = z3.Float32() if d.itemsize == 4 else z3.Float64()
            return x if x.sort == srt else SFP(z3.fpFPToFP(core.RNE, x.t, srt))
        if isinstance(x, UVal):
            return x
        return core._as_real(x)
    if d.kind in "iu":
        if isinstance(x, SFP):
            w = d.itemsize * 8
            # C cast semantics (round toward zero); out-of-range is the caller's obligation
            return SBV(z3.fpToSBV(core.RTZ, x.t, z3.BitVecSort(w)) if d.kind == "i"
                       else z3.fpToUBV(core.RTZ, x.t, z3.BitVecSort(w)), signed=d.kind == "i")
        if isinstance(x, SBV):
            w = d.itemsize * 8
            if w == x.width:
                return SBV(x.t, signed=d.kind == "i")
            if w < x.width:
                return SBV(z3.Extract(w - 1, 0, x.t), signed=d.kind == "i")
            return SBV(z3.SignExt(w - x.width, x.t) if x.signed else z3.ZeroExt(w - x.width, x.t), signed=d.kind == "i")
        if isinstance(x, UVal):
            return UVal(core.ufun(f"cast_{d.name}", core.USort, core.USort)(x.t))
        if isinstance(x, SBool):
            return x.num()
        if isinstance(x, SInt):
            if d.itemsize == 1:     # 8-bit targets wrap (C cast); wider integer targets are assumed to hold the value
                off = 128 if d.kind == "i" else 0
                return (x + off) % 256 - off
            return x
        if d.itemsize == 1:
            t = x.trunc()
            off = 128 if d.kind == "i" else 0
            return (t + off) % 256 - off
        return x.trunc()
    if d.kind == "b":
        if isinstance(x, SBool):
            return x
        return x != 0
    raise Unsupported(f"cast to {d}")


def scalar0d(x, dt):
    """0-d SymArray holding one scalar (what ndarray-like code expects from scalar.astype)"""
    a = np.empty((), dtype=object)
    a[()] = x
    r = a.view(SymArray)
    r.tag = _np_dtype(dt)
    return r


def cast_array(a, dt):
    d = _np_dtype(dt)
    plain = _plain(a)
    if plain.dtype != object:
        return plain.astype(d)
    out = np.empty(plain.shape, dtype=object)
    of = out.reshape(-1)
    for i, e in enumerate(plain.ravel().tolist()):
        of[i] = cast_scalar(e, d)
    if d == object:
        r = out.view(SymArray)
        r.tag = getattr(a, "tag", None)
        return r
    if d.kind == "b" or not isinstance(a, SymArray):
        r = demote(out)
        if r.dtype != object:
            return r.astype(d)
    else:
        r = out
    r = r.view(SymArray)
    r.tag = d
    return r


# --------------------------------------------------------------------------- #
# models of NumPy functions


def sym_where(cond, *rest):
    if rest:
        x, y = rest
        return _result(_elementwise(lambda c, a, b: ite(c, a, b), [cond, x, y]))
    c = _plain(np.asarray(cond)) if not isinstance(cond, np.ndarray) else _plain(cond)
    if c.dtype == object:
        if is_mask(c):
            c = concretize_mask(c)
        else:
            c = concretize_mask(_plain(_elementwise(lambda e: e != 0, [c])))
    return np.nonzero(c)


def _lanes(a, axis):
    """yield (position, list of elements) along axis"""
    a = _plain(a)
    if a.dtype != object:
        a = a.astype(object)
    if axis is None:
        return None, [((), a.ravel().tolist())], ()
    b = np.moveaxis(a, axis, -1)
    shp = b.shape[:-1]
    return b, [(pos, b[pos].tolist()) for pos in (np.ndindex(*shp) if shp else [()])], shp


def sym_argext(a, axis, kind, skipnan):
    _, lanes, shp = _lanes(a, axis)
    out = np.empty(shp, dtype=object)
    for pos, lane in lanes:
        if not lane:
            raise ValueError("attempt to get argmax of an empty sequence")
        if skipnan:
            allnan = core.all_([s_isnan(e) for e in lane])
            if builtins.bool(allnan):
                raise ValueError("All-NaN slice encountered")
        best, bi = _num(lane[0]), 0
        for i in range(1, len(lane)):
            e = _num(lane[i])
            better = (e > best) if kind == "max" else (e < best)
            ne, nb = s_isnan(e), s_isnan(best)
            if skipnan:
                c = or_(and_(not_(ne), nb), better)
            else:
                c = or_(and_(ne, not_(nb)), better)
            best = ite(c, e, best)
            bi = ite(c, i, bi)
        out[pos] = bi
    if shp == ():
        return out[()]
    return _result(out)


def _cswap_sorted(lane):
    """sorting network (odd-even transposition) with ITE min/max; returns sorted list"""
    v = [_num(e) for e in lane]
    n = len(v)
    for rnd in range(n):
        for i in range(rnd % 2, n - 1, 2):
            a, b = v[i], v[i + 1]
            c = a <= b
            v[i], v[i + 1] = ite(c, a, b), ite(c, b, a)
    return v


def sym_sort(a, axis=-1):
    if any(s_isnan(e) is not False for e in _plain(a).ravel().tolist()):
        raise Unsupported("sort with possibly-NaN elements")
    b, lanes, shp = _lanes(a, axis)
    if axis is None:
        return _result(mk(_cswap_sorted(lanes[0][1])))
    out = np.empty(b.shape, dtype=object)
    for pos, lane in lanes:
        srt = _cswap_sorted(lane)
        for i, e in enumerate(srt):
            out[pos + (i,)] = e
    return _result(np.moveaxis(out, -1, axis))


def _only_kw(fn, kw, allowed):
    """models must not silently ignore an argument they do not implement (a changed tree may pass one): unknown -> Unsupported"""
    extra = set(kw) - set(allowed)
    if extra:
        raise Unsupported(f"{fn}: keyword(s) {sorted(extra)} not modelled")
    if kw.get("out") is not None:
        raise Unsupported(f"{fn}: out= not modelled")
    if kw.get("method", "linear") != "linear" or kw.get("interpolation", "linear") != "linear":
        raise Unsupported(f"{fn}: only linear interpolation is modelled")
    if kw.get("invert"):
        raise Unsupported(f"{fn}: invert= not modelled")


def sym_median(a, axis=None, **kw):
    _only_kw("sym_median", kw, ['keepdims', 'out', 'overwrite_input'])
    b, lanes, shp = _lanes(a, axis)
    out = np.empty(shp, dtype=object)
    for pos, lane in lanes:
        n = len(lane)
        if n == 0 or any(builtins.bool(s_isnan(e)) for e in lane):      # NumPy: a NaN anywhere in the lane gives NaN
            out[pos] = float("nan")
            continue
        s = _cswap_sorted(lane)
        out[pos] = s[n // 2] if n % 2 else (s[n // 2 - 1] + s[n // 2]) / 2
    if kw.get("keepdims"):
        raise Unsupported("median keepdims")
    if shp == ():
        return out[()]
    return _result(out)


def sym_percentile(a, q, axis=None, **kw):
    _only_kw("sym_percentile", kw, ['interpolation', 'keepdims', 'method', 'out', 'overwrite_input'])
    if kw.get("method", "linear") != "linear":
        raise Unsupported("percentile method")
    if not np.isscalar(q):
        raise Unsupported("vector percentile")
    b, lanes, shp = _lanes(a, axis)
    out = np.empty(shp, dtype=object)
    for pos, lane in lanes:
        n = len(lane)
        s = _cswap_sorted(lane)
        fr = Fraction(q) / 100 * (n - 1)
        lo = math.floor(fr)
        g = fr - lo
        hi = min(lo + 1, n - 1)
        out[pos] = s[lo] + (s[hi] - s[lo]) * g if g != 0 else s[lo]
    if shp == ():
        return out[()]
    return _result(out)


def sym_argsort_perm(keys_list, n):
    """
    Stable lexicographic argsort on symbolic keys by *forking*: the permutation is concretised through
    pairwise comparisons (insertion sort with bool() on SBool).  keys_list: primary key first.
    """
    def less(i, j):
        for k in keys_list:
            a, b = _num(k[i]), _num(k[j])
            if builtins.bool(a < b):
                return True
            if builtins.bool(a > b):
                return False
        return False
    order = []
    for i in range(n):
        p = len(order)
        while p > 0 and less(i, order[p - 1]):
            p -= 1
        order.insert(p, i)
    return np.array(order, dtype=np.int64)


def sym_unique(ar, return_index=False, return_inverse=False, return_counts=False, axis=None, **kw):
    _only_kw("sym_unique", kw, ['equal_nan'])
    a = _plain(np.asarray(ar))
    if a.dtype == object:
        a = concretize_values(a)
    return np.unique(a, return_index=return_index, return_inverse=return_inverse, return_counts=return_counts,
                     axis=axis, **kw)


def concretize_values(a):
    """fork over the values of every symbolic *integer-valued* element"""
    flat = []
    for e in _plain(a).ravel().tolist():
        if isinstance(e, SInt):
            flat.append(builtins.int(e))
        elif isinstance(e, SBool):
            flat.append(builtins.bool(e))
        elif isinstance(e, SReal):
            # only integer-valued reals can be enumerated
            f = e.floor()
            if not builtins.bool(core.eq(core._as_real(f), e)):
                raise Unsupported("concretising a non-integer symbolic real")
            flat.append(builtins.float(builtins.int(f)))
        elif isinstance(e, Sym):
            raise Unsupported(f"cannot concretise {type(e).__name__}")
        else:
            flat.append(e)
    return np.array(flat).reshape(np.shape(a))


def _maybe_nonfinite(v):
    if isinstance(v, (builtins.float, np.floating)):
        return math.isnan(v) or math.isinf(v)
    if isinstance(v, SFP):
        return True
    return isinstance(v, core.SReal) and v.nan is not False


def sym_matmul(a, b):
    a = np.asarray(_plain(a), dtype=object) if not isinstance(a, np.ndarray) else _plain(a)
    b = np.asarray(_plain(b), dtype=object) if not isinstance(b, np.ndarray) else _plain(b)
    a1 = a.ndim == 1
    b1 = b.ndim == 1
    A = a.reshape(1, -1) if a1 else a
    B = b.reshape(-1, 1) if b1 else b
    if A.ndim != 2 or B.ndim != 2:
        raise Unsupported("matmul with ndim > 2")
    if A.shape[1] != B.shape[0]:
        raise ValueError(f"matmul: shape mismatch {a.shape} @ {b.shape}")
    out = np.empty((A.shape[0], B.shape[1]), dtype=object)
    for i in range(A.shape[0]):
        for j in range(B.shape[1]):
            acc = 0
            for k in range(A.shape[1]):
                x, y = A[i, k], B[k, j]
                if (_conc(x) and x == 0 and not _maybe_nonfinite(y)) or (_conc(y) and y == 0 and not _maybe_nonfinite(x)):
                    continue            # 0 * finite; 0 * NaN / 0 * inf is NaN and must stay in the sum
                acc = acc + _num(x) * _num(y)
            out[i, j] = acc
    if a1 and b1:
        return out[0, 0]
    if a1:
        out = out[0]
    elif b1:
        out = out[:, 0]
    return _result(out)


def sym_array_equal(a, b, equal_nan=False):
    a, b = np.asarray(_plain(a)), np.asarray(_plain(b))
    if a.shape != b.shape:
        return False
    r = True
    for x, y in zip(a.ravel().tolist(), b.ravel().tolist()):
        r = and_(r, core.eq(x, y) if equal_nan or isinstance(x, (UVal, SBV, SFP)) or isinstance(y, (UVal, SBV, SFP))
                 else (_num(x) == _num(y)))
    return r


def sym_isclose(a, b, rtol=1e-5, atol=1e-8, equal_nan=False):
    def f(x, y):
        x, y = _num(x), _num(y)
        return abs(x - y) <= atol + rtol * abs(y)
    return _result(_elementwise(f, [a, b]))


def sym_searchsorted(a, v, side="left", sorter=None):
    if sorter is not None:
        raise Unsupported("searchsorted sorter")
    A = _plain(np.asarray(a))
    scalar = not isinstance(v, (np.ndarray, list, tuple))
    V = np.asarray(_plain(v) if isinstance(v, np.ndarray) else v, dtype=object).reshape(-1)
    out = []
    for x in V.tolist():
        cnt = 0
        for e in A.ravel().tolist():
            cnt = cnt + _num((_num(e) < _num(x)) if side == "left" else (_num(e) <= _num(x)))
        out.append(cnt)
    if scalar:
        return out[0]
    return _result(mk(out).reshape(np.shape(v)))


def sym_bincount(x, weights=None, minlength=0):
    if weights is not None:
        raise Unsupported("bincount weights")
    X = _plain(np.asarray(x)).ravel().tolist()
    if not has_sym(np.asarray(x)):
        return np.bincount(np.asarray(demote(_plain(x))), minlength=minlength)
    # length: needs max(x)+1 <= minlength on every path, otherwise concretise
    n = minlength
    for e in X:
        if isinstance(e, Sym) and builtins.bool(e >= n):
            raise Unsupported("bincount beyond minlength with symbolic data")
        if isinstance(e, Sym) and builtins.bool(e < 0):
            raise ValueError("'list' argument must have no negative elements")
    out = []
    for k in range(n):
        c = 0
        for e in X:
            c = c + _num(core.eq(e, k))
        out.append(c)
    return _result(mk(out))


def sym_isin(el, test, **kw):
    _only_kw("sym_isin", kw, ['assume_unique', 'invert'])
    T = _plain(np.asarray(test)).ravel().tolist()

    def f(e):
        r = False
        for t in T:
            r = or_(r, core.eq(e, t))
        return r
    return _result(_elementwise(f, [el]))


def sym_diff(a, n=1, axis=-1, prepend=np._NoValue, append=np._NoValue):
    return np.diff._implementation(a, n=n, axis=axis, prepend=prepend, append=append)


def _passthrough(func):
    def f(*args, **kwargs):
        return _rewrap(func._implementation(*args, **kwargs))
    return f


def _single_precision_inputs(objs):
    """True when the array inputs of a structural operation (concatenate, pad, r_, roll, ...) are all symbolic arrays tagged float32
    (scalars and shape/index arguments aside): NumPy keeps the dtype, and so does the result here.  Other tags are not propagated."""
    found = False

    def walk(x):
        nonlocal found
        if isinstance(x, SymArray):
            if getattr(x, "tag", None) != np.dtype(np.float32):
                return False
            found = True
            return True
        if isinstance(x, np.ndarray):
            return x.dtype.kind in "iub" or x.dtype == np.float32 or x.size == 0
        if isinstance(x, (list, tuple)):
            return all(walk(y) for y in x)
        if isinstance(x, (Sym, builtins.float, np.floating)) and not isinstance(x, (SInt, SBool)):
            return not isinstance(x, np.float64)
        return True
    ok = all(walk(o) for o in objs)
    return ok and found


def _retag(r, single):
    if single and isinstance(r, SymArray) and getattr(r, "tag", None) is None:
        r.tag = np.dtype(np.float32)
    return r


def _rewrap(r):
    if isinstance(r, np.ndarray) and r.dtype == object and not isinstance(r, SymArray):
        return _result(r)
    if isinstance(r, tuple):
        return tuple(_rewrap(x) for x in r)
    return r


def _structural(func):
    """run the real implementation on plain object arrays, wrap the result"""
    def f(*args, **kwargs):
        def conv(x):
            if isinstance(x, SymArray):
                return x.view(np.ndarray)
            if isinstance(x, Sym):
                c = np.empty((), dtype=object)
                c[()] = x
                return c
            if isinstance(x, (list, tuple)) and any(isinstance(y, (SymArray, Sym)) for y in x):
                return type(x)(conv(y) for y in x)
            return x
        r = func(*[conv(a) for a in args], **{k: conv(v) for k, v in kwargs.items()})
        return _retag(_rewrap(r), _single_precision_inputs(args[:1]))
    return f


def _concat_like(func):
    def f(arrays, *args, **kwargs):
        conv = []
        for x in arrays:
            if isinstance(x, SymArray):
                conv.append(x.view(np.ndarray))
            elif isinstance(x, Sym):
                c = np.empty((), dtype=object)
                c[()] = x
                conv.append(c)
            elif isinstance(x, np.ndarray):
                conv.append(x.astype(object))
            else:
                conv.append(np.asarray(x, dtype=object))
        single = "dtype" not in kwargs and _single_precision_inputs(list(arrays))
        kwargs.pop("dtype", None)
        kwargs.pop("casting", None)
        return _retag(_rewrap(func(conv, *args, **kwargs)), single)
    return f


def sym_pad(array, pad_width, mode="constant", **kwargs):
    """np.pad keeps the dtype of its input: padding an integer array with NaN is an error in NumPy (and here)"""
    tag = getattr(array, "tag", None)
    if mode == "constant" and tag is not None and np.dtype(tag).kind in "iu":
        cv = np.ravel(np.asarray(kwargs.get("constant_values", 0), dtype=object)).tolist()
        if any(isinstance(c, (builtins.float, np.floating)) and (math.isnan(c) or math.isinf(c)) for c in cv):
            raise ValueError("cannot convert float NaN to integer")
    r = _structural(np.pad._implementation)(array, pad_width, mode=mode, **kwargs)
    if isinstance(r, SymArray) and tag is not None and getattr(r, "tag", None) is None:
        r.tag = tag
    return r


def sym_zeros_like(a, dtype=None, order="K", subok=True, shape=None):
    shp = np.shape(a) if shape is None else shape
    r = filled(shp, 0 if dtype is None else _zero_of(dtype), tag=dtype or getattr(a, "tag", None))
    if subok and dtype is None and isinstance(a, SymArray) and type(a) is not SymArray and isinstance(r, np.ndarray):
        r = r.view(type(a))         # typed stand-ins (integer-valued arrays of a check) keep their kind, as NumPy keeps the dtype
    return r


def _zero_of(dtype):
    d = _np_dtype(dtype)
    if d.kind == "f":
        return 0.0
    if d.kind == "b":
        return False
    return 0


def filled(shape, value, tag=None):
    if isinstance(shape, (SInt, builtins.int, np.integer)):
        shape = (shape,)
    shape = tuple(builtins.int(s) for s in shape)
    a = np.empty(shape, dtype=object)
    a.fill(value)
    r = a.view(SymArray)
    r.tag = tag
    return r


def sym_round(a, decimals=0, out=None):
    if decimals != 0:
        raise Unsupported("round with decimals")
    return array_ufunc(np.rint, "__call__", (a,), {})


def sym_sum_like(ufunc):
    def f(a, axis=None, dtype=None, out=None, keepdims=False, initial=np._NoValue, where=True):
        return _reduce(ufunc, UFUNC_TABLE[ufunc], a, dict(axis=axis, keepdims=keepdims, initial=initial))
    return f


def sym_mean(a, axis=None, dtype=None, out=None, keepdims=False, where=None, **kw):
    if kw:
        raise Unsupported(f"np.mean keyword(s) {sorted(kw)}")
    if where is not None and where is not True:
        # mean over the selected elements only: sum(where ? x : 0) / count(where)
        W = np.broadcast_to(np.asarray(_plain(where), dtype=object) if isinstance(where, np.ndarray) else np.asarray(where, dtype=object), np.shape(_plain(a)))
        num = _reduce(np.add, UFUNC_TABLE[np.add], _elementwise(lambda x, w: ite(w, _num(x), 0) if isinstance(w, Sym) else (_num(x) if w else 0), [a, wrap(np.array(W, dtype=object))]),
                      dict(axis=axis, keepdims=keepdims))
        cnt = _reduce(np.add, UFUNC_TABLE[np.add], _elementwise(lambda w: _num(w) if isinstance(w, Sym) else (1 if w else 0), [wrap(np.array(W, dtype=object))]),
                      dict(axis=axis, keepdims=keepdims))
        if isinstance(num, np.ndarray):
            return _result(_elementwise(lambda x, n: s_div(x, n), [num, cnt]))
        return s_div(num, cnt)
    s = _reduce(np.add, UFUNC_TABLE[np.add], a, dict(axis=axis, keepdims=keepdims))
    A = np.asarray(_plain(a))
    if axis is None:
        n = A.size
    elif isinstance(axis, tuple):
        n = int(np.prod([A.shape[i] for i in axis]))
    else:
        n = A.shape[axis]
    if n == 0:
        # NumPy: mean of an empty slice is NaN (with a RuntimeWarning)
        import warnings
        with warnings.catch_warnings():
            warnings.simplefilter("ignore")
            r = np.mean(np.zeros(A.shape), axis=axis, keepdims=keepdims)
        return _result(np.asarray(r, dtype=object)) if isinstance(r, np.ndarray) and r.shape else builtins.float("nan")
    if isinstance(s, np.ndarray):
        return _result(_elementwise(lambda x: s_div(x, n), [s]))
    return s_div(s, n)


def sym_nansum(a, axis=None, **kw):
    _only_kw("sym_nansum", kw, ['dtype', 'keepdims', 'out'])
    z = _elementwise(lambda e: ite(s_isnan(e), 0.0, e) if isinstance(e, Sym) else (0.0 if s_isnan(e) else e), [a])
    return _reduce(np.add, UFUNC_TABLE[np.add], z, dict(axis=axis, keepdims=kw.get("keepdims", False)))


def sym_nanmean(a, axis=None, **kw):
    _only_kw("sym_nanmean", kw, ['dtype', 'keepdims', 'out'])
    tot = sym_nansum(a, axis=axis, **kw)
    cnt = _reduce(np.add, UFUNC_TABLE[np.add], _elementwise(lambda e: _num(not_(s_isnan(e))) if isinstance(s_isnan(e), Sym) else (0 if s_isnan(e) else 1), [a]),
                  dict(axis=axis, keepdims=kw.get("keepdims", False)))

    def div(t, c):
        t, c = _num(t), _num(c)
        if _conc(t) and _conc(c):
            with np.errstate(all="ignore"):
                return np.true_divide(t, c)
        return s_div(t, c)          # 0/0 -> NaN (all-NaN slice), as NumPy
    if isinstance(tot, np.ndarray) or isinstance(cnt, np.ndarray):
        return _result(_elementwise(div, [tot, cnt]))
    return div(tot, cnt)


def sym_nanmedian(a, axis=None, **kw):
    _only_kw("sym_nanmedian", kw, ['keepdims', 'out', 'overwrite_input'])
    """median ignoring NaN entries (a lane of NaNs only gives NaN); symbolic NaN flags fork"""
    A = np.asarray(_plain(a), dtype=object)
    if axis is None:
        A, axis = A.reshape(-1), 0
    axis = axis % A.ndim
    B = np.moveaxis(A, axis, -1)
    out = np.empty(B.shape[:-1], dtype=object)
    for pos in np.ndindex(*B.shape[:-1]):
        lane = [e for e in B[pos].tolist() if not builtins.bool(s_isnan(e))]
        if not lane:
            out[pos] = float("nan")
        elif len(lane) == 1:
            out[pos] = lane[0]
        else:
            m = sym_median(mk(lane))
            out[pos] = m[()] if isinstance(m, np.ndarray) else m
    if kw.get("overwrite_input"):
        _havoc_in_place(a)
    return _result(out) if out.shape else out[()]


def _havoc_in_place(a):
    """`overwrite_input=True`: NumPy may reorder the input array while it works - afterwards its content is unspecified.  The cells of
    the array the caller passed (a view writes through to its base, as in NumPy) become fresh unknown reals."""
    if not isinstance(a, np.ndarray) or a.dtype != object:
        return
    base = len(cur().inputs)
    flat_idx = list(np.ndindex(*a.shape))
    for n_, idx in enumerate(flat_idx):
        np.ndarray.__setitem__(a.view(np.ndarray), idx, cur().real(f"overwritten{base}_{n_}"))


def sym_nan_to_num(x, copy=True, nan=0.0, posinf=None, neginf=None):
    res = _elementwise(lambda e: ite(s_isnan(e), nan, e) if isinstance(e, Sym) else (nan if s_isnan(e) else e), [x])
    if not copy and isinstance(x, np.ndarray):
        # NumPy works IN PLACE on the caller's array when copy=False
        plain = x.view(np.ndarray)
        if plain.dtype != object and isinstance(res, np.ndarray) and has_sym(res):
            raise Unsupported("in-place nan_to_num result does not fit a numeric array")
        plain[...] = res
        return x
    return _result(res)


def sym_any(a, axis=None, out=None, keepdims=False, **kw):
    _only_kw("sym_any", kw, [])
    return _reduce(np.logical_or, s_or, _elementwise(lambda e: e if isinstance(e, (SBool, builtins.bool, np.bool_)) else _num(e) != 0, [a]),
                   dict(axis=axis, keepdims=keepdims))


def sym_all(a, axis=None, out=None, keepdims=False, **kw):
    _only_kw("sym_all", kw, [])
    return _reduce(np.logical_and, s_and, _elementwise(lambda e: e if isinstance(e, (SBool, builtins.bool, np.bool_)) else _num(e) != 0, [a]),
                   dict(axis=axis, keepdims=keepdims))


def sym_count_nonzero(a, axis=None, **kw):
    _only_kw("sym_count_nonzero", kw, ['keepdims'])
    return _reduce(np.add, UFUNC_TABLE[np.add], _elementwise(lambda e: _num(e != 0) if not isinstance(e, (SBool, builtins.bool, np.bool_)) else _num(e), [a]),
                   dict(axis=axis))


def sym_clip(a, a_min=None, a_max=None, out=None, **kw):
    _only_kw("sym_clip", kw, [])
    r = a
    if a_min is not None:
        r = array_ufunc(np.maximum, "__call__", (r, a_min), {})
    if a_max is not None:
        r = array_ufunc(np.minimum, "__call__", (r, a_max), {})
    return r


def sym_put(a, ind, v, mode="raise"):
    flat = _plain(a).reshape(-1)
    if flat.base is None and flat is not _plain(a):
        raise Unsupported("put on non-contiguous array")
    ind = np.atleast_1d(np.asarray(ind))
    v = np.atleast_1d(np.asarray(_plain(v), dtype=object))
    for i, k in enumerate(ind.tolist()):
        flat[k] = v[i % len(v)]


def sym_lexsort(keys, axis=-1):
    K = [np.asarray(_plain(k), dtype=object) for k in keys]
    if K and K[0].ndim != 1:
        K = [np.asarray(r, dtype=object) for r in np.asarray(_plain(keys), dtype=object)]
    n = K[0].shape[0]
    # np.lexsort: last key is the primary one
    return sym_argsort_perm([k.tolist() for k in reversed(K)], n)


def sym_argsort(a, axis=-1, kind=None, order=None, stable=None):
    A = np.asarray(_plain(a), dtype=object)
    if A.ndim != 1:
        raise Unsupported("argsort ndim>1")
    return sym_argsort_perm([A.tolist()], A.shape[0])


def sym_cumsum(a, axis=None, dtype=None, out=None):
    if out is not None:
        raise Unsupported("cumsum out=")
    tag = getattr(a, "tag", None)
    A = _plain(np.asarray(a))
    if axis is None:
        A = A.reshape(-1)
        axis = 0
    single = (tag == np.dtype(np.float32) and dtype is None) or (dtype is not None and _np_dtype(dtype) == np.dtype(np.float32))
    if single and A.ndim == 1 and A.dtype == object:
        # a running sum kept in single precision: every partial sum is rounded (this is where a float32 cumsum loses digits)
        acc, outl = None, []
        for e in A.tolist():
            acc = _num(e) if acc is None else _round_to_float32(np.array([acc + _num(e)], dtype=object)).ravel().tolist()[0]
            outl.append(acc)
        return mk(outl, tag=np.dtype(np.float32))
    return _accumulate(UFUNC_TABLE[np.add], A, dict(axis=axis))


def sym_ravel_multi_index(multi_index, dims, mode="raise", order="C"):
    mi = [np.asarray(_plain(m), dtype=object) for m in (multi_index if not isinstance(multi_index, np.ndarray) else list(multi_index))]
    if order != "C":
        raise Unsupported("ravel_multi_index order")
    out = None
    for m, d in zip(mi, dims):
        for e in m.ravel().tolist():
            if isinstance(e, Sym) and builtins.bool(or_(e < 0, e >= d)):
                raise ValueError("invalid entry in coordinates array")
        out = m if out is None else _plain(array_ufunc(np.add, "__call__", (array_ufunc(np.multiply, "__call__", (out, d), {}), m), {}))
    return _result(np.asarray(out, dtype=object))


FUNCTION_TABLE = {}


def _reg(func, impl):
    FUNCTION_TABLE[func] = impl


def _install():
    for f in (np.concatenate, np.hstack, np.vstack, np.stack, np.column_stack, np.dstack):
        _reg(f, _concat_like(f._implementation if hasattr(f, "_implementation") else f))
    for f in (np.reshape, np.transpose, np.swapaxes, np.moveaxis, np.squeeze, np.expand_dims, np.flip, np.fliplr, np.flipud,
              np.roll, np.tile, np.repeat, np.take, np.ravel, np.broadcast_to, np.atleast_1d, np.atleast_2d, np.copy,
              np.take_along_axis, np.rot90, np.array_split, np.split, np.delete, np.insert, np.append, np.pad, np.diag,
              np.triu, np.tril, np.compress, np.resize, np.trim_zeros):
        _reg(f, _structural(f._implementation))
    for f in (np.diff, np.ediff1d, np.gradient, np.outer, np.trace, np.average, np.ptp, np.cross,
              np.imag, np.iscomplexobj, np.isrealobj, np.iscomplex, np.isreal, np.shape, np.ndim, np.size, np.var, np.std,
              np.angle, np.apply_along_axis, np.flatnonzero, np.argwhere, np.empty_like, np.full_like, np.ones_like,
              np.result_type, np.can_cast, np.around, np.fix, np.linspace, np.ix_, np.meshgrid,
              np.setxor1d, np.intersect1d, np.union1d, np.array_equiv, np.allclose, np.unravel_index):
        _reg(f, _passthrough(f))
    _reg(np.pad, sym_pad)
    _reg(np.where, sym_where)
    _reg(np.real, sym_real)
    _reg(np.nonzero, lambda a: sym_where(a))
    _reg(np.flatnonzero, lambda a: sym_where(np.ravel(a))[0])
    _reg(np.argmax, lambda a, axis=None, out=None, **kw: sym_argext(a, axis, "max", False))
    _reg(np.argmin, lambda a, axis=None, out=None, **kw: sym_argext(a, axis, "min", False))
    _reg(np.nanargmax, lambda a, axis=None, out=None, **kw: sym_argext(a, axis, "max", True))
    _reg(np.nanargmin, lambda a, axis=None, out=None, **kw: sym_argext(a, axis, "min", True))
    _reg(np.sort, lambda a, axis=-1, **kw: sym_sort(a, axis))
    _reg(np.partition, lambda a, kth, axis=-1, **kw: sym_sort(a, axis))
    _reg(np.median, sym_median)
    _reg(np.percentile, sym_percentile)
    _reg(np.unique, sym_unique)
    _reg(np.matmul, lambda a, b, **kw: sym_matmul(a, b))
    _reg(np.dot, lambda a, b, out=None: sym_matmul(a, b))
    _reg(np.array_equal, sym_array_equal)
    _reg(np.isclose, sym_isclose)
    _reg(np.searchsorted, sym_searchsorted)
    _reg(np.bincount, sym_bincount)
    _reg(np.isin, sym_isin)
    _reg(np.zeros_like, sym_zeros_like)
    _reg(np.round, sym_round)
    _reg(np.sum, sym_sum_like(np.add))
    _reg(np.prod, sym_sum_like(np.multiply))
    _reg(np.max, sym_sum_like(np.maximum))
    _reg(np.min, sym_sum_like(np.minimum))
    _reg(np.amax, sym_sum_like(np.maximum))
    _reg(np.amin, sym_sum_like(np.minimum))
    _reg(np.nanmax, sym_sum_like(np.fmax))
    _reg(np.nanmin, sym_sum_like(np.fmin))
    _reg(np.mean, sym_mean)
    _reg(np.nanmean, sym_nanmean)
    _reg(np.nanmedian, sym_nanmedian)
    _reg(np.nansum, sym_nansum)
    _reg(np.nan_to_num, sym_nan_to_num)
    _reg(np.any, sym_any)
    _reg(np.all, sym_all)
    _reg(np.count_nonzero, sym_count_nonzero)
    _reg(np.clip, sym_clip)
    _reg(np.put, sym_put)
    _reg(np.lexsort, sym_lexsort)
    _reg(np.argsort, sym_argsort)
    _reg(np.cumsum, sym_cumsum)
    _reg(np.ravel_multi_index, sym_ravel_multi_index)
    _reg(np.isscalar, lambda x: not isinstance(x, np.ndarray))


_install()

# hooks that harnesses may extend (e.g. scipy stubs keyed by function object)
EXTRA_FUNCTIONS = {}


def array_function(func, types, args, kwargs):
    impl = EXTRA_FUNCTIONS.get(func) or FUNCTION_TABLE.get(func)
    if impl is None:
        raise Unsupported(f"numpy function {getattr(func, '__module__', '')}.{getattr(func, '__name__', func)} on symbolic arrays")
    return impl(*args, **kwargs)


# --------------------------------------------------------------------------- #
# the `np` facade rebound in the repo modules' globals


class _IndexTrick:
    def __init__(self, real):
        self._real = real

    def __getitem__(self, key):
        ks = key if isinstance(key, tuple) else (key,)
        if not any(isinstance(k, (Sym, SymArray)) for k in ks):
            return self._real[key]
        conv = []
        for k in ks:
            if isinstance(k, SymArray):
                conv.append(k.view(np.ndarray))
            elif isinstance(k, Sym):
                c = np.empty((1,), dtype=object)
                c[0] = k
                conv.append(c)
            elif isinstance(k, np.ndarray):
                conv.append(k.astype(object))
            elif isinstance(k, (str, slice)):
                conv.append(k)
            else:
                conv.append(np.atleast_1d(np.asarray(k, dtype=object)) if not np.isscalar(k) else np.array([k], dtype=object))
        return _retag(_rewrap(self._real[tuple(conv)]), _single_precision_inputs([k for k in ks if not isinstance(k, (str, slice))]))


class _CastMeta(type):
    def __call__(cls, x=0, *a, **k):
        if isinstance(x, Sym):
            return cast_scalar(x, cls._dt)
        if isinstance(x, np.ndarray) and x.dtype == object:
            return cast_array(x, cls._dt)
        if isinstance(x, (list, tuple)) and has_sym(x):
            return cast_array(mk(list(x)), cls._dt)
        if isinstance(x, str) or (isinstance(x, (list, tuple)) and x and all(isinstance(e, str) for e in x)):
            from . import tokens
            items = [x] if isinstance(x, str) else list(x)
            if any(tokens.has_token(e) for e in items):
                kind = np.dtype(cls._dt).kind
                dec = [(tokens.decode_float(e) if kind == "f" else tokens.decode_int(e)) if tokens.has_token(e)
                       else cls._real(e) for e in items]
                if isinstance(x, str):
                    return dec[0]
                r = mk(dec)
                r.tag = np.dtype(cls._dt)
                return r
        return cls._real(x, *a, **k)

    def __instancecheck__(cls, x):
        return isinstance(x, cls._real)

    def __subclasscheck__(cls, c):
        return issubclass(c, cls._real)

    def __eq__(cls, o):
        return o is cls or o is cls._real or (isinstance(o, _CastMeta) and o._real is cls._real)

    def __hash__(cls):
        return hash(cls._real)


def _cast_type(real):
    return _CastMeta("sym_" + real.__name__, (real,), {"_real": real, "_dt": np.dtype(real)})


class NPFacade:
    """stands for the `numpy` module inside the repo modules while they run symbolically"""

    def __init__(self):
        self._ov = {}
        for t in (np.int8, np.int16, np.int32, np.int64, np.uint8, np.uint16, np.float32, np.float64):
            self._ov[t.__name__] = _cast_type(t)
        self._ov["double"] = self._ov["float64"]
        self._ov["r_"] = _IndexTrick(np.r_)
        self._ov["c_"] = _IndexTrick(np.c_)
        self._ov["zeros"] = lambda shape, dtype=float, order="C", **k: filled(shape, _zero_of(dtype), tag=np.dtype(_np_dtype(dtype)))
        self._ov["ones"] = lambda shape, dtype=None, order="C", **k: filled(shape, 1.0 if dtype is None or _np_dtype(dtype).kind == "f" else 1, tag=_np_dtype(dtype or float))
        self._ov["empty"] = self._ov["zeros"]
        self._ov["full"] = lambda shape, fill_value, dtype=None, **k: filled(shape, fill_value, tag=dtype)
        self._ov["array"] = self._array
        self._ov["asarray"] = self._asarray
        self._ov["isscalar"] = lambda x: isinstance(x, Sym) or np.isscalar(x)
        self._ov["arange"] = self._arange
        self._ov["minimum"] = np.minimum
        self._ov["maximum"] = np.maximum

    @staticmethod
    def _arange(*args, **kw):
        args = [builtins.int(a) if isinstance(a, SInt) else a for a in args]
        return np.arange(*args, **kw)

    @staticmethod
    def _asarray(obj, dtype=None, **kw):
        """np.asarray: NO copy when the input already is an array of the requested dtype (the result aliases the caller's array)"""
        if dtype is not None and dtype in (globals().get("sym_int"), globals().get("sym_float")):
            dtype = _np_dtype(dtype)
        if isinstance(obj, SymArray):
            tag = getattr(obj, "tag", None)
            if dtype is None or (tag is not None and _np_dtype(dtype) == tag):
                return obj
        return NPFacade._array(obj, dtype=dtype, copy=False if isinstance(obj, SymArray) else True, **kw) if isinstance(obj, (SymArray, Sym, list, tuple)) else np.asarray(obj, dtype=dtype, **kw)

    @staticmethod
    def _array(obj, dtype=None, copy=True, **kw):
        if dtype is not None and dtype in (globals().get("sym_int"), globals().get("sym_float")):
            dtype = _np_dtype(dtype)          # the repo modules' rebound `int` / `float` used as a dtype
        if isinstance(obj, SymArray):
            r = obj.copy() if copy else obj
            return cast_array(r, dtype) if dtype is not None else r
        if isinstance(obj, Sym):
            c = np.empty((), dtype=object)
            c[()] = obj
            return c.view(SymArray)
        if isinstance(obj, (list, tuple)) and _deep_has_sym(obj):
            a = np.array(_deep_plain(obj), dtype=object)
            r = a.view(SymArray)
            return cast_array(r, dtype) if dtype is not None else r
        return np.array(obj, dtype=dtype, copy=copy, **kw)

    def __getattr__(self, name):
        ov = self.__dict__["_ov"]
        f = ov[name] if name in ov else getattr(np, name)
        if name in _DTYPE_KW_FUNCS and callable(f):
            return _dtype_kw_wrapper(f)          # array constructors only: every other function keeps its identity (`fcn is np.nanmean` must stay true)
        return f


_WRAPPED = {}
_DTYPE_KW_FUNCS = {"arange", "zeros", "ones", "empty", "full", "array", "asarray", "eye", "identity", "linspace", "zeros_like", "ones_like", "empty_like",
                   "full_like", "fromiter", "frombuffer", "ascontiguousarray", "asanyarray"}


def _dtype_kw_wrapper(f):
    """the repo modules' `int` / `float` are rebound to symbolic-aware classes: used as `dtype=int` they must mean int64 / float64"""
    w = _WRAPPED.get(id(f))
    if w is None:
        def w(*a, **k):
            d = k.get("dtype")
            if d is not None and d in (globals().get("sym_int"), globals().get("sym_float")):
                k["dtype"] = _np_dtype(d)
            return f(*a, **k)
        try:
            w.__name__ = getattr(f, "__name__", "wrapped")
        except Exception:  # noqa
            pass
        w.__wrapped__ = f
        _WRAPPED[id(f)] = w
    return w


def _deep_has_sym(x):
    if isinstance(x, (Sym, SymArray)):
        return True
    if isinstance(x, (list, tuple)):
        return any(_deep_has_sym(y) for y in x)
    if isinstance(x, np.ndarray) and x.dtype == object:
        return has_sym(x)
    return False


def _deep_plain(x):
    if isinstance(x, SymArray):
        return x.view(np.ndarray).tolist()
    if isinstance(x, np.ndarray):
        return x.tolist()
    if isinstance(x, (list, tuple)):
        return [_deep_plain(y) for y in x]
    return x


KEEP_BV_INT = [0]     # when set to a width: int() keeps bit-vectors (IEEE lemmas on integer-to-float formulas)


class SymIntMeta(type):
    def __call__(cls, x=0, *a):
        if isinstance(x, SInt):
            return x
        if isinstance(x, SReal):
            return x.trunc()
        if isinstance(x, SBool):
            return x.num()
        if isinstance(x, SBV):
            return x if KEEP_BV_INT[0] else x.to_int()
        if isinstance(x, SFP):
            return x.to_sbv(KEEP_BV_INT[0] or 64)
        if isinstance(x, SymArray):
            if x.size != 1:
                raise TypeError("only length-1 arrays can be converted to Python scalars")
            return cls(x.view(np.ndarray).ravel()[0])
        if isinstance(x, str):
            from . import tokens
            v = tokens.decode_int(x)
            if v is not None:
                return v
        return builtins.int(x, *a)

    def __instancecheck__(cls, x):
        return isinstance(x, builtins.int)


class sym_int(metaclass=SymIntMeta):
    """rebound as `int` in repo module globals"""


class SymFloatMeta(type):
    def __call__(cls, x=0.0):
        if isinstance(x, SReal):
            return x
        if isinstance(x, (SInt, SBool)):
            return core._as_real(x)
        if isinstance(x, SBV):
            return x.to_fp()
        if isinstance(x, SFP):
            return x
        if isinstance(x, SymArray):
            return cls(x.view(np.ndarray).ravel()[0])
        if isinstance(x, str):
            from . import tokens
            v = tokens.decode_float(x)
            if v is not None:
                return v
        return builtins.float(x)

    def __instancecheck__(cls, x):
        return isinstance(x, builtins.float) or isinstance(x, SReal)


class sym_float(metaclass=SymFloatMeta):
    """rebound as `float` in repo module globals"""


def sym_round_builtin(x, n=None):
    if isinstance(x, Sym):
        return x.__round__(n) if n is not None else x.__round__()
    return builtins.round(x) if n is None else builtins.round(x, n)


def _sym_extreme(kind):
    real = builtins.max if kind == "max" else builtins.min

    def f(*args, **kw):
        single = len(args) == 1 and not kw
        items = list(args[0]) if single else list(args)
        if kw or not any(isinstance(a, Sym) for a in items) or any(isinstance(a, (np.ndarray, UVal)) for a in items):
            return real(items, **kw) if single else real(*args, **kw)     # (an iterator argument has been consumed above)
        acc = items[0]
        for x in items[1:]:
            if isinstance(acc, SBV) or isinstance(x, SBV) or isinstance(acc, SFP) or isinstance(x, SFP):
                c = (x > acc) if kind == "max" else (x < acc)
            else:
                c = (_num(x) > _num(acc)) if kind == "max" else (_num(x) < _num(acc))
            acc = ite(c, x, acc)
        return acc
    return f


sym_max = _sym_extreme("max")
sym_min = _sym_extreme("min")

NP = NPFacade()


def patch_module(mod, **extra):
    """rebind numpy + int/float/round in a repo module's globals"""
    if hasattr(mod, "np"):
        mod.np = NP
    mod.int = sym_int
    mod.float = sym_float
    mod.round = sym_round_builtin
    mod.max = sym_max
    mod.min = sym_min
    for k, v in extra.items():
        setattr(mod, k, v)


# --------------------------------------------------------------------------- #
# bit-level models (int16 sync words)


def _view_bytes(self, dtype=None, type=None):
    """SymArray.view: structural views keep working, uint8 reinterpretation of bit-vector words is modelled"""
    if dtype is None and type is None:
        return np.ndarray.view(self)
    if isinstance(dtype, builtins.type) and issubclass(dtype, np.ndarray):
        return np.ndarray.view(self, dtype)
    if type is not None and dtype is None:
        return np.ndarray.view(self, type)
    d = _np_dtype(dtype)
    if d == object:
        return np.ndarray.view(self, np.ndarray).view(SymArray)
    plain = np.ndarray.view(self, np.ndarray)
    if d == np.dtype(np.uint8):
        out = []
        for e in plain.ravel().tolist():
            if isinstance(e, SInt):
                w = (self.tag or np.dtype(np.int16)).itemsize * 8
                e = SBV(z3.Int2BV(e.t, w), signed=True)
            if isinstance(e, SBV):
                w = e.width
                for b in range(w // 8):  # little endian
                    out.append(SBV(z3.Extract(8 * b + 7, 8 * b, e.t), signed=False))
            elif isinstance(e, (builtins.int, np.integer)):
                tg = self.tag or np.dtype(np.int16)
                for b in np.array([e], dtype=tg).view(np.uint8).tolist():
                    out.append(b)
            else:
                raise Unsupported(f"byte view of {builtins.type(e).__name__}")
        k = len(out) // max(plain.size, 1) if plain.size else 1
        shp = plain.shape[:-1] + (plain.shape[-1] * k,) if plain.ndim else (k,)
        r = mk(out, shape=shp, tag=np.dtype(np.uint8))
        return r
    if d.kind in "iu":
        # same-width reinterpretation of bit-vector words (signedness only)
        out = []
        for e in plain.ravel().tolist():
            if isinstance(e, SInt):
                w0 = (self.tag or np.dtype(np.int16)).itemsize * 8
                e = SBV(z3.Int2BV(e.t, w0), signed=True)
            if isinstance(e, SBV) and e.width == d.itemsize * 8:
                out.append(SBV(e.t, signed=d.kind == "i"))
            elif isinstance(e, (builtins.int, np.integer)) and self.tag is not None and self.tag.itemsize == d.itemsize:
                out.append(np.array([e], dtype=self.tag).view(d)[0].item())
            else:
                raise Unsupported(f"view of {builtins.type(e).__name__} as {d}")
        return mk(out, shape=plain.shape, tag=d)
    raise Unsupported(f"view as {d}")


SymArray.view = _view_bytes


def _s_shift(right):
    def f(a, k):
        a, k = _num(a), _num(k)
        if _conc(a) and _conc(k):
            return (np.right_shift if right else np.left_shift)(a, k)
        if isinstance(a, SBV) and _conc(k):
            kk = builtins.int(k)
            if right:
                return SBV(a.t >> kk if a.signed else z3.LShR(a.t, kk), a.signed)
            return SBV(a.t << kk, a.signed)
        if isinstance(a, SInt) and _conc(k):
            kk = builtins.int(k)
            return (a // (1 << kk)) if right else (a * (1 << kk))
        raise Unsupported("shift with symbolic amount")
    return f


UFUNC_TABLE[np.right_shift] = _s_shift(True)
UFUNC_TABLE[np.left_shift] = _s_shift(False)


def sym_unpackbits(a, axis=None, count=None, bitorder="big"):
    if axis is not None or count is not None:
        raise Unsupported("unpackbits axis/count")
    out = []
    for e in _plain(a).ravel().tolist():
        rng = range(7, -1, -1) if bitorder == "big" else range(8)
        for b in rng:
            if isinstance(e, SBV):
                out.append(SBV(z3.Extract(b, b, e.t), signed=False))
            else:
                out.append((builtins.int(e) >> b) & 1)
    return mk(out, tag=np.dtype(np.uint8))


_reg(np.unpackbits, sym_unpackbits)
