"""
Path explorer + symbolic scalars on z3.

The code under test is the repository's real Python; it is *executed* with
`SInt`/`SReal`/`SBool` values flowing through it.  Python control flow on a
symbolic condition (`SBool.__bool__`) forks the path: the harness function is
re-executed with a decision prefix, feasibility of each side is decided by z3.

Soundness conventions
  * `Unsupported` / `BoundExceeded` / solver `unknown` make the whole check
    *inconclusive* (exit 3) - never a pass, never a VIOLATION.
  * these control exceptions derive from BaseException so that `except Exception`
    clauses in the code under test (or in NumPy) cannot swallow them.
"""
from __future__ import annotations

import builtins
import math
import os
import time
from fractions import Fraction

import z3

# --------------------------------------------------------------------------- #
# control-flow exceptions


class Inconclusive(BaseException):
    """base of everything that must turn into exit code 3"""


class Unsupported(Inconclusive):
    pass


class BoundExceeded(Inconclusive):
    pass


class SolverUnknown(Inconclusive):
    pass


class PathInfeasible(BaseException):
    """raised by assume() when the current path has no model left"""


class PathEnd(BaseException):
    """ends the current path normally (e.g. after the code under test raised and that was recorded)"""


# --------------------------------------------------------------------------- #
# explorer

_CUR = None  # the active PathCtx


def cur():
    if _CUR is None:
        raise Unsupported("symbolic value used outside an exploration")
    return _CUR


class Stats:
    def __init__(self):
        self.paths = 0
        self.infeasible = 0
        self.sat_queries = 0
        self.obligations = 0
        self.discharged = 0
        self.solver_s = 0.0
        self.raised = 0
        self.path_samples = []
        self.obligation_names = {}

    def merge(self, o):
        self.paths += o.paths
        self.infeasible += o.infeasible
        self.sat_queries += o.sat_queries
        self.obligations += o.obligations
        self.discharged += o.discharged
        self.solver_s += o.solver_s
        self.raised += o.raised
        for k, v in o.obligation_names.items():
            self.obligation_names[k] = self.obligation_names.get(k, 0) + v
        if len(self.path_samples) < 6:
            self.path_samples.extend(o.path_samples[: 6 - len(self.path_samples)])

    def as_dict(self):
        return dict(paths=self.paths, infeasible_branches=self.infeasible, sat_queries=self.sat_queries,
                    obligations=self.obligations, discharged=self.discharged, solver_s=round(self.solver_s, 3),
                    raising_paths=self.raised, obligation_names=self.obligation_names)


class Counterexample:
    def __init__(self, obligation, model, detail=None, path=None):
        self.obligation = obligation
        self.model = model          # dict name -> python value
        self.detail = detail or {}
        self.path = path or []

    def __repr__(self):
        return f"CEX({self.obligation}, {self.model}, {self.detail})"


class PathCtx:
    def __init__(self, explorer, prefix):
        self.ex = explorer
        self.prefix = prefix
        self.decisions = []
        self.solver = explorer.solver
        self.nfresh = 0
        self.inputs = {}        # name -> z3 term (named symbolic inputs, used for models)
        self.integer_inputs = set()   # names of Real-sorted inputs that stand for integers (witnesses refined to integers)
        self.trace = []         # free-form records made by stubs (fs ops, writes ...)
        self.notes = []
        self.cexs = []

    # -- variables ---------------------------------------------------------
    def _name(self, base):
        self.nfresh += 1
        return f"{base}!{self.nfresh}"

    def int(self, name, lo=None, hi=None):
        t = z3.Int(name)
        self.inputs[name] = t
        if lo is not None:
            self.solver.add(t >= lo)
        if hi is not None:
            self.solver.add(t <= hi)
        return SInt(t)

    def real(self, name, lo=None, hi=None, integer_valued=False):
        """`integer_valued`: the input stands for an integer (e.g. an int16 word) but is given the Real sort because mixed
        Int/Real queries are much slower; obligations are then proved over the reals (a stronger statement) and
        counterexamples are refined to integer witnesses before replay"""
        t = z3.Real(name)
        self.inputs[name] = t
        if integer_valued:
            self.integer_inputs.add(name)
        if lo is not None:
            self.solver.add(t >= _rv(lo))
        if hi is not None:
            self.solver.add(t <= _rv(hi))
        return SReal(t)

    def bool(self, name):
        t = z3.Bool(name)
        self.inputs[name] = t
        return SBool(t)

    def bv(self, name, width):
        t = z3.BitVec(name, width)
        self.inputs[name] = t
        return SBV(t, signed=True)

    def fresh_int(self, base="k"):
        return z3.Int(self._name(base))

    def fresh_real(self, base="r"):
        return z3.Real(self._name(base))

    # -- constraints -------------------------------------------------------
    def assume(self, cond):
        c = _b(cond)
        if c is True:
            return
        self.solver.add(_bt(c))
        if c is False or self._check() != z3.sat:
            raise PathInfeasible()

    def _check(self, *extra):
        t0 = time.time()
        r = self.solver.check(*extra)
        self.ex.stats.solver_s += time.time() - t0
        self.ex.stats.sat_queries += 1
        if r == z3.unknown:
            raise SolverUnknown(f"z3 unknown: {self.solver.reason_unknown()}")
        return r

    def decide(self, cond):
        """branch on a z3 Bool; returns a Python bool and records the decision"""
        cond = z3.simplify(cond)
        if z3.is_true(cond):
            return True
        if z3.is_false(cond):
            return False
        i = len(self.decisions)
        if i < len(self.prefix):
            v = self.prefix[i]
            self.decisions.append(v)
            self.solver.add(cond if v else z3.Not(cond))
            return v
        if i >= self.ex.max_depth:
            raise BoundExceeded(f"more than {self.ex.max_depth} symbolic decisions on one path")
        can_t = self._check(cond) == z3.sat
        can_f = self._check(z3.Not(cond)) == z3.sat
        if can_t and can_f:
            self.ex.schedule(self.decisions + [False])
            v = True
        elif can_t:
            v = True
            self.ex.stats.infeasible += 1
        elif can_f:
            v = False
            self.ex.stats.infeasible += 1
        else:
            raise PathInfeasible()
        self.decisions.append(v)
        self.solver.add(cond if v else z3.Not(cond))
        return v

    def concretize(self, term, lo=None, hi=None, limit=None):
        limit = limit or self.ex.concretize_limit
        """fork over the feasible integer values of `term` (bounded)"""
        term = z3.simplify(term)
        if z3.is_int_value(term):
            return term.as_long()
        n = 0
        lo = None            # every value below lo is known infeasible
        while True:
            if self._check() != z3.sat:
                raise PathInfeasible()
            v = self.solver.model().eval(term, model_completion=True).as_long()
            # candidates must not depend on the model the solver happens to return (paths are re-executed with a
            # decision prefix): always branch on the SMALLEST feasible value (binary search once a lower bound is known)
            if lo is None:
                while self._check(term < v) == z3.sat:
                    v = self.solver.model().eval(term, model_completion=True).as_long()
            else:
                a, b = lo, v
                while a < b:
                    mid = (a + b) // 2
                    if self._check(term <= mid) == z3.sat:
                        b = self.solver.model().eval(term, model_completion=True).as_long()
                    else:
                        a = mid + 1
                v = b
            lo = v + 1
            if self.decide(term == v):
                return v
            n += 1
            if n > limit:
                raise BoundExceeded(f"more than {limit} candidate values while concretising {term}")

    # -- obligations -------------------------------------------------------
    def oblige(self, name, cond, detail=None):
        """the property-side assertion: pc ∧ ¬cond must be unsat"""
        st = self.ex.stats
        st.obligations += 1
        st.obligation_names[name] = st.obligation_names.get(name, 0) + 1
        c = _b(cond)
        if c is True:
            st.discharged += 1
            return True
        neg = z3.BoolVal(True) if c is False else z3.Not(_bt(c))
        r = self._check(neg)
        if r == z3.unsat:
            st.discharged += 1
            return True
        m = self.solver.model()
        # prefer a witness whose real inputs are exactly representable as floats (multiples of 1/64): replays run in IEEE
        reals = [(k, t) for k, t in self.inputs.items() if z3.is_real(t)]
        if reals and len(reals) <= 64:
            self.solver.push()
            try:
                self.solver.set("timeout", 20000 if self.integer_inputs else 5000)
                for i, (k, t) in enumerate(reals):
                    self.solver.add(t * (1 if k in self.integer_inputs else 64) == z3.ToReal(z3.Int(f"nice!{i}")))
                if self.solver.check(neg) == z3.sat:
                    m = self.solver.model()
            finally:
                self.solver.set("timeout", self.ex.timeout_ms)
                self.solver.pop()
        model = {k: _pyval(m.eval(t, model_completion=True)) for k, t in self.inputs.items()}
        d = dict(detail or {})
        for k, v in list(d.items()):
            d[k] = _model_eval(m, v)
        cex = Counterexample(name, model, d, list(self.decisions))
        self.cexs.append(cex)
        self.ex.cexs.append(cex)
        return False

    def reachable(self):
        return self._check() == z3.sat

    def call(self, name, fn, *args, allowed=(), **kwargs):
        """run code under test; an exception it raises is an obligation failure `<name>_no_exception`
        (unless its type is in `allowed`, in which case it is returned)"""
        try:
            return fn(*args, **kwargs)
        except allowed as e:  # noqa
            return e
        except Exception as e:  # noqa  (control exceptions are BaseException and pass through)
            import traceback
            tb = traceback.extract_tb(e.__traceback__)
            where = [f"{os.path.basename(fr.filename)}:{fr.lineno}:{fr.name}" for fr in tb[-3:]]
            self.oblige(name + "_no_exception", False, detail={"exception": f"{type(e).__name__}: {e}"[:300], "where": where})
            raise PathEnd()

    def model(self):
        if self._check() != z3.sat:
            raise PathInfeasible()
        m = self.solver.model()
        return {k: _pyval(m.eval(t, model_completion=True)) for k, t in self.inputs.items()}


class Explorer:
    def __init__(self, max_paths=20000, max_depth=5000, timeout_ms=60000, stop_on_cex=False, seed=0):
        self.solver = z3.Solver()
        self.solver.set("timeout", timeout_ms)
        self.timeout_ms = timeout_ms
        self.solver.set("random_seed", seed & 0xFFFF)
        self.max_paths = max_paths
        self.max_depth = max_depth
        self.concretize_limit = 64
        self.stop_on_cex = stop_on_cex
        self.stats = Stats()
        self.cexs = []
        self.errors = []
        self.work = []
        self.outcomes = []

    def schedule(self, prefix):
        self.work.append(prefix)

    def run(self, fn):
        """fn(ctx) builds inputs, runs the code, states obligations. Returns list of outcomes."""
        global _CUR
        self.work = [[]]
        while self.work:
            prefix = self.work.pop()
            if self.stats.paths >= self.max_paths:
                raise BoundExceeded(f"more than {self.max_paths} paths")
            ctx = PathCtx(self, prefix)
            self.solver.push()
            prev = _CUR
            _CUR = ctx
            try:
                try:
                    res = fn(ctx)
                    self.outcomes.append(("ok", res))
                except PathInfeasible:
                    self.stats.infeasible += 1
                    continue
                except PathEnd:
                    self.stats.raised += 1
                except Inconclusive:
                    raise
                except Exception as e:  # noqa: unexpected exception in harness or code under test
                    import traceback
                    self.errors.append(f"{type(e).__name__}: {e} :: " + " <- ".join(
                        f"{os.path.basename(fr.filename)}:{fr.lineno}" for fr in traceback.extract_tb(e.__traceback__)[-4:]))
                    self.stats.raised += 1
                self.stats.paths += 1
                if len(self.stats.path_samples) < 4:
                    try:
                        self.stats.path_samples.append({"decisions": len(ctx.decisions), "model": ctx.model()})
                    except PathInfeasible:
                        pass
            finally:
                _CUR = prev
                self.solver.pop()
            if self.stop_on_cex and self.cexs:
                break
        return self.outcomes


# --------------------------------------------------------------------------- #
# helpers for term conversion


def _rv(x):
    """python number -> exact z3 Real value"""
    if isinstance(x, z3.ExprRef):
        return x
    if isinstance(x, bool):
        return z3.RealVal(int(x))
    if isinstance(x, builtins.int):
        return z3.RealVal(x)
    if isinstance(x, Fraction):
        return z3.RealVal(f"{x.numerator}/{x.denominator}")
    f = builtins.float(x)
    if math.isnan(f) or math.isinf(f):
        raise Unsupported(f"non-finite constant {f} as a real term")
    fr = Fraction(f)
    return z3.RealVal(f"{fr.numerator}/{fr.denominator}")


def _pyval(v):
    if z3.is_int_value(v):
        return v.as_long()
    if z3.is_rational_value(v):
        fr = Fraction(v.numerator_as_long(), v.denominator_as_long())
        return fr.numerator if fr.denominator == 1 else f"{fr.numerator}/{fr.denominator}"
    if z3.is_true(v):
        return True
    if z3.is_false(v):
        return False
    if z3.is_bv_value(v):
        return v.as_long()
    if z3.is_algebraic_value(v):
        return str(v.approx(12))
    return str(v)


def _model_eval(m, v):
    if isinstance(v, Sym):
        return _pyval(m.eval(v.t, model_completion=True))
    if isinstance(v, z3.ExprRef):
        return _pyval(m.eval(v, model_completion=True))
    if isinstance(v, (list, tuple)):
        return [_model_eval(m, x) for x in v]
    if isinstance(v, dict):
        return {k: _model_eval(m, x) for k, x in v.items()}
    try:
        import numpy as _np
        if isinstance(v, _np.ndarray):
            return [_model_eval(m, x) for x in v.tolist()]
        if isinstance(v, _np.generic):
            return v.item()
    except Exception:
        pass
    return v


def frac_of(v):
    """model value (as produced by _pyval) -> Fraction"""
    if isinstance(v, str):
        return Fraction(v)
    return Fraction(v)


def _b(x):
    """anything truthy-like -> True / False / z3 BoolRef"""
    if isinstance(x, SBool):
        t = x.t
    elif isinstance(x, z3.BoolRef):
        t = x
    elif isinstance(x, Sym):
        t = (x != 0).t
    else:
        import numpy as _np
        if isinstance(x, _np.ndarray):
            if x.dtype == object:
                r = True
                for e in x.ravel().tolist():
                    r = and_(r, e)
                return _b(r)
            return builtins.bool(x.all())
        return builtins.bool(x)
    if isinstance(t, builtins.bool):
        return t
    if z3.is_true(t):
        return True
    if z3.is_false(t):
        return False
    return t


def _bt(c):
    return z3.BoolVal(c) if isinstance(c, builtins.bool) else c


# --------------------------------------------------------------------------- #
# symbolic scalars


class Sym:
    """base class; NumPy must never try to treat these as arrays"""
    __array_priority__ = 1000
    __slots__ = ()

    def __array_ufunc__(self, ufunc, method, *inputs, **kwargs):
        from . import arrays
        return arrays.scalar_ufunc(ufunc, method, inputs, kwargs)

    def __array_function__(self, func, types, args, kwargs):
        from . import arrays
        return arrays.array_function(func, types, args, kwargs)

    def __float__(self):
        raise Unsupported(f"float() of a symbolic value {self!r} (unmodelled C boundary)")

    def __hash__(self):
        return id(self)

    # numpy scalar-ish protocol
    ndim = 0
    shape = ()
    size = 1

    def item(self):
        return self

    def copy(self):
        return self

    def __copy__(self):
        return self

    def __deepcopy__(self, memo):
        return self


def is_sym(x):
    return isinstance(x, Sym)


class SBool(Sym):
    __slots__ = ("t",)

    def __init__(self, t):
        self.t = t

    def __bool__(self):
        if isinstance(self.t, builtins.bool):
            return self.t
        return cur().decide(self.t)

    def __repr__(self):
        return f"SBool({self.t})"

    def __invert__(self):
        return not_(self)

    def __and__(self, o):
        return and_(self, o)

    __rand__ = __and__

    def __or__(self, o):
        return or_(self, o)

    __ror__ = __or__

    def __xor__(self, o):
        return ne_bool(self, o)

    __rxor__ = __xor__

    def __eq__(self, o):
        if isinstance(o, (SBool, builtins.bool)):
            return not_(ne_bool(self, o))
        return self.num() == o

    def __ne__(self, o):
        if isinstance(o, (SBool, builtins.bool)):
            return ne_bool(self, o)
        return self.num() != o

    __hash__ = Sym.__hash__

    def num(self):
        return SInt(z3.If(_bt(self.t), z3.IntVal(1), z3.IntVal(0)))

    def __index__(self):
        return builtins.int(builtins.bool(self))

    def __int__(self):
        return builtins.int(builtins.bool(self))

    # arithmetic on booleans behaves like on 0/1 integers
    def __add__(self, o): return self.num() + o
    def __radd__(self, o): return o + self.num()
    def __sub__(self, o): return self.num() - o
    def __rsub__(self, o): return o - self.num()
    def __mul__(self, o): return self.num() * o
    def __rmul__(self, o): return o * self.num()
    def __truediv__(self, o): return self.num() / o
    def __rtruediv__(self, o): return o / self.num()
    def __neg__(self): return -self.num()
    def __lt__(self, o): return self.num() < o
    def __le__(self, o): return self.num() <= o
    def __gt__(self, o): return self.num() > o
    def __ge__(self, o): return self.num() >= o
    def __abs__(self): return self.num()


def mkbool(t):
    if isinstance(t, builtins.bool):
        return t
    if z3.is_true(t):
        return True
    if z3.is_false(t):
        return False
    return SBool(t)


def not_(a):
    c = _b(a)
    if isinstance(c, builtins.bool):
        return not c
    return SBool(z3.Not(c))


def and_(a, b):
    ca, cb = _b(a), _b(b)
    if ca is False or cb is False:
        return False
    if ca is True:
        return mkbool(cb)
    if cb is True:
        return mkbool(ca)
    return SBool(z3.And(ca, cb))


def or_(a, b):
    ca, cb = _b(a), _b(b)
    if ca is True or cb is True:
        return True
    if ca is False:
        return mkbool(cb)
    if cb is False:
        return mkbool(ca)
    return SBool(z3.Or(ca, cb))


def ne_bool(a, b):
    ca, cb = _b(a), _b(b)
    if isinstance(ca, builtins.bool) and isinstance(cb, builtins.bool):
        return ca != cb
    return SBool(z3.Xor(_bt(ca), _bt(cb)))


def implies(a, b):
    return or_(not_(a), b)


def all_(xs):
    r = True
    for x in xs:
        r = and_(r, x)
    return r


def any_(xs):
    r = False
    for x in xs:
        r = or_(r, x)
    return r


def ite(c, a, b):
    """symbolic if-then-else over scalars (python numbers or Sym)"""
    cc = _b(c)
    if cc is True:
        return a
    if cc is False:
        return b
    if a is b:
        return a
    if isinstance(a, (SBool, builtins.bool)) and isinstance(b, (SBool, builtins.bool)):
        return mkbool(z3.If(cc, _bt(_b(a)), _bt(_b(b))))
    if isinstance(a, (SBool, builtins.bool)):
        a = a.num() if isinstance(a, SBool) else builtins.int(a)
    if isinstance(b, (SBool, builtins.bool)):
        b = b.num() if isinstance(b, SBool) else builtins.int(b)
    if isinstance(a, SBV) or isinstance(b, SBV):
        a, b = SBV.coerce(a, b)
        return SBV(z3.If(cc, a.t, b.t), a.signed)
    if isinstance(a, SFP) or isinstance(b, SFP):
        def lift(x, like):
            if isinstance(x, SFP):
                return x
            if isinstance(x, Sym):
                raise Unsupported("if-then-else between an IEEE term and another symbolic kind")
            return SFP(z3.FPVal(builtins.float(x), like.sort))
        a, b = lift(a, b if isinstance(b, SFP) else a), lift(b, a if isinstance(a, SFP) else b)
        return SFP(z3.If(cc, a.t, b.t))
    if isinstance(a, UVal) or isinstance(b, UVal):
        return UVal(z3.If(cc, _uval_t(a), _uval_t(b)))
    if _is_intlike(a) and _is_intlike(b):
        return mkint(z3.If(cc, _it(a), _it(b)))
    ra, rb = _as_real(a), _as_real(b)
    nan = _nan_or(z3.If(cc, _bt(ra.nan), _bt(rb.nan))) if (ra.nan is not False or rb.nan is not False) else False
    return SReal(z3.If(cc, ra.t, rb.t), nan=nan)


def _nan_or(t):
    t = z3.simplify(t)
    if z3.is_false(t):
        return False
    if z3.is_true(t):
        return True
    return t


def _is_intlike(x):
    if isinstance(x, SInt):
        return True
    if isinstance(x, builtins.bool):
        return True
    if isinstance(x, builtins.int):
        return True
    try:
        import numpy as _np
        return isinstance(x, _np.integer) or isinstance(x, _np.bool_)
    except Exception:
        return False


def _is_num(x):
    if isinstance(x, (builtins.int, builtins.float, Fraction)):
        return True
    import numpy as _np
    return isinstance(x, (_np.integer, _np.floating, _np.bool_))


def _it(x):
    if isinstance(x, SInt):
        return x.t
    return z3.IntVal(builtins.int(x))


def mkint(t):
    t2 = t
    if z3.is_int_value(t2):
        return t2.as_long()
    return SInt(t2)


class SInt(Sym):
    """Python int / NumPy integer whose value (not bit pattern) matters: z3 Int"""
    __slots__ = ("t",)

    def __init__(self, t):
        self.t = t

    def __repr__(self):
        return f"SInt({self.t})"

    # -- conversions -------------------------------------------------------
    def __index__(self):
        return cur().concretize(self.t)

    def __int__(self):
        return cur().concretize(self.t)

    def __bool__(self):
        return builtins.bool(self != 0)

    def __round__(self, n=None):
        return self

    def __trunc__(self):
        return self

    def __floor__(self):
        return self

    def __ceil__(self):
        return self

    def is_integer(self):
        return True

    @property
    def real(self):
        return self

    def astype(self, dt):
        from . import arrays
        return arrays.scalar0d(arrays.cast_scalar(self, dt), dt)

    # -- arithmetic --------------------------------------------------------
    def _bin(self, o, op, rev=False):
        if isinstance(o, SBool):
            o = o.num()
        if _is_intlike(o):
            a, b = self.t, _it(o)
            if rev:
                a, b = b, a
            return mkint(a + b if op == "add" else a - b if op == "sub" else a * b)
        if isinstance(o, (SReal, builtins.float, Fraction)) or _is_num(o):
            a, b = _as_real(self), _as_real(o)
            if rev:
                a, b = b, a
            return _real_op(a, b, op)
        return NotImplemented

    def __add__(self, o): return self._bin(o, "add")
    def __radd__(self, o): return self._bin(o, "add", True)
    def __sub__(self, o): return self._bin(o, "sub")
    def __rsub__(self, o): return self._bin(o, "sub", True)
    def __mul__(self, o): return self._bin(o, "mul")
    def __rmul__(self, o): return self._bin(o, "mul", True)
    def __neg__(self): return mkint(-self.t)
    def __pos__(self): return self
    def __abs__(self): return mkint(z3.If(self.t >= 0, self.t, -self.t))

    def __truediv__(self, o):
        return _as_real(self) / o

    def __rtruediv__(self, o):
        return _as_real(o) / _as_real(self)

    def __floordiv__(self, o):
        if isinstance(o, SBool):
            o = o.num()
        if _is_intlike(o):
            return _floordiv(self.t, _it(o))
        return (_as_real(self) / o).floor()

    def __rfloordiv__(self, o):
        if _is_intlike(o):
            return _floordiv(_it(o), self.t)
        return (_as_real(o) / _as_real(self)).floor()

    def __mod__(self, o):
        if _is_intlike(o):
            q = _floordiv(self.t, _it(o))
            return self - q * o
        raise Unsupported("float modulo of symbolic int")

    def __rmod__(self, o):
        if _is_intlike(o):
            q = _floordiv(_it(o), self.t)
            return o - q * self
        raise Unsupported("float modulo of symbolic int")

    def __pow__(self, o):
        if isinstance(o, builtins.int) and 0 <= o <= 4:
            r = 1
            for _ in range(o):
                r = r * self
            return r
        if isinstance(o, builtins.float) and o.is_integer() and 0 <= o <= 4:
            r = 1.0
            for _ in range(builtins.int(o)):
                r = r * self
            return _as_real(r)
        raise Unsupported("power with symbolic base")

    def _cmp(self, o, f):
        if isinstance(o, SBool):
            o = o.num()
        if _is_intlike(o):
            return mkbool(z3.simplify(f(self.t, _it(o))))
        if isinstance(o, (SReal, builtins.float, Fraction)) or _is_num(o):
            return _real_cmp(_as_real(self), _as_real(o), f)
        return NotImplemented

    def __lt__(self, o): return self._cmp(o, lambda a, b: a < b)
    def __le__(self, o): return self._cmp(o, lambda a, b: a <= b)
    def __gt__(self, o): return self._cmp(o, lambda a, b: a > b)
    def __ge__(self, o): return self._cmp(o, lambda a, b: a >= b)

    def __eq__(self, o):
        r = self._cmp(o, lambda a, b: a == b)
        return False if r is NotImplemented else r

    def __ne__(self, o):
        r = self._cmp(o, lambda a, b: a != b)
        return True if r is NotImplemented else r

    __hash__ = Sym.__hash__

    def __format__(self, spec):
        return _fmt_number(self, spec)

    def __str__(self):
        from . import tokens
        return tokens.token_for(self)


def _fmt_number(x, spec):
    """
    placeholder text for a symbolic number.  '%g' keeps 6 significant digits: an integer value below 10^6 prints exactly,
    from 10^6 on the text is the value rounded (half-even) to 6 significant digits in scientific notation - the placeholder
    then stands for that rounded value.  Bounded to |x| < 10^9; anything else is Unsupported.
    """
    from . import tokens
    if spec in ("", "d", "s", "n"):
        return tokens.token_for(x)
    if spec in ("g", "G", ".6g"):
        if isinstance(x, SReal):
            if x.nan is not False and builtins.bool(x.isnan()):
                return "nan"
            if not builtins.bool(mkbool(z3.IsInt(x.t))):
                raise Unsupported("'%g' of a non-integer symbolic float")
        if builtins.bool(x < 0):
            raise Unsupported("'%g' of a negative symbolic number")
        if builtins.bool(x < 1000000):
            return tokens.token_for(x)
        for e in (6, 7, 8):
            if builtins.bool(x < 10 ** (e + 1)):
                step = 10 ** (e - 5)
                v = x if isinstance(x, SInt) else x.trunc()
                f = v // step
                rem = v - f * step
                up = or_(rem * 2 > step, and_(eq(rem * 2, step), eq(f % 2, 1)))
                w = ite(up, f + 1, f) * step
                return tokens.token_for(_as_real(w) if isinstance(x, SReal) else w)
        raise Unsupported("'%g' of a symbolic number >= 10^9")
    raise Unsupported(f"format spec {spec!r} on a symbolic number")


def _floordiv(a, b):
    """Python floor division on z3 Int terms (b != 0 is a path condition)"""
    if z3.is_int_value(b):
        bv = b.as_long()
        if bv == 0:
            raise ZeroDivisionError("integer division or modulo by zero")
        if bv > 0:
            return mkint(z3.simplify(a / b))
        return mkint(z3.simplify((-a) / (-b)))
    if cur().decide(b == 0):
        raise ZeroDivisionError("integer division or modulo by zero")
    return mkint(z3.If(b > 0, a / b, (-a) / (-b)))


class SReal(Sym):
    """
    float modelled as an exact real (+ NaN flag).  `q=(num, den)` is kept when the value
    is known to be the quotient of two Int terms so that floor/ceil/int become LIA div.
    """
    __slots__ = ("t", "nan", "q")

    def __init__(self, t, nan=False, q=None):
        self.t = t
        self.nan = nan
        self.q = q

    def __repr__(self):
        return f"SReal({self.t}{', nan=' + str(self.nan) if self.nan is not False else ''})"

    def __bool__(self):
        return builtins.bool(self != 0)

    def _notnan(self, what):
        if self.nan is False:
            return
        if cur().decide(_bt(self.nan)):
            raise ValueError(f"cannot convert float NaN to integer ({what})")

    def floor(self):
        self._notnan("floor")
        if self.q is not None:
            n, d = self.q
            return _floordiv(n, d if isinstance(d, z3.ExprRef) else z3.IntVal(d))
        return mkint(z3.ToInt(self.t))

    def ceil(self):
        return -((-self).floor())

    def trunc(self):
        self._notnan("int")
        if self.q is not None:
            f = self.floor()
            c = self.ceil()
            return ite(mkbool(z3.simplify(self.t >= 0)), f, c)
        return mkint(z3.If(self.t >= 0, z3.ToInt(self.t), -z3.ToInt(-self.t)))

    def rint(self):
        """round half to even (Python round / np.round / np.rint)"""
        self._notnan("round")
        f = self.floor()
        ft = _it(f)
        diff = self.t - z3.ToReal(ft)
        half = z3.RealVal("1/2")
        even = (ft % 2) == 0
        return mkint(z3.If(diff < half, ft, z3.If(diff > half, ft + 1, z3.If(even, ft, ft + 1))))

    def __int__(self):
        return builtins.int(self.trunc())

    def __index__(self):
        raise TypeError("'float' object cannot be interpreted as an integer")

    def __round__(self, n=None):
        if n is None:
            return self.rint()
        raise Unsupported("round(x, n) on symbolic real")

    def __floor__(self):
        return self.floor()

    def __ceil__(self):
        return self.ceil()

    def __trunc__(self):
        return self.trunc()

    def is_integer(self):
        if self.nan is not False:
            raise Unsupported("is_integer on maybe-NaN")
        f = self.floor()
        return builtins.bool(mkbool(z3.simplify(z3.ToReal(_it(f)) == self.t)))

    @property
    def real(self):
        return self

    def astype(self, dt):
        from . import arrays
        return arrays.scalar0d(arrays.cast_scalar(self, dt), dt)

    def __add__(self, o): return _real_op(self, o, "add")
    def __radd__(self, o): return _real_op(o, self, "add")
    def __sub__(self, o): return _real_op(self, o, "sub")
    def __rsub__(self, o): return _real_op(o, self, "sub")
    def __mul__(self, o): return _real_op(self, o, "mul")
    def __rmul__(self, o): return _real_op(o, self, "mul")
    def __truediv__(self, o): return _real_op(self, o, "div")
    def __rtruediv__(self, o): return _real_op(o, self, "div")
    def __neg__(self):
        q = None if self.q is None else (-self.q[0], self.q[1])
        return SReal(-self.t, self.nan, q)

    def __pos__(self): return self

    def __abs__(self):
        return SReal(z3.If(self.t >= 0, self.t, -self.t), self.nan)

    def __floordiv__(self, o):
        return _as_real((self / o).floor())

    def __pow__(self, o):
        if isinstance(o, (builtins.int, builtins.float)) and builtins.float(o).is_integer() and 0 <= o <= 4:
            r = SReal(z3.RealVal(1))
            for _ in range(builtins.int(o)):
                r = r * self
            return r
        raise Unsupported("power with symbolic base")

    def _cmp(self, o, f):
        if isinstance(o, SBool):
            o = o.num()
        if isinstance(o, (SReal, SInt, Fraction)) or _is_num(o):
            return _real_cmp(self, _as_real(o), f)
        return NotImplemented

    def __lt__(self, o): return self._cmp(o, lambda a, b: a < b)
    def __le__(self, o): return self._cmp(o, lambda a, b: a <= b)
    def __gt__(self, o): return self._cmp(o, lambda a, b: a > b)
    def __ge__(self, o): return self._cmp(o, lambda a, b: a >= b)

    def __eq__(self, o):
        r = self._cmp(o, lambda a, b: a == b)
        return False if r is NotImplemented else r

    def __ne__(self, o):
        r = self._cmp(o, lambda a, b: a == b)
        return True if r is NotImplemented else not_(r)

    __hash__ = Sym.__hash__

    def isnan(self):
        return mkbool(self.nan) if not isinstance(self.nan, builtins.bool) else self.nan

    def __format__(self, spec):
        return _fmt_number(self, spec)

    def __str__(self):
        from . import tokens
        return tokens.token_for(self)


NAN = None  # set below


def _as_real(x):
    if isinstance(x, SReal):
        return x
    if isinstance(x, SInt):
        return SReal(z3.ToReal(x.t), False, (x.t, 1))
    if isinstance(x, SBool):
        return _as_real(x.num())
    if isinstance(x, Fraction):
        return SReal(_rv(x), False, (z3.IntVal(x.numerator), x.denominator))
    if _is_intlike(x):
        return SReal(z3.RealVal(builtins.int(x)), False, (z3.IntVal(builtins.int(x)), 1))
    f = builtins.float(x)
    if math.isnan(f):
        return SReal(z3.RealVal(0), True)
    if math.isinf(f):
        raise Unsupported("infinite constant in symbolic real arithmetic")
    fr = Fraction(f)
    q = (z3.IntVal(fr.numerator), fr.denominator) if fr.denominator <= (1 << 80) else None
    return SReal(_rv(fr), False, q)


def _real_op(a, b, op):
    if isinstance(a, SFP) or isinstance(b, SFP) or isinstance(a, UVal) or isinstance(b, UVal):
        return NotImplemented
    if type(a).__module__ == "numpy" and hasattr(a, "shape") and getattr(a, "shape", ()) != () or \
            hasattr(b, "shape") and getattr(b, "shape", ()) != () and hasattr(b, "__array_ufunc__"):
        return NotImplemented          # scalar (op) array: let the array's reflected operator broadcast
    try:
        a, b = _as_real(a), _as_real(b)
    except TypeError:
        return NotImplemented
    if a.nan is False and b.nan is False:
        nan = False
    else:
        nan = _nan_or(z3.Or(_bt(a.nan), _bt(b.nan)))
    q = None
    if op == "add" or op == "sub":
        t = a.t + b.t if op == "add" else a.t - b.t
        if a.q is not None and b.q is not None:
            (n1, d1), (n2, d2) = a.q, b.q
            if not isinstance(d1, z3.ExprRef) and not isinstance(d2, z3.ExprRef):
                d = d1 * d2 // math.gcd(d1, d2)
                if d <= (1 << 200):
                    n = n1 * (d // d1) + n2 * (d // d2) if op == "add" else n1 * (d // d1) - n2 * (d // d2)
                    q = (n, d)
            elif d1 is d2 or (isinstance(d1, z3.ExprRef) and isinstance(d2, z3.ExprRef) and d1.eq(d2)):
                q = (n1 + n2 if op == "add" else n1 - n2, d1)
    elif op == "mul":
        t = a.t * b.t
        if a.q is not None and b.q is not None:
            (n1, d1), (n2, d2) = a.q, b.q
            if not isinstance(d1, z3.ExprRef) and not isinstance(d2, z3.ExprRef) and d1 * d2 <= (1 << 200):
                if z3.is_int_value(n1) or z3.is_int_value(n2):
                    q = (n1 * n2, d1 * d2)
    else:
        bz = z3.simplify(b.t == 0)
        if not z3.is_false(bz):
            if z3.is_true(bz) or cur().decide(bz):
                # NumPy semantics would give inf/nan with a warning; Python floats raise.
                raise ZeroDivisionError("float division by zero")
        t = a.t / b.t
        if a.q is not None and b.q is not None:
            (n1, d1), (n2, d2) = a.q, b.q
            if not isinstance(d1, z3.ExprRef) and not isinstance(d2, z3.ExprRef):
                # (n1/d1)/(n2/d2) = (n1*d2)/(n2*d1)
                if z3.is_int_value(n2):
                    nv = n2.as_long() * d1
                    if nv < 0:
                        q = (-(n1 * d2), -nv)
                    else:
                        q = (n1 * d2, nv)
                    if q[1] > (1 << 200):
                        q = None
                elif d1 == 1 and d2 == 1:
                    q = (n1, n2)
    return SReal(t, nan, q)


def _real_cmp(a, b, f):
    t = z3.simplify(f(a.t, b.t))
    if a.nan is False and b.nan is False:
        return mkbool(t)
    nn = z3.And(z3.Not(_bt(a.nan)), z3.Not(_bt(b.nan)))
    return mkbool(z3.simplify(z3.And(nn, t)))


# --------------------------------------------------------------------------- #
# bit-vectors (int16 / uint8 words when bits matter)


class SBV(Sym):
    __slots__ = ("t", "signed")

    def __init__(self, t, signed=True):
        self.t = t
        self.signed = signed

    def __repr__(self):
        return f"SBV({self.t})"

    @property
    def width(self):
        return self.t.size()

    @staticmethod
    def coerce(a, b):
        if isinstance(a, SBV) and not isinstance(b, SBV):
            b = SBV(z3.BitVecVal(builtins.int(b), a.width), a.signed)
        elif isinstance(b, SBV) and not isinstance(a, SBV):
            a = SBV(z3.BitVecVal(builtins.int(a), b.width), b.signed)
        if a.width != b.width:
            raise Unsupported("bit-vector width mismatch")
        return a, b

    def to_int(self):
        return SInt(z3.BV2Int(self.t, is_signed=self.signed))

    def bit(self, k):
        return SBV(z3.Extract(k, k, self.t), signed=False)

    def __eq__(self, o):
        a, b = SBV.coerce(self, o)
        return mkbool(z3.simplify(a.t == b.t))

    def __ne__(self, o):
        return not_(self == o)

    __hash__ = Sym.__hash__

    def __and__(self, o):
        a, b = SBV.coerce(self, o)
        return SBV(a.t & b.t, self.signed)

    __rand__ = __and__

    def __or__(self, o):
        a, b = SBV.coerce(self, o)
        return SBV(a.t | b.t, self.signed)

    __ror__ = __or__

    def __xor__(self, o):
        a, b = SBV.coerce(self, o)
        return SBV(a.t ^ b.t, self.signed)

    def __invert__(self):
        return SBV(~self.t, self.signed)

    def __lshift__(self, k):
        return SBV(self.t << k, self.signed)

    def _cmp(self, o, sop, uop):
        a, b = SBV.coerce(self, o)
        return mkbool(z3.simplify(sop(a.t, b.t) if self.signed else uop(a.t, b.t)))

    def __lt__(self, o): return self._cmp(o, lambda a, b: a < b, z3.ULT)
    def __le__(self, o): return self._cmp(o, lambda a, b: a <= b, z3.ULE)
    def __gt__(self, o): return self._cmp(o, lambda a, b: a > b, z3.UGT)
    def __ge__(self, o): return self._cmp(o, lambda a, b: a >= b, z3.UGE)

    def __bool__(self):
        return builtins.bool(self != 0)

    def astype(self, dt):
        from . import arrays
        return arrays.scalar0d(arrays.cast_scalar(self, dt), dt)

    def __mod__(self, o):
        a, b = SBV.coerce(self, o)
        return SBV(z3.SRem(a.t, b.t) if self.signed else z3.URem(a.t, b.t), self.signed)

    # modular arithmetic (the harness chooses a width that cannot overflow)
    def __add__(self, o):
        if isinstance(o, (SFP, builtins.float)):
            return self.to_fp() + o
        a, b = SBV.coerce(self, o)
        return SBV(a.t + b.t, self.signed)

    __radd__ = __add__

    def __sub__(self, o):
        if isinstance(o, (SFP, builtins.float)):
            return self.to_fp() - o
        a, b = SBV.coerce(self, o)
        return SBV(a.t - b.t, self.signed)

    def __rsub__(self, o):
        if isinstance(o, (SFP, builtins.float)):
            return SFP.of(o, z3.Float64()) - self.to_fp()
        a, b = SBV.coerce(self, o)
        return SBV(b.t - a.t, self.signed)

    def __mul__(self, o):
        if isinstance(o, (SFP, builtins.float)):
            return self.to_fp() * o
        a, b = SBV.coerce(self, o)
        return SBV(a.t * b.t, self.signed)

    __rmul__ = __mul__

    def __neg__(self):
        return SBV(-self.t, self.signed)

    def to_fp(self, sort=None):
        sort = sort or z3.Float64()
        return SFP(z3.fpSignedToFP(RNE, self.t, sort) if self.signed else z3.fpUnsignedToFP(RNE, self.t, sort))

    def __truediv__(self, o):
        # Python int / int -> float (correctly rounded quotient): both operands are exactly representable here
        b = o.to_fp() if isinstance(o, SBV) else SFP.of(o, z3.Float64())
        return self.to_fp() / b

    def __rtruediv__(self, o):
        return SFP.of(o, z3.Float64()) / self.to_fp()

    def __floordiv__(self, o):
        a, b = SBV.coerce(self, o)
        if self.signed:
            raise Unsupported("signed bit-vector floor division")
        return SBV(z3.UDiv(a.t, b.t), False)

    def __rshift__(self, k):
        return SBV(self.t >> k if self.signed else z3.LShR(self.t, k), self.signed)

    def __index__(self):
        return cur().concretize(z3.BV2Int(self.t, is_signed=self.signed), limit=300)


# --------------------------------------------------------------------------- #
# IEEE floating point (exact) - only in the small FP lemmas


RNE = z3.RNE()
RTZ = z3.RTZ()


class SFP(Sym):
    __slots__ = ("t",)

    def __init__(self, t):
        self.t = t

    def __repr__(self):
        return f"SFP({self.t.sort()})"

    @property
    def sort(self):
        return self.t.sort()

    def _other0(self, o):
        if isinstance(o, SFP):
            if o.sort != self.sort:
                # numpy promotes float32 op float64 -> float64
                big = self.sort if self.sort.sbits() >= o.sort.sbits() else o.sort
                return SFP(z3.fpFPToFP(RNE, self.t, big)) if self.sort != big else self, \
                    SFP(z3.fpFPToFP(RNE, o.t, big)) if o.sort != big else o
            return self, o
        import numpy as _np
        if isinstance(o, _np.floating):
            so = z3.Float32() if o.dtype == _np.float32 else z3.Float64()
            return self._other0(SFP(z3.FPVal(builtins.float(o), so)))
        if isinstance(o, (builtins.float, builtins.int)):
            # python scalars are weakly typed in NumPy 2: they take the array's precision
            return self, SFP(z3.FPVal(builtins.float(o), self.sort))
        raise Unsupported(f"SFP op with {type(o)}")

    def __mul__(self, o):
        a, b = self._other(o)
        return SFP(z3.fpMul(RNE, a.t, b.t))

    __rmul__ = __mul__

    def __truediv__(self, o):
        a, b = self._other(o)
        return SFP(z3.fpDiv(RNE, a.t, b.t))

    def __rtruediv__(self, o):
        a, b = self._other(o)
        return SFP(z3.fpDiv(RNE, b.t, a.t))

    def __add__(self, o):
        a, b = self._other(o)
        return SFP(z3.fpAdd(RNE, a.t, b.t))

    __radd__ = __add__

    def __sub__(self, o):
        a, b = self._other(o)
        return SFP(z3.fpSub(RNE, a.t, b.t))

    def __eq__(self, o):
        a, b = self._other(o)
        return mkbool(z3.fpEQ(a.t, b.t))

    __hash__ = Sym.__hash__

    @staticmethod
    def of(x, sort):
        if isinstance(x, SFP):
            return x
        if isinstance(x, SBV):
            return x.to_fp(sort)
        return SFP(z3.FPVal(builtins.float(x), sort))

    def _other(self, o):   # noqa: F811  (extends the earlier definition with bit-vector operands)
        if isinstance(o, SBV):
            return self, o.to_fp(self.sort)
        return SFP._other0(self, o)

    def __rsub__(self, o):
        a, b = self._other(o)
        return SFP(z3.fpSub(RNE, b.t, a.t))

    def __neg__(self):
        return SFP(z3.fpNeg(self.t))

    def _fcmp(self, o, f):
        a, b = self._other(o)
        return mkbool(f(a.t, b.t))

    def __lt__(self, o): return self._fcmp(o, z3.fpLT)
    def __le__(self, o): return self._fcmp(o, z3.fpLEQ)
    def __gt__(self, o): return self._fcmp(o, z3.fpGT)
    def __ge__(self, o): return self._fcmp(o, z3.fpGEQ)

    def ceil(self):
        return SFP(z3.fpRoundToIntegral(z3.RTP(), self.t))

    def floor(self):
        return SFP(z3.fpRoundToIntegral(z3.RTN(), self.t))

    def to_sbv(self, width=64):
        return SBV(z3.fpToSBV(RTZ, self.t, z3.BitVecSort(width)), signed=True)


# --------------------------------------------------------------------------- #
# uninterpreted values (results of DSP primitives that no solver reaches)


USort = z3.DeclareSort("Val")


class UVal(Sym):
    """opaque value: only equality (by congruence) is meaningful"""
    __slots__ = ("t",)

    def __init__(self, t):
        self.t = t

    def __repr__(self):
        return f"UVal({self.t})"

    def __eq__(self, o):
        return mkbool(z3.simplify(self.t == _uval_t(o)))

    def __ne__(self, o):
        return not_(self == o)

    __hash__ = Sym.__hash__


_ufuncs = {}


def ufun(name, *sorts):
    key = (name,) + tuple(str(s) for s in sorts)
    if key not in _ufuncs:
        _ufuncs[key] = z3.Function(name, *sorts)
    return _ufuncs[key]


def _uval_t(x):
    if isinstance(x, UVal):
        return x.t
    if isinstance(x, SReal):
        return ufun("inj_real", z3.RealSort(), USort)(x.t)
    if isinstance(x, SInt):
        return ufun("inj_real", z3.RealSort(), USort)(z3.ToReal(x.t))
    if _is_num(x):
        return ufun("inj_real", z3.RealSort(), USort)(_rv(x))
    raise Unsupported(f"cannot inject {type(x)} into the opaque value sort")


def term_of(x):
    """any scalar -> z3 term (Int/Real/Bool/BV/FP/Val)"""
    if isinstance(x, Sym):
        return _bt(x.t) if isinstance(x, SBool) else x.t
    if isinstance(x, builtins.bool):
        return z3.BoolVal(x)
    if _is_intlike(x):
        return z3.IntVal(builtins.int(x))
    return _rv(x)


def eq(a, b):
    """structural equality usable in obligations, for any pair of scalars (NaN == NaN here)"""
    if isinstance(a, UVal) or isinstance(b, UVal):
        return mkbool(z3.simplify(_uval_t(a) == _uval_t(b)))
    if isinstance(a, SFP) or isinstance(b, SFP):
        return mkbool(a.t == b.t)
    if isinstance(a, SBV) or isinstance(b, SBV):
        return a == b
    if isinstance(a, (SBool, builtins.bool)) and isinstance(b, (SBool, builtins.bool)):
        return not_(ne_bool(a, b))
    if isinstance(a, SBool):
        a = a.num()
    if isinstance(b, SBool):
        b = b.num()
    if _is_intlike(a) and _is_intlike(b):
        if not isinstance(a, Sym) and not isinstance(b, Sym):
            return builtins.int(a) == builtins.int(b)
        return mkbool(z3.simplify(_it(a) == _it(b)))
    ra, rb = _as_real(a), _as_real(b)
    if ra.nan is False and rb.nan is False:
        return mkbool(z3.simplify(ra.t == rb.t))
    na, nb = _bt(ra.nan), _bt(rb.nan)
    return mkbool(z3.simplify(z3.Or(z3.And(na, nb), z3.And(z3.Not(na), z3.Not(nb), ra.t == rb.t))))


# --------------------------------------------------------------------------- #
# exact complex numbers (pairs of reals) - only for the small exact DFT model (C07)


class SCx(Sym):
    __slots__ = ("re", "im")

    def __init__(self, re, im=0):
        self.re = re
        self.im = im

    def __repr__(self):
        return f"SCx({self.re}, {self.im})"

    @staticmethod
    def of(x):
        if isinstance(x, SCx):
            return x
        if isinstance(x, complex):
            return SCx(x.real, x.imag)
        try:
            import numpy as _np
            if isinstance(x, _np.complexfloating):
                return SCx(builtins.float(x.real), builtins.float(x.imag))
        except Exception:
            pass
        return SCx(x, 0)

    def __add__(self, o):
        o = SCx.of(o)
        return SCx(self.re + o.re, self.im + o.im)

    __radd__ = __add__

    def __sub__(self, o):
        o = SCx.of(o)
        return SCx(self.re - o.re, self.im - o.im)

    def __rsub__(self, o):
        return SCx.of(o) - self

    def __mul__(self, o):
        o = SCx.of(o)
        return SCx(self.re * o.re - self.im * o.im, self.re * o.im + self.im * o.re)

    __rmul__ = __mul__

    def __truediv__(self, o):
        if isinstance(o, (SCx, complex)):
            raise Unsupported("division by a complex value")
        return SCx(self.re / o, self.im / o)

    def __neg__(self):
        return SCx(-self.re, -self.im)

    def conj(self):
        return SCx(self.re, -self.im)

    @property
    def real(self):
        return self.re

    @property
    def imag(self):
        return self.im

    def __eq__(self, o):
        o = SCx.of(o)
        return and_(eq(self.re, o.re), eq(self.im, o.im))

    __hash__ = Sym.__hash__
