"""
Thin stand-in for the small part of pandas the waveform code uses: a DataFrame is an ordered dict of
1-D columns (numpy arrays or SymArrays) of equal length; a Series is a column with an index.
"""
from __future__ import annotations

import builtins

import numpy as np

from . import arrays, core
from .arrays import SymArray
from .core import Sym, Unsupported


def _col(a, n=None):
    if isinstance(a, FakeSeries):
        a = a.values
    if isinstance(a, (list, tuple)):
        a = arrays.NP.array(list(a)) if arrays._deep_has_sym(a) else np.array(a)
    if isinstance(a, np.ndarray):
        if a.ndim == 0:
            a = np.repeat(a.reshape(1), n or 1)
        return a
    if n is None:
        raise Unsupported("scalar column without length")
    if isinstance(a, Sym):
        return arrays.mk([a] * n)
    return np.array([a] * n)


class _ILoc:
    def __init__(self, owner):
        self.o = owner

    def __getitem__(self, key):
        if isinstance(key, _Index):
            key = key.values
        if isinstance(self.o, FakeSeries):
            v = self.o.values[key]
            if isinstance(v, np.ndarray):
                return FakeSeries(v, self.o.index[key], self.o.name)
            return v
        # DataFrame row selection
        if isinstance(key, (builtins.int, np.integer)):
            raise Unsupported("DataFrame.iloc[int]")
        if isinstance(key, slice):
            key = slice(*[builtins.int(b) if isinstance(b, Sym) else b for b in (key.start, key.stop, key.step)])   # forks
        return FakeDF({k: v[key] for k, v in self.o.cols.items()}, index=self.o.index[key])


class _Loc:
    def __init__(self, owner):
        self.o = owner

    def _rows(self, idx):
        """index labels -> positions"""
        idx = np.asarray(idx.values if isinstance(idx, FakeSeries) else idx)
        if idx.dtype == bool or (idx.dtype == object and arrays.is_mask(idx)):
            m = arrays.concretize_mask(idx) if idx.dtype == object else idx
            return np.nonzero(m)[0]
        lab = list(self.o.index.tolist())
        return np.array([lab.index(builtins.int(i)) for i in idx.tolist()], dtype=int)

    def __getitem__(self, key):
        if isinstance(key, tuple):
            rows, col = key
            pos = self._rows(rows) if not (isinstance(rows, slice) and rows == slice(None)) else np.arange(len(self.o))
            if isinstance(col, str):
                return FakeSeries(self.o.cols[col][pos], self.o.index[pos], col)
            if isinstance(col, slice) and col == slice(None):
                return FakeDF({k: v[pos] for k, v in self.o.cols.items()}, index=self.o.index[pos])
            raise Unsupported("loc column selector")
        pos = self._rows(key)
        return FakeDF({k: v[pos] for k, v in self.o.cols.items()}, index=self.o.index[pos])

    def __setitem__(self, key, value):
        if isinstance(key, tuple):
            rows, col = key
            pos = self._rows(rows)
            if col not in self.o.cols:
                self.o.cols[col] = arrays.filled(len(self.o), 0)
            c = self.o.cols[col]
            if not isinstance(c, SymArray) and (arrays.has_sym(value) if isinstance(value, np.ndarray) else isinstance(value, Sym)):
                c = arrays.wrap(c)
                self.o.cols[col] = c
            c[pos] = value.values if isinstance(value, FakeSeries) else value
            return
        # df.loc[index] = other_df : row-wise update of the matching columns
        pos = self._rows(key)
        if isinstance(value, FakeDF):
            for k, v in value.cols.items():
                if k not in self.o.cols:
                    self.o.cols[k] = arrays.filled(len(self.o), float("nan"))
                c = self.o.cols[k]
                if not isinstance(c, SymArray) and arrays.has_sym(v):
                    c = arrays.wrap(c)
                    self.o.cols[k] = c
                c[pos] = v
            return
        raise Unsupported("loc assignment")


class FakeSeries:
    __array_priority__ = 3000

    def __init__(self, values, index=None, name=None):
        self.values = values
        self.index = np.arange(len(values)) if index is None else np.asarray(index)
        self.name = name

    def to_numpy(self, *a, **k):
        return self.values

    def __len__(self):
        return len(self.values)

    def __getitem__(self, k):
        if isinstance(k, (builtins.int, np.integer)):
            lab = list(self.index.tolist())
            return self.values[lab.index(builtins.int(k))]
        v = self.values[k.values if isinstance(k, FakeSeries) else k]
        return FakeSeries(v, None, self.name) if isinstance(v, np.ndarray) else v

    @property
    def iloc(self):
        return _ILoc(self)

    def astype(self, dt):
        v = self.values
        return FakeSeries(arrays.cast_array(v, dt) if isinstance(v, SymArray) else v.astype(arrays._np_dtype(dt)), self.index, self.name)

    def mask(self, cond, other=float("nan")):
        """Series.mask: `other` (NaN) where cond holds, the value elsewhere"""
        c = cond.values if isinstance(cond, FakeSeries) else cond
        c = np.asarray(arrays._plain(c), dtype=object) if isinstance(c, np.ndarray) else c
        v = np.asarray(arrays._plain(self.values), dtype=object)
        out = np.empty(v.shape, dtype=object)
        for i in range(v.shape[0]):
            ci = c[i] if isinstance(c, np.ndarray) else c
            if isinstance(ci, Sym):
                out[i] = core.ite(ci, other, v[i])
            else:
                out[i] = other if builtins.bool(ci) else v[i]
        return FakeSeries(arrays._result(out), self.index, self.name)

    def where(self, cond, other=float("nan")):
        c = cond.values if isinstance(cond, FakeSeries) else cond
        return self.mask(~np.asarray(c, dtype=bool) if not arrays.has_sym(np.asarray(arrays._plain(c), dtype=object)) else arrays.NP.logical_not(c), other)

    def isna(self):
        return FakeSeries(np.isnan(self.values) if not isinstance(self.values, SymArray) else arrays.array_ufunc(np.isnan, "__call__", (self.values,), {}), self.index)

    def _bin(self, o, f):
        ov = o.values if isinstance(o, FakeSeries) else o
        return FakeSeries(f(self.values, ov), self.index, self.name)

    def __add__(self, o): return self._bin(o, lambda a, b: a + b)
    def __radd__(self, o): return self._bin(o, lambda a, b: b + a)
    def __sub__(self, o): return self._bin(o, lambda a, b: a - b)
    def __rsub__(self, o): return self._bin(o, lambda a, b: b - a)
    def __mul__(self, o): return self._bin(o, lambda a, b: a * b)
    def __rmul__(self, o): return self._bin(o, lambda a, b: b * a)
    def __truediv__(self, o): return self._bin(o, lambda a, b: a / b)
    def __rtruediv__(self, o): return self._bin(o, lambda a, b: b / a)
    def __gt__(self, o): return self._bin(o, lambda a, b: a > b)
    def __ge__(self, o): return self._bin(o, lambda a, b: a >= b)
    def __lt__(self, o): return self._bin(o, lambda a, b: a < b)
    def __le__(self, o): return self._bin(o, lambda a, b: a <= b)
    def __and__(self, o): return self._bin(o, lambda a, b: a & b)
    def __or__(self, o): return self._bin(o, lambda a, b: a | b)
    def __neg__(self): return FakeSeries(-self.values, self.index, self.name)

    def __array_ufunc__(self, ufunc, method, *inputs, **kw):
        ins = [i.values if isinstance(i, FakeSeries) else i for i in inputs]
        r = getattr(ufunc, method)(*ins, **kw)
        return FakeSeries(r, self.index, self.name) if isinstance(r, np.ndarray) and r.shape == np.shape(self.values) else r

    def __array_function__(self, func, types, args, kwargs):
        def conv(x):
            if isinstance(x, FakeSeries):
                return x.values
            if isinstance(x, (list, tuple)):
                return type(x)(conv(y) for y in x)
            return x
        return func(*[conv(a) for a in args], **{k: conv(v) for k, v in kwargs.items()})

    def __array__(self, dtype=None, copy=None):
        return np.asarray(self.values)

    def __iter__(self):
        return iter(self.values)


class _Index:
    def __init__(self, values):
        self.values = np.asarray(values)

    def __index__(self):
        raise TypeError("index object is not an integer")

    def any(self):
        return bool(np.any(self.values != 0))       # pandas: truthiness of the LABELS (Index([0]).any() is False)

    def all(self):
        return bool(np.all(self.values != 0))

    @property
    def size(self):
        return len(self.values)

    @property
    def empty(self):
        return len(self.values) == 0

    def __getitem__(self, k):
        k = k.values if isinstance(k, FakeSeries) else k
        if isinstance(k, np.ndarray) and k.dtype == object and arrays.is_mask(k):
            k = arrays.concretize_mask(k)
        return _Index(self.values[k])

    def __len__(self):
        return len(self.values)

    def tolist(self):
        return self.values.tolist()

    def __iter__(self):
        return iter(self.values.tolist())

    def __array__(self, dtype=None, copy=None):
        return self.values


class FakeDF:
    def __init__(self, data=None, index=None):
        self.cols = {}
        n = None
        if data:
            for k, v in data.items():
                if isinstance(v, (np.ndarray, FakeSeries, list, tuple)):
                    n = len(v.values if isinstance(v, FakeSeries) else v)
                    break
            for k, v in data.items():
                c = _col(v, n)
                self.cols[k] = c.copy() if isinstance(c, np.ndarray) else c       # pandas copies the arrays of a dict
        self._index = None if index is None else np.asarray(index.values if isinstance(index, _Index) else index)

    @property
    def index(self):
        if self._index is None:
            return _Index(np.arange(len(self)))
        return _Index(self._index)

    def __len__(self):
        for v in self.cols.values():
            return len(v)
        return 0 if self._index is None else len(self._index)

    @property
    def shape(self):
        return (len(self), len(self.cols))

    def __getitem__(self, k):
        if isinstance(k, str):
            return FakeSeries(self.cols[k], self.index.values, k)
        raise Unsupported("DataFrame[...] with a non-string key")

    def __setitem__(self, k, v):
        n = len(self) if self.cols else None
        c = _col(v, n)
        self.cols[k] = c.copy() if isinstance(c, np.ndarray) else c           # column assignment stores a copy: later in-place edits of `v` do not show

    def __contains__(self, k):
        return k in self.cols

    def keys(self):
        return self.cols.keys()

    @property
    def columns(self):
        return list(self.cols.keys())

    @property
    def iloc(self):
        return _ILoc(self)

    @property
    def loc(self):
        return _Loc(self)

    def drop(self, labels=None, axis=0, columns=None):
        names = columns if columns is not None else labels
        if axis != 1 and columns is None:
            raise Unsupported("DataFrame.drop rows")
        return FakeDF({k: v for k, v in self.cols.items() if k not in names}, index=self._index)

    def copy(self):
        return FakeDF({k: (v.copy()) for k, v in self.cols.items()}, index=None if self._index is None else self._index.copy())

    def groupby(self, by, sort=True, **kw):
        if kw:
            raise Unsupported(f"groupby options {sorted(kw)}")
        return _GroupBy(self, by, sort=sort)

    def sort_values(self, by, inplace=False, ascending=True, kind=None, **kw):
        """stable sort by the listed columns (first = primary); symbolic keys fork through the lexsort model"""
        if not ascending or kw:
            raise Unsupported("sort_values options")
        by = [by] if isinstance(by, str) else list(by)
        keys = [self.cols[k] for k in reversed(by)]
        if any(arrays.has_sym(k) for k in keys):
            order = np.asarray(arrays.sym_lexsort(keys), dtype=int)
        else:
            order = np.lexsort(keys)
        cols = {k: v[order] for k, v in self.cols.items()}
        idx = self.index.values[order]
        if inplace:
            self.cols, self._index = cols, idx
            return None
        return FakeDF(cols, index=idx)

    def itertuples(self, index=True, name="Pandas"):
        import collections
        fields = (["Index"] if index else []) + [str(c) for c in self.cols]
        T = collections.namedtuple(name or "Pandas", fields, rename=True)
        idx = self.index.values
        for r in range(len(self)):
            vals = ([idx[r]] if index else []) + [v[r] for v in self.cols.values()]
            yield T(*vals)

    def to_parquet(self, path, **kw):
        from . import fakefs
        F = fakefs.fs()
        f = F.files.setdefault(str(path), fakefs.File(False))
        F.mutate("to_parquet", str(path))
        f.exists, f.size, f.content = True, 128, {"parquet": self.copy()}

    def to_dict(self, orient="dict"):
        if orient != "series":
            raise Unsupported("to_dict orient")
        return {k: FakeSeries(v, self.index.values, k) for k, v in self.cols.items()}


class NamedAgg:
    def __init__(self, column, aggfunc):
        self.column, self.aggfunc = column, aggfunc


class _GroupBy:
    def __init__(self, df, by, sort=True):
        self.df, self.by, self.sort = df, by, sort

    def _groups(self):
        col = self.df.cols[self.by] if isinstance(self.by, str) else (self.by.values if isinstance(self.by, FakeSeries) else np.asarray(self.by) if not isinstance(self.by, np.ndarray) else self.by)
        keys = arrays.concretize_values(np.asarray(arrays._plain(col), dtype=object)) if arrays.has_sym(col) else np.asarray(col)
        keys = [k.item() if isinstance(k, np.generic) else k for k in keys.tolist()]
        out = {}
        for pos, k in enumerate(keys):
            out.setdefault(k, []).append(pos)
        return sorted(out.items()) if self.sort else list(out.items())      # sort=False: groups in order of first appearance

    def aggregate(self, func=None, **named):
        """groupby(col).aggregate(name=NamedAgg(column, 'count'|'min'|'max'|'sum'|'mean'), ...) or aggregate('mean'): one row per
        group label in ascending order, indexed by the label"""
        groups = self._groups()
        if func is not None and not named:
            named = {c: NamedAgg(c, func) for c in self.df.cols if not (isinstance(self.by, str) and c == self.by)}
        res = {}
        for name, agg in named.items():
            col = self.df.cols[agg.column]
            vals = []
            for _, pos in groups:
                sel = [col[i] for i in pos]
                if agg.aggfunc == "count":
                    vals.append(len(sel))
                elif agg.aggfunc == "min":
                    vals.append(arrays.sym_min(*sel) if len(sel) > 1 else sel[0])
                elif agg.aggfunc == "max":
                    vals.append(arrays.sym_max(*sel) if len(sel) > 1 else sel[0])
                elif agg.aggfunc in ("sum", "mean"):
                    t = sel[0]
                    for e in sel[1:]:
                        t = t + e
                    vals.append(t if agg.aggfunc == "sum" else t / len(sel))
                else:
                    raise Unsupported(f"groupby aggregate {agg.aggfunc!r}")
            res[name] = arrays.mk(vals) if any(isinstance(v, Sym) for v in vals) else np.array(vals)
        return FakeDF(res, index=np.array([k for k, _ in groups]))

    agg = aggregate

    def cumcount(self):
        keys = arrays.concretize_values(np.asarray(arrays._plain(self.df.cols[self.by]), dtype=object)) if arrays.has_sym(self.df.cols[self.by]) else np.asarray(self.df.cols[self.by])
        seen = {}
        out = []
        for k in keys.tolist():
            out.append(seen.get(k, 0))
            seen[k] = seen.get(k, 0) + 1
        return FakeSeries(np.array(out, dtype=np.int64), self.df.index.values)


class PDFacade:
    DataFrame = FakeDF
    Series = FakeSeries
    NamedAgg = NamedAgg

    def __getattr__(self, n):
        raise Unsupported(f"pandas.{n} is not modelled")


PD = PDFacade()
