"""
Replay-side fault injection on the REAL file system.  A counterexample found under an injected fault names the
operation of the fake file system at which the fault struck: (op, path, n-th occurrence of that op on that path).
`install(plan)` monkey-patches the corresponding real entry points (module-level `open` of the repo modules,
pathlib.Path.mkdir/unlink/rename, spikeglx.write_meta_data, mtscomp.compress/decompress, numpy.memmap) so that the
same operation raises `Boom` in a real run.  Used only by replay scripts (never by the symbolic checks).
"""
import builtins
import os
import pathlib

import numpy as np


class Boom(OSError):
    pass


class Plan:
    def __init__(self, op, path, nth):
        self.op = op
        self.name = os.path.basename(path)
        self.parent = os.path.basename(os.path.dirname(path))
        self.nth = nth
        self.count = 0
        self.fired = False

    def hit(self, op, path):
        p = str(path)
        if self.fired or op != self.op or os.path.basename(p) != self.name or os.path.basename(os.path.dirname(p)) != self.parent:
            return False
        self.count += 1
        if self.count - 1 == self.nth:
            self.fired = True
            return True
        return False


class _FileProxy:
    """wraps a real binary file: ndarray.tofile(proxy) is not possible, so the converter's tofile calls are routed
    through `write` by the patched _split2shanks-free path: we count raw writes instead"""

    def __init__(self, f, plan, path):
        self._f, self._plan, self._path = f, plan, path

    def write(self, data):
        if self._plan.hit("write", self._path):
            raise Boom(f"injected fault at write #{self._plan.nth} of {self._path}")
        return self._f.write(data)

    def __getattr__(self, n):
        return getattr(self._f, n)

    def __enter__(self):
        return self

    def __exit__(self, *a):
        self._f.close()


def install(plan):
    """returns an `uninstall` callable"""
    import mtscomp
    import neuropixel
    import spikeglx
    saved = []

    def patch(obj, name, new):
        saved.append((obj, name, getattr(obj, name, None), name in getattr(obj, "__dict__", {})))
        setattr(obj, name, new)

    real_open = builtins.open

    def open_(path, mode="r", *a, **k):
        if any(c in mode for c in "wa"):
            if plan.hit("create", path) or plan.hit("open_append", path):
                raise Boom(f"injected fault creating {path}")
            f = real_open(path, mode, *a, **k)
            return _FileProxy(f, plan, path) if "b" not in mode else f
        if plan.hit("open_read", path):
            raise Boom(f"injected fault opening {path}")
        return real_open(path, mode, *a, **k)
    patch(neuropixel, "open", open_)
    patch(spikeglx, "open", open_)

    # binary windows are written with ndarray.tofile(file): count them per file through the converter's method
    real_split = neuropixel.NP2Converter._split2shanks

    def split(self, chunk, etype="ap"):
        for sh in self.shank_info.keys():
            f = self.shank_info[sh][f"{etype}_open_file"]
            if plan.hit("write", f.name):
                raise Boom(f"injected fault writing a window to {f.name}")
            (chunk[:, self.shank_info[sh]["chns"]]).tofile(f)
    patch(neuropixel.NP2Converter, "_split2shanks", split)

    real_wmd = spikeglx.write_meta_data

    def wmd(md, md_file):
        if plan.op == "write" and plan.name == os.path.basename(str(md_file)) and plan.parent == os.path.basename(os.path.dirname(str(md_file))) and not plan.fired:
            # the fault hits one of the text lines: leave a truncated metadata file behind
            plan.fired = True
            with real_open(md_file, "w") as fid:
                for i, (key, val) in enumerate(md.items()):
                    if i >= plan.nth:
                        break
                    fid.write(f"{key}={val}\n")
            raise Boom(f"injected fault writing {md_file}")
        return real_wmd(md, md_file)
    patch(spikeglx, "write_meta_data", wmd)

    for meth in ("mkdir", "unlink", "rename"):
        real = getattr(pathlib.Path, meth)

        def mk(real, meth):
            def f(self, *a, **k):
                if meth == "unlink" and not self.exists():
                    return real(self, *a, **k)
                if plan.hit(meth, str(self)):
                    raise Boom(f"injected fault at {meth} {self}")
                return real(self, *a, **k)
            return f
        patch(pathlib.Path, meth, mk(real, meth))

    real_compress = mtscomp.compress

    def compress(path, out=None, outmeta=None, **kw):
        if plan.op in ("create", "write_chunk", "check") and not plan.fired:
            if plan.hit("create", out):
                raise Boom(f"injected fault creating {out}")
            if plan.op == "write_chunk" and os.path.basename(str(out)) == plan.name and os.path.basename(os.path.dirname(str(out))) == plan.parent:
                plan.fired = True
                with real_open(out, "wb") as f:
                    f.write(b"partial compressed stream")
                raise Boom(f"injected fault while writing chunk {plan.nth} of {out}")
            if plan.op == "create" and os.path.basename(str(outmeta)) == plan.name and os.path.basename(os.path.dirname(str(outmeta))) == plan.parent:
                plan.fired = True
                tmpm = str(outmeta) + ".never"
                r = real_compress(path, out=out, outmeta=tmpm, **kw)
                os.remove(tmpm)
                raise Boom(f"injected fault creating {outmeta}")
            if plan.op == "check" and os.path.basename(str(out)) == plan.name:
                plan.fired = True
                real_compress(path, out=out, outmeta=outmeta, **kw)
                raise Boom(f"injected fault in the after-compress check of {out}")
        return real_compress(path, out=out, outmeta=outmeta, **kw)
    patch(mtscomp, "compress", compress)

    real_memmap = np.memmap

    class memmap(real_memmap):
        def __new__(cls, filename, *a, **k):
            if plan.hit("memmap", filename):
                raise Boom(f"injected fault mapping {filename}")
            return real_memmap.__new__(real_memmap, filename, *a, **k)
    patch(np, "memmap", memmap)

    def uninstall():
        for obj, name, old, had in reversed(saved):
            if had or old is not None and not isinstance(obj, type(os)):
                setattr(obj, name, old)
            else:
                try:
                    delattr(obj, name)
                except Exception:
                    if old is not None:
                        setattr(obj, name, old)
    return uninstall
