"""
Environment for running neuropixel.NP2Converter / NP2Reconstructor / Reader.compress_file on the symbolic
file system: mtscomp stub (chunked writes = fault points), filter stub, file views.
"""
from __future__ import annotations

import builtins

import numpy as np
import scipy
import scipy.signal
import z3

from . import arrays, core, fakefs, larr, sglx, stubs, tokens
from .core import SInt, SReal, Sym, Unsupported, ite
from .fakefs import FakePath, fs
from .larr import LArr

N_CHUNKS = 2


def raw_array(nrows, nc, name="RAW", aid="rawfile"):
    f = core.ufun(name, z3.IntSort(), z3.IntSort(), z3.IntSort())
    return LArr((nrows, nc), lambda s, c: SInt(f(larr._int_term(s), larr._int_term(c))), aid=larr.const_aid(aid), tag=np.dtype(np.int16))


def raw_elem(s, c, name="RAW"):
    f = core.ufun(name, z3.IntSort(), z3.IntSort(), z3.IntSort())
    return SInt(f(larr._int_term(s), larr._int_term(c)))


_SERIAL = [0]


class Cbin:
    """content of a compressed file: refers to what it was compressed from"""

    def __init__(self, source, complete, shape, serial=None):
        self.source = source
        self.complete = complete
        self.shape = shape
        self.serial = serial          # which compression run wrote the stream: its .ch header (chunk table) carries the same number

    def __repr__(self):
        return f"Cbin(complete={self.complete})"


def records_view(records, ncols, itemsize=2):
    """list of tofile records -> LArr (rows x ncols); later records win, holes read as 0"""
    recs = []
    for r in records:
        if "array" not in r:
            raise Unsupported("binary view of a text file")
        a = r["array"]
        if not isinstance(a, LArr):
            a = LArr.from_array(np.asarray(a) if not isinstance(a, np.ndarray) else a)
        if a.ndim == 1:
            a = a[None, :]
        if not builtins.bool(larr._dim_eq(a.shape[1], ncols)):
            raise Unsupported("record width differs from the requested view width")
        recs.append((r["pos"] // (ncols * itemsize), r["pos"], a))
    total = 0
    for start, pos, a in recs:
        end = start + a.shape[0]
        total = ite(end > total, end, total)

    def fn(r, c):
        res = None
        for start, pos, a in recs:
            inside = core.and_(r >= start, r < start + a.shape[0])
            if inside is False:
                continue
            val = a.fn(r - start, c)
            if res is None:
                # bytes never written read as zero - of the same kind as the data (bit-vector / IEEE / integer term)
                if isinstance(val, core.SBV):
                    res = core.SBV(z3.BitVecVal(0, val.width), signed=val.signed)
                elif isinstance(val, core.SFP):
                    res = core.SFP(z3.FPVal(0.0, val.sort))
                else:
                    res = 0
            res = ite(inside, val, res)
        return 0 if res is None else res
    return LArr((total, ncols), fn, aid=None, tag=np.dtype(np.int16))


def file_array(f, ncols):
    c = f.content
    if isinstance(c, Cbin):
        return file_array_content(c.source, ncols)
    return file_array_content(c, ncols)


def file_array_content(c, ncols):
    if isinstance(c, LArr):
        return c
    if isinstance(c, np.ndarray):
        return LArr.from_array(c)
    if isinstance(c, list):
        return records_view(c, ncols)
    raise Unsupported(f"file content of type {type(c).__name__} is not an array")


class MtsReader:
    def __init__(self, *a, **k):
        self._c = None
        self.shape = None

    def open(self, cdata, cmeta=None):
        f = fs().get(str(cdata))
        if f is None or not builtins.bool(f.exists):
            raise FileNotFoundError(str(cdata))
        if isinstance(cmeta, dict):
            hdr = cmeta                   # mtscomp also accepts the parsed header itself
        else:
            m = fs().get(str(cmeta)) if cmeta is not None else None
            if cmeta is not None and (m is None or not builtins.bool(m.exists)):
                raise FileNotFoundError(str(cmeta))
            hdr = m.content if m is not None else None
        c = f.content
        if isinstance(c, Cbin) and isinstance(hdr, dict) and c.serial is not None and hdr.get("serial") is not None and hdr["serial"] != c.serial:
            raise ValueError("the compression header (chunk table) belongs to another compression run of this file")
        if not isinstance(c, Cbin):
            raise Unsupported("mtscomp stub opened something that is not a compressed file")
        if not c.complete:
            raise ValueError("corrupt compressed stream")
        self._cbin = c
        self.shape = tuple(c.shape)
        self._c = file_array_content(c.source, c.shape[1])
        if builtins.bool(larr._dim_eq(self._c.shape[0], c.shape[0])) is False:
            self._c = self._c[: c.shape[0]]

    def __getitem__(self, key):
        return self._c[key]

    def close(self):
        pass

    def tofile(self, out, overwrite=False):
        F = fs()
        o = F.files.setdefault(str(out), fakefs.File(False))
        if builtins.bool(o.exists) and not overwrite:
            raise ValueError(f"The output file {out} already exists, use --overwrite.")
        F.mutate("create", str(out), by="mtscomp.decompress")
        o.exists, o.size, o.content = True, 0, {"partial_of": self._cbin}
        for k in range(N_CHUNKS):
            F.mutate("write_chunk", str(out), chunk=k, by="mtscomp.decompress")
        o.size = self.shape[0] * self.shape[1] * 2
        o.content = self._cbin.source


class Mts:
    """stub of the mtscomp module"""
    Reader = MtsReader

    @staticmethod
    def compress(path, out=None, outmeta=None, sample_rate=None, n_channels=None, dtype=None, check_after_compress=True, **kw):
        F = fs()
        src = F.get(str(path))
        if src is None or not builtins.bool(src.exists):
            raise FileNotFoundError(str(path))
        if sample_rate is None or n_channels is None or dtype is None:
            raise ValueError("mtscomp.compress needs sample_rate, n_channels and dtype")
        itemsize = np.dtype(dtype).itemsize
        nrows = src.size // (n_channels * itemsize)
        o = F.files.setdefault(str(out), fakefs.File(False))
        F.mutate("create", str(out), by="mtscomp.compress")
        o.exists, o.size = True, 0
        _SERIAL[0] += 1
        serial = _SERIAL[0]
        o.content = Cbin(src.content, False, (nrows, n_channels), serial)
        for k in range(N_CHUNKS):
            F.mutate("write_chunk", str(out), chunk=k, by="mtscomp.compress")
            o.size = o.size + 7
        o.content = Cbin(src.content, True, (nrows, n_channels), serial)
        m = F.files.setdefault(str(outmeta), fakefs.File(False))
        F.mutate("create", str(outmeta), by="mtscomp.compress")
        m.exists, m.size, m.content = True, 11, {"ch_for": str(out), "serial": serial}
        if check_after_compress:
            F.mutate("check", str(out), by="mtscomp.compress")
        return 1.0

    @staticmethod
    def decompress(cdata, cmeta=None, out=None, write_output=False, overwrite=False, check_after_decompress=True, **kw):
        r = MtsReader()
        r.open(cdata, cmeta)
        if out:
            write_output = True
        if write_output:
            r.tofile(out, overwrite=overwrite)
        return r


def sosfiltfilt_stub(sos, x, axis=-1, **kw):
    if isinstance(x, LArr):
        tag = "sos_" + larr._digest(np.asarray(sos))
        return larr.opaque(f"sosfiltfilt_{tag}_ax{axis % x.ndim}", x, tag=np.dtype(float))
    if isinstance(x, arrays.SymArray) or arrays.has_sym(x):
        raise Unsupported("sosfiltfilt on a concrete-shape symbolic array (use a lazy array)")
    return scipy.signal.sosfiltfilt(sos, x, axis=axis, **kw)


def npfile_view(content, shape):
    """content of a binary file as an array of the given shape (used by the memmap stub)"""
    c = content
    if isinstance(c, Cbin):
        c = c.source
    a = file_array_content(c, shape[1])
    return a[: shape[0]]


def patch():
    """spikeglx + neuropixel + ibldsp.utils on the fake file system with the stubs above"""
    import neuropixel
    spikeglx, neuropixel = sglx.patch(mtscomp=Mts)
    sig = stubs.Namespace(scipy.signal, sosfiltfilt=sosfiltfilt_stub)
    neuropixel.scipy = stubs.Namespace(scipy, signal=sig)
    # memmap: assemble write records into an array view
    orig = sglx._NPSglx.memmap

    def memmap(self, filename, dtype=None, mode="r", shape=None, **k):
        f = fs().get(str(filename))
        if f is None or not builtins.bool(f.exists):
            raise FileNotFoundError(str(filename))
        itemsize = np.dtype(dtype).itemsize
        need = shape[0] * shape[1] * itemsize
        if builtins.bool(need > f.size):
            raise ValueError("mmap length is greater than file size")
        fs().mutate("memmap", str(filename), mutating=False)
        return npfile_view(f.content, shape)
    sglx._NPSglx.memmap = memmap
    return spikeglx, neuropixel


def np24_meta_text(nsites, shank_of, ns_token, rng="0.5", maxint=8192, fs_txt="30000", extra=None, flags=None):
    """NP2.4 metadata: site i on shank shank_of[i] (concrete), column i%2, row i//2 (per shank rows need not be unique)"""
    sites = [(shank_of[i], i % 2, i // 2) + (() if flags is None else (flags[i],)) for i in range(nsites)]
    return sglx.imec_meta_text("NP2.4", sites, ns=ns_token, fs_hz=fs_txt, rng=rng, maxint=maxint, extra=extra,
                               file_size=None)
