#!/bin/sh
# tools/mutcheck.sh <patch.diff> <PROP> [tier] : apply a seeded change to /repo, run the check, always revert
P=$1; ID=$2; T=${3:-quick}
git -C /repo status --porcelain | grep -q . && { echo "repo not clean"; exit 9; }
git -C /repo apply "$(realpath "$P")" || { echo "patch does not apply"; exit 8; }
cd /verif && ./check $ID --tier $T --no-twins > /tmp/mutcheck_$ID.log 2>&1; rc=$?
git -C /repo checkout -- . 
grep -E "^VIOLATION|^INCONCLUSIVE|^KNOWN|^C[0-9]+ \[" /tmp/mutcheck_$ID.log | cut -c1-400 | head -12
echo "exit=$rc"
exit $rc
