"""dev helper: run one case of a check in-process and print stats + cexs:  try.py c18 case_fn key=val ..."""
import sys, time, json, importlib
sys.path.insert(0, '/verif')
from symex import harness, core
harness.repo_setup()
mod = importlib.import_module('checks.' + sys.argv[1])
name = sys.argv[2]
tier = 'quick'
cs = [c for c in mod.cases('thorough') + mod.cases('quick') if c.name == name]
c = cs[0]
mod.setup()
ex = core.Explorer(max_paths=c.max_paths)
t = time.time()
try:
    ex.run(lambda ctx: getattr(mod, c.fn)(ctx, **c.params))
except core.Inconclusive as e:
    print('INCONCLUSIVE', type(e).__name__, e)
print(name, ex.stats.as_dict(), round(time.time() - t, 2)); print("ERRORS", ex.errors[:3])
seen = set()
for cx in ex.cexs:
    if cx.obligation in seen: continue
    seen.add(cx.obligation)
    print('  ', cx)
