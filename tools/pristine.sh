#!/bin/sh
# tools/pristine.sh <ID> [tier] [extra args]: run a check against the scratch copy /tmp/repo_pristine of /repo's HEAD (development only; evidence to a scratch dir)
ID=$1; T=${2:-quick}; shift; shift 2>/dev/null
[ -d /tmp/repo_pristine ] || git -C /repo worktree add --detach /tmp/repo_pristine >/dev/null
cd /verif && VERIF_REPO=/tmp/repo_pristine VERIF_REPO_SRC=/tmp/repo_pristine/src VERIF_EVIDENCE_DIR=/tmp/mutwt_evidence ./check $ID --tier $T "$@" 2>&1 | tail -6
