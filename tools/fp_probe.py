import sys, time, z3, subprocess
bits=int(sys.argv[1]); what=sys.argv[2]; solver=sys.argv[3]
D=z3.Float64(); rne=z3.RNE()
k=z3.BitVec('k',bits+1)
kf=z3.fpUnsignedToFP(rne,k,D)
fsv=30000.390639481 if len(sys.argv)>4 else 30000.0
if what=='roundtrip':
    t=z3.fpMul(rne, z3.fpDiv(rne,kf,z3.FPVal(fsv,D)), z3.FPVal(fsv,D))
    r=z3.fpRoundToIntegral(rne,t)
    goal=z3.Not(z3.fpEQ(r,kf))
else:
    t=z3.fpDiv(rne, z3.fpDiv(rne,kf,z3.FPVal(2.0,D)), z3.FPVal(385.0,D))
    r=z3.fpRoundToIntegral(z3.RTZ(),t)
    q=z3.UDiv(z3.ZeroExt(16,k), z3.BitVecVal(770,bits+17))
    goal=z3.Not(z3.fpEQ(r, z3.fpUnsignedToFP(rne,q,D)))
s=z3.Solver(); s.add(goal)
t0=time.time()
if solver=='z3':
    print('z3', s.check(), round(time.time()-t0,1))
else:
    open('/tmp/fp.smt2','w').write("(set-logic QF_BVFP)\n"+s.to_smt2())
    code='''
import cvc5, sys, time
s=cvc5.Solver()
p=cvc5.InputParser(s); p.setFileInput(cvc5.InputLanguage.SMT_LIB_2_6, "/tmp/fp.smt2")
sm=p.getSymbolManager()
t0=time.time()
while True:
    c=p.nextCommand()
    if c.isNull(): break
    r=c.invoke(s, sm)
    if str(r).strip(): print("cvc5", str(r).strip())
print(round(time.time()-t0,1))
'''
    r=subprocess.run(['/verif/.venv/bin/python','-c',code],capture_output=True,text=True,timeout=3000)
    print(r.stdout[-300:], r.stderr[-300:])
