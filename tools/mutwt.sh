#!/bin/sh
# tools/mutwt.sh <patch.diff> <ID> [tier] : like mutcheck.sh but on the scratch worktree /tmp/repo_mut (never touches /repo);
# evidence goes to a scratch directory so that /verif/evidence keeps describing /repo
P=$1; ID=$2; T=${3:-quick}
[ -d /tmp/repo_mut ] || git -C /repo worktree add --detach /tmp/repo_mut >/dev/null
git -C /tmp/repo_mut checkout -q --detach "$(git -C /repo rev-parse HEAD)" && git -C /tmp/repo_mut checkout -- .
git -C /tmp/repo_mut apply "$(realpath "$P")" || { echo "patch does not apply"; exit 8; }
cd /verif && VERIF_REPO=/tmp/repo_mut VERIF_REPO_SRC=/tmp/repo_mut/src VERIF_EVIDENCE_DIR=/tmp/mutwt_evidence ./check $ID --tier $T --no-twins > /tmp/mutwt_$ID.log 2>&1; rc=$?
git -C /tmp/repo_mut checkout -- .
grep -E "^VIOLATION|^INCONCLUSIVE|^KNOWN|^C[0-9]+ \[" /tmp/mutwt_$ID.log | cut -c1-300 | head -8
grep -o "case=[^ ]* obligation=[^ ]*" /tmp/mutwt_$ID.log | sort | uniq -c | sort -rn | head -4
echo "exit=$rc"
exit $rc
