#!/bin/sh
# tools/mutwt.sh <patch.diff> <ID> [tier] : like mutcheck.sh but on the scratch worktree $W (never touches /repo);
# evidence goes to a scratch directory so that /verif/evidence keeps describing /repo
P=$1; ID=$2; T=${3:-quick}; W=${MUTWT:-/tmp/repo_mut}
[ -d $W ] || git -C /repo worktree add --detach $W >/dev/null
git -C $W checkout -q --detach "$(git -C /repo rev-parse HEAD)" && git -C $W checkout -- .
git -C $W apply "$(realpath "$P")" || { echo "patch does not apply"; exit 8; }
cd /verif && VERIF_REPO=$W VERIF_REPO_SRC=$W/src VERIF_EVIDENCE_DIR=/tmp/mutwt_evidence_$(basename $W) ./check $ID --tier $T --no-twins > /tmp/mutwt_$(basename $W)_$ID.log 2>&1; rc=$?
git -C $W checkout -- .
grep -E "^VIOLATION|^INCONCLUSIVE|^KNOWN|^C[0-9]+ \[" /tmp/mutwt_$(basename $W)_$ID.log | cut -c1-300 | head -8
grep -o "case=[^ ]* obligation=[^ ]*" /tmp/mutwt_$(basename $W)_$ID.log | sort | uniq -c | sort -rn | head -4
echo "exit=$rc"
exit $rc
