#!/bin/sh
# tools/trymut.sh <patch> <cNN> <case>: development helper, one case against a patched scratch copy (/tmp/repo_try)
[ -d /tmp/repo_try ] || git -C /repo worktree add --detach /tmp/repo_try >/dev/null 2>&1
git -C /tmp/repo_try checkout -q -- . && git -C /tmp/repo_try apply "$1" || exit 8
cd /verif && VERIF_REPO=/tmp/repo_try VERIF_REPO_SRC=/tmp/repo_try/src .venv/bin/python tools/try.py $2 $3 2>&1 | tail -${4:-4} | cut -c1-700
git -C /tmp/repo_try checkout -q -- .
