#!/usr/bin/env python3
"""Regenerates /verif/MANIFEST.json from the check modules (run with the overlay python)."""
import importlib
import json
import os
import sys

V = "/verif"
sys.path.insert(0, V)
from symex import harness  # noqa

harness.repo_setup()
props = [json.loads(l) for l in open(f"{V}/properties.jsonl")]
NA = json.load(open(f"{V}/tools/not_applicable.json"))
checks = []
na = []
hooks_commits = []
for p in props:
    pid = p["id"]
    f = f"{V}/checks/{pid.lower()}.py"
    if not os.path.exists(f) or pid in NA:
        na.append({"property_id": pid, "reason": NA.get(pid, "check not built yet (framework under construction)")})
        continue
    m = importlib.import_module(f"checks.{pid.lower()}")
    checks.append({
        "property_id": pid,
        "quick_cmd": f"./check {pid} --tier quick",
        "thorough_cmd": f"./check {pid} --tier thorough",
        "evidence_file": f"/verif/evidence/{pid}.json",
        "replay_cmd_template": f"./check {pid} --replay {{path}}",
        "engine": "symex",
        "level_claimed": {"category": "other",
                          "text": m.LEVEL_TEXT,
                          "design_ref": f"DESIGN.md section 3, {pid}"},
        "level_note": m.LEVEL_NOTE,
        "technique": getattr(m, "TECHNIQUE", "bounded symbolic execution of the real Python source on z3 (SMT), counterexamples replayed on the real code"),
    })
man = {
    "version": 1,
    "setup_cmd": "sh /verif/setup.sh",
    "hooks": {"guard": "IBL_NEUROPIXEL_VERIF",
              "enable": "no source hooks: checks import /repo/src and rebind module globals (np, int, float, scipy, ...) at run time",
              "baseline_off_cmd": "cd /repo && /venv/bin/python -m pytest -ra -q -p no:cacheprovider --timeout=900 --continue-on-collection-errors src/tests/unit",
              "source_commits": hooks_commits, "add_only": True},
    "engines": [{"name": "symex", "path": "/verif/symex", "serves_properties": [c["property_id"] for c in checks],
                 "kind_free_text": "symbolic executor for the real Python/NumPy source: z3 terms flow through the repository's functions; path forks on symbolic conditions; obligations decided by z3 (cvc5 for the IEEE lemmas)"}],
    "checks": checks,
    "not_applicable": na,
    "notes": "exit 0 held / 1 VIOLATION (replayed on the real code) / 3 inconclusive (solver unknown, unsupported operation, bound exceeded). Known findings: /verif/known_findings.json",
}
json.dump(man, open(f"{V}/MANIFEST.json", "w"), indent=1)
print("checks:", [c["property_id"] for c in checks], "n/a:", [x["property_id"] for x in na])
