#!/usr/bin/env python3
"""confirm a seeded change in its scratch worktree and store it under /verif/seeded/<id>/<variant>/
usage: confirm_seed.py C17 a "src/tests/unit/test_ibldsp.py" "<needs>" "<detected-by>" """
import json, os, shutil, subprocess, sys
pid, var, tests, needs, detected = sys.argv[1:6]
wt = os.environ.get("SEED_WT_PREFIX", "/tmp/wt_") + pid
src = os.environ.get("SEED_OUT", "/tmp/seed_out") + f"/{pid}/{var}"
def sh(cmd, **kw):
    return subprocess.run(cmd, shell=True, capture_output=True, text=True, **kw)
assert sh(f"git -C {wt} status --porcelain").stdout.strip() == "", "worktree not clean"
env = dict(os.environ, PYTHONPATH="src", TMPDIR=f"/tmp/seedtmp_{pid}")
os.makedirs(env["TMPDIR"], exist_ok=True)
extras = [f for f in ("demo.py", "pyfftw.py") if os.path.exists(f"{src}/{f}")]
for f in extras:                      # the demo is run from inside the worktree, as its author did
    shutil.copy(f"{src}/{f}", f"{wt}/{f}")
d0 = sh(f"cd {wt} && /venv/bin/python demo.py", env=env)
assert sh(f"git -C {wt} apply {src}/patch.diff").returncode == 0, "patch does not apply"
try:
    d1 = sh(f"cd {wt} && /venv/bin/python demo.py", env=env)
    if tests == "ALL":
        # the pinned baseline: every test of /root/.vp/BASELINE.json's stable_pass list must still pass
        jx = env["TMPDIR"] + f"/junit_{var}.xml"
        t = sh(f"cd {wt} && /venv/bin/python -m pytest -q -p no:cacheprovider --timeout=900 --continue-on-collection-errors --junitxml={jx} 2>&1 | tail -15", env=env)
    else:
        t = sh(f"cd {wt} && /venv/bin/python -m pytest -q -p no:cacheprovider {tests} 2>&1 | tail -15", env=env)
finally:
    sh(f"git -C {wt} checkout -- .")
    for f in extras:
        if os.path.exists(f"{wt}/{f}"):
            os.remove(f"{wt}/{f}")
tail = t.stdout.strip().splitlines()
failed = sorted(l.split()[1] for l in tail if l.startswith("FAILED"))
EXPECTED_FAIL = ("TestShift", "test_fk", "test_saturation", "test_spike_window", "test_wave_shift", "test_sync_timestamps_linear", "test_pre_proc", "test_parallel_computation")
unexpected = [f for f in failed if not any(e in f for e in EXPECTED_FAIL)]
if tests == "ALL":
    import xml.etree.ElementTree as ET
    passed = set()
    for tc in ET.parse(jx).getroot().iter("testcase"):
        if not any(ch.tag in ("failure", "error", "skipped") for ch in tc):
            passed.add(f"{tc.get('classname')}::{tc.get('name')}")
    stable = json.load(open("/root/.vp/BASELINE.json"))["stable_pass"]
    unexpected = sorted(x for x in stable if x not in passed)
    failed = sorted(set(failed))
    tests = "(whole suite, as in /root/.vp/BASELINE.json)"
ok = d0.returncode == 0 and d1.returncode == 1 and not unexpected
print(f"{pid}/{var}: demo pristine={d0.returncode} patched={d1.returncode} tests: {tail[-1] if tail else '?'} unexpected_failures={unexpected} -> {'CONFIRMED' if ok else 'NOT CONFIRMED'}")
if ok:
    dst = f"/verif/seeded/{pid}/{var}"
    os.makedirs(dst, exist_ok=True)
    shutil.copy(f"{src}/patch.diff", dst)
    shutil.copy(f"{src}/demo.py", dst)
    if os.path.exists(f"{src}/notes.md"):
        shutil.copy(f"{src}/notes.md", dst)
    json.dump({"property": pid, "variant": var, "needs_to_manifest": needs, "detected_by": detected,
               "confirmed": {"demo_exit_pristine": d0.returncode, "demo_exit_patched": d1.returncode, "tests_cmd": f"/venv/bin/python -m pytest -q -p no:cacheprovider {tests}",
                             "tests_summary": tail[-1] if tail else "", "failed_but_in_baseline_always_fail_list": failed},
               "base_commit": sh(f"git -C {wt} rev-parse HEAD").stdout.strip()}, open(f"{dst}/meta.json", "w"), indent=1)
sys.exit(0 if ok else 1)
